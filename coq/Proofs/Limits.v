(** C09: proofs about the resource guards of Model/Limits.v *)
From Coq Require Import List NArith Bool Lia Arith.
From UV Require Import Model.Node Model.Sig Model.Exec Model.Limits.
Import ListNotations.

(* ------------------------------------------------------------------ rnd53 *)
Section Rnd.
Open Scope N_scope.

Lemma rnd53_small n : n < 2 ^ 53 -> rnd53 n = n.
Proof.
  intros H. unfold rnd53.
  assert (Hk : N.log2 n < 53).
  { destruct (N.eq_dec n 0) as [->|Hn]; [reflexivity|]. apply N.log2_lt_pow2; lia. }
  apply N.ltb_lt in Hk. now rewrite Hk.
Qed.

Lemma rnd53_big n : 2 ^ 53 <= n -> 2 ^ 53 <= rnd53 n.
Proof.
  intros H. unfold rnd53.
  assert (Hpos : 0 < n). { assert (0 < 2 ^ 53) by (apply N.neq_0_lt_0, N.pow_nonzero; lia). lia. }
  assert (Hk : 53 <= N.log2 n) by (apply N.log2_le_pow2; auto).
  destruct (N.ltb_spec (N.log2 n) 53) as [Hlt|_]; [lia|].
  set (k := N.log2 n) in *. set (sh := k - 52).
  assert (Hspec : 2 ^ k <= n) by (apply (N.log2_spec n Hpos)).
  assert (Hsplit : 2 ^ k = 2 ^ 52 * 2 ^ sh).
  { rewrite <- N.pow_add_r. f_equal. unfold sh. lia. }
  assert (Hsh0 : 2 ^ sh <> 0) by (apply N.pow_nonzero; lia).
  assert (Hq : 2 ^ 52 <= n / 2 ^ sh).
  { rewrite <- (N.div_mul (2 ^ 52) (2 ^ sh) Hsh0). apply N.div_le_mono; auto. now rewrite <- Hsplit. }
  set (q := n / 2 ^ sh) in *.
  match goal with |- context [if ?c then q + 1 else q] => set (q' := if c then q + 1 else q) end.
  assert (Hq' : q <= q') by (unfold q'; match goal with |- context [if ?c then _ else _] => destruct c end; lia).
  apply N.le_trans with (2 ^ k).
  - apply N.pow_le_mono_r; lia.
  - rewrite Hsplit. apply N.mul_le_mono_r. lia.
Qed.

Lemma rnd53_exact n : rnd53 n < 2 ^ 53 -> rnd53 n = n.
Proof.
  intros H. destruct (N.lt_ge_cases n (2 ^ 53)) as [Hn|Hn].
  - now apply rnd53_small.
  - apply rnd53_big in Hn. lia.
Qed.

Lemma rnd53_pos n : 1 <= n -> 1 <= rnd53 n.
Proof.
  intros H. destruct (N.lt_ge_cases n (2 ^ 53)) as [Hn|Hn].
  - now rewrite rnd53_small.
  - apply rnd53_big in Hn. assert (1 <= 2 ^ 53) by (change 1 with (2 ^ 0); apply N.pow_le_mono_r; lia). lia.
Qed.

Lemma fin_some n e : fin n = Some e -> e = n.
Proof. unfold fin. destruct (_ <? _); congruence. Qed.

Lemma p53_lt_p1024 : 2 ^ 53 < 2 ^ 1024.
Proof. apply N.pow_lt_mono_r; lia. Qed.

Lemma fin_small n : n < 2 ^ 53 -> fin n = Some n.
Proof.
  intros H. unfold fin. pose proof p53_lt_p1024.
  destruct (N.ltb_spec n (2 ^ 1024)); [reflexivity|lia].
Qed.

(** an exact product below 2^53 forces both the multiplication and the conversion to be exact *)
Lemma fmul_exact a d e : 1 <= a -> 1 <= d -> fmul (Some a) (of_usize d) = Some e -> e < 2 ^ 53 ->
  e = a * d /\ a <= e.
Proof.
  intros Ha Hd H He. unfold fmul, of_usize in H. apply fin_some in H. subst e.
  apply rnd53_exact in He as Hx. rewrite Hx in He |- *.
  assert (Hr : 1 <= rnd53 d) by now apply rnd53_pos.
  assert (Hrd : rnd53 d < 2 ^ 53) by nia.
  apply rnd53_exact in Hrd. rewrite Hrd in *. split; [reflexivity|nia].
Qed.

(* ------------------------------------------------------------------ the size guard *)

Definition le_opt (a : N) (r : option N) : Prop := match r with Some e => a <= e | None => True end.

Lemma size_loop_inv dims : forall a e, 1 <= a ->
  size_loop (Some a) dims = LVal (Some e) -> e < 2 ^ 53 ->
  e = a * prod dims /\ a <= e /\ Forall (fun d => d <> 0) dims.
Proof.
  induction dims as [|d t IH]; intros a e Ha H He; cbn [size_loop prod fold_right] in *.
  - injection H as <-. split; [lia|]. split; [lia|constructor].
  - destruct (N.eqb_spec d 0) as [->|Hd]; [discriminate|].
    destruct (fmul (Some a) (of_usize d)) as [a'|] eqn:Hm.
    + (* the accumulator stays below the final value *)
      assert (Ha' : 1 <= a').
      { unfold fmul, of_usize in Hm. apply fin_some in Hm. subst a'. apply rnd53_pos.
        assert (1 <= rnd53 d) by (apply rnd53_pos; lia). nia. }
      destruct (IH a' e Ha' H He) as (E & Hle & Hall).
      assert (Hlt : a' < 2 ^ 53) by lia.
      destruct (fmul_exact a d a' Ha ltac:(lia) Hm Hlt) as (Ea & Hla).
      split; [|split].
      * rewrite E, Ea. fold (prod t). lia.
      * lia.
      * constructor; auto.
    + (* inf stays inf *)
      exfalso. clear - H. revert H. induction t as [|x t IHt]; cbn [size_loop]; [discriminate|].
      destruct (x =? 0); [discriminate|]. cbn [fmul]. exact IHt.
Qed.

Lemma size_loop_zero dims : forall acc, size_loop acc dims = LZero -> prod dims = 0.
Proof.
  induction dims as [|d t IH]; intros acc H; cbn [size_loop prod fold_right] in *; [discriminate|].
  destruct (N.eqb_spec d 0) as [->|Hd]; [reflexivity|]. fold (prod t). rewrite (IH _ H). lia.
Qed.

Lemma u32max_lt_p53 : u32max < 2 ^ 53.
Proof. reflexivity. Qed.

(** (a) what an accepted size guarantees: the returned count is the TRUE product of the
    dimensions, it fits in a u32, and the byte size is within the limit *)
Theorem size_guard_sound_pre es dims L n : L < 2 ^ 53 ->
  validate_size_pre es dims L = Accept n ->
  n = prod dims /\ n <= u32max /\ n * es <= L.
Proof.
  intros HL H. unfold validate_size_pre in H.
  destruct (size_loop (Some 1) dims) as [|[e|]] eqn:Hl.
  - injection H as <-. rewrite (size_loop_zero _ _ Hl). lia.
  - destruct (N.ltb_spec u32max e) as [|He]; [discriminate|].
    destruct (fmul (Some e) (of_usize es)) as [sz|] eqn:Hm; [|discriminate].
    destruct (N.ltb_spec L sz) as [|Hsz]; [discriminate|]. injection H as <-.
    pose proof u32max_lt_p53.
    destruct (size_loop_inv dims 1 e ltac:(lia) Hl ltac:(lia)) as (E & H1 & _).
    split; [lia|]. split; [lia|].
    destruct (N.eq_dec es 0) as [->|Hes]; [lia|].
    destruct (fmul_exact e es sz ltac:(lia) ltac:(lia) Hm ltac:(lia)) as (Es & _). lia.
  - discriminate.
Qed.

Lemma size_loop_exact dims : forall a, 1 <= a -> Forall (fun d => d <> 0) dims -> a * prod dims < 2 ^ 53 ->
  size_loop (Some a) dims = LVal (Some (a * prod dims)).
Proof.
  induction dims as [|d t IH]; intros a Ha Hall Hp; cbn [size_loop prod fold_right] in *.
  - f_equal. f_equal. lia.
  - fold (prod t) in *. inversion Hall as [|? ? Hd Ht]; subst.
    destruct (N.eqb_spec d 0); [contradiction|].
    assert (Hpt : 1 <= prod t).
    { clear - Ht. induction Ht; cbn [prod fold_right]; [lia|]. fold (prod l). nia. }
    assert (Hdd : d < 2 ^ 53) by nia.
    assert (Had : a * d < 2 ^ 53) by nia.
    unfold fmul, of_usize. rewrite (rnd53_small d Hdd), (rnd53_small _ Had), (fin_small _ Had).
    rewrite (IH (a * d)); [f_equal; f_equal; lia|nia|auto|]. replace (a * d * prod t) with (a * (d * prod t)) by lia. auto.
Qed.

Lemma size_loop_has_zero dims : forall acc, Exists (fun d => d = 0) dims -> size_loop acc dims = LZero.
Proof.
  induction dims as [|d t IH]; intros acc H; inversion H; subst; cbn [size_loop].
  - reflexivity.
  - destruct (d =? 0); auto.
Qed.

(** ... and the guard rejects nothing that fits (no false "too large" error) *)
Theorem size_guard_complete_pre es dims L : L < 2 ^ 53 ->
  prod dims <= u32max -> prod dims * es <= L ->
  validate_size_pre es dims L = Accept (prod dims).
Proof.
  intros HL Hp Hb. unfold validate_size_pre. pose proof u32max_lt_p53.
  destruct (Exists_dec (fun d => d = 0) dims (fun x => N.eq_dec x 0)) as [Hz|Hnz].
  - rewrite (size_loop_has_zero _ _ Hz). f_equal. clear - Hz.
    induction Hz as [d t ->|d t _ IH]; cbn [prod fold_right]; [lia|]. fold (prod t). rewrite IH. lia.
  - assert (Hall : Forall (fun d => d <> 0) dims) by (apply Forall_Exists_neg; auto).
    rewrite (size_loop_exact dims 1 ltac:(lia) Hall ltac:(lia)). rewrite N.mul_1_l.
    destruct (N.ltb_spec u32max (prod dims)); [lia|].
    assert (Hpp : 1 <= prod dims).
    { clear - Hall. induction Hall; cbn [prod fold_right]; [lia|]. fold (prod l). nia. }
    assert (Hes : es < 2 ^ 53) by nia.
    assert (Hpe : prod dims * es < 2 ^ 53) by lia.
    unfold fmul, of_usize. rewrite (rnd53_small es Hes), (rnd53_small _ Hpe), (fin_small _ Hpe).
    destruct (N.ltb_spec L (prod dims * es)); [lia|reflexivity].
Qed.

(** the blind spot: a zero dimension switches the guard off for all the others.  An accepted
    shape can have a row length (product of the trailing dimensions) that does not fit in a
    usize: code that multiplies the dimensions of an accepted shape wraps around (release) or
    panics (overflow checks) *)
Theorem size_guard_refuted_pre :
  exists es dims L, L < 2 ^ 53 /\ Forall (fun d => d <= usize_max) dims /\
    validate_size_pre es dims L = Accept 0 /\ usize_max < prod (tl dims).
Proof.
  exists 1, [0; 10000000000; 10000000000], (2 ^ 32). split; [reflexivity|]. split.
  - repeat constructor; discriminate.
  - split; reflexivity.
Qed.

(* ---- the current code (commit 1cc30f2): zero dimensions no longer switch the guard off *)

Lemma rnd53_lower x : (2 ^ 53 - 1) * x <= 2 ^ 53 * rnd53 x.
Proof.
  destruct (N.lt_ge_cases x (2 ^ 53)) as [Hx|Hx].
  { rewrite rnd53_small by auto. apply N.mul_le_mono_r. lia. }
  unfold rnd53.
  assert (Hpos : 0 < x). { assert (0 < 2 ^ 53) by (apply N.neq_0_lt_0, N.pow_nonzero; lia). lia. }
  assert (Hk : 53 <= N.log2 x) by (apply N.log2_le_pow2; auto).
  destruct (N.ltb_spec (N.log2 x) 53) as [Hlt|_]; [lia|].
  set (k := N.log2 x) in *. set (sh := k - 52).
  assert (Hspec : 2 ^ k <= x) by (apply (N.log2_spec x Hpos)).
  assert (Hsh0 : 2 ^ sh <> 0) by (apply N.pow_nonzero; lia).
  assert (Hsplit : 2 ^ k = 2 ^ 53 * 2 ^ (sh - 1)).
  { rewrite <- N.pow_add_r. f_equal. unfold sh. lia. }
  assert (Hsh : 2 ^ sh = 2 * 2 ^ (sh - 1)).
  { rewrite <- N.pow_succ_r'. f_equal. unfold sh. lia. }
  pose proof (N.div_mod x (2 ^ sh) Hsh0) as Hdm.
  pose proof (N.mod_lt x (2 ^ sh) Hsh0) as Hr.
  set (q := x / 2 ^ sh) in *. set (r := x mod 2 ^ sh) in *. set (h := 2 ^ (sh - 1)) in *.
  set (P := 2 ^ 53) in *. assert (HP : 1 <= P) by (unfold P; change 1 with (2 ^ 0); apply N.pow_le_mono_r; lia).
  set (S := 2 ^ sh) in *.
  destruct ((h <? r) || ((r =? h) && N.odd q)) eqn:Hc.
  - (* rounds up: the result is above x *)
    assert (x <= (q + 1) * S) by nia. nia.
  - (* rounds down by r <= h, and x >= 2^53 * h *)
    apply orb_false_iff in Hc as [Hc1 Hc2]. apply N.ltb_ge in Hc1.
    assert (P * r <= x) by nia. nia.
Qed.

Fixpoint npow (b : N) (k : nat) : N := match k with O => 1 | Datatypes.S k => b * npow b k end.

Lemma npow_pos b k : 1 <= b -> 1 <= npow b k.
Proof. intros Hb. induction k; cbn [npow]; [lia|nia]. Qed.

(** Bernoulli: (e+1)^(k+1) <= e^(k+1) + (k+1) (e+1)^k *)
Lemma bernoulli e k : npow (e + 1) (Datatypes.S k) <= npow e (Datatypes.S k) + N.of_nat (Datatypes.S k) * npow (e + 1) k.
Proof.
  induction k as [|k IH].
  - cbn [npow]. lia.
  - set (A := npow (e + 1) (Datatypes.S k)) in *. set (B := npow e (Datatypes.S k)) in *.
    set (C := npow (e + 1) k) in *.
    change (npow (e + 1) (Datatypes.S (Datatypes.S k))) with ((e + 1) * A).
    change (npow e (Datatypes.S (Datatypes.S k))) with (e * B).
    assert (HA : A = (e + 1) * C) by reflexivity.
    replace (N.of_nat (Datatypes.S (Datatypes.S k))) with (N.of_nat (Datatypes.S k) + 1) by lia.
    set (n := N.of_nat (Datatypes.S k)) in *.
    assert (e * A <= e * B + n * (e * C)) by nia.
    assert (e * C <= A) by nia. nia.
Qed.

(** relative error of the f64 product: c * E^(2m) >= a * P * (E-1)^(2m) after m multiplications *)
Lemma size_loop_lower l : forall a c, Forall (fun d => d <> 0) l ->
  size_loop (Some a) l = LVal (Some c) ->
  a * prod l * npow (2 ^ 53 - 1) (2 * length l) <= c * npow (2 ^ 53) (2 * length l).
Proof.
  induction l as [|d t IH]; intros a c Hall H; cbn [size_loop prod fold_right length] in *.
  - injection H as <-. rewrite Nat.mul_0_r. cbn [npow]. lia.
  - fold (prod t) in *. inversion Hall as [|? ? Hd Ht]; subst.
    destruct (N.eqb_spec d 0); [contradiction|].
    destruct (fmul (Some a) (of_usize d)) as [a'|] eqn:Hm.
    + specialize (IH a' c Ht H).
      unfold fmul, of_usize in Hm. apply fin_some in Hm.
      pose proof (rnd53_lower d) as H1. pose proof (rnd53_lower (a * rnd53 d)) as H2. rewrite <- Hm in H2.
      replace (2 * Datatypes.S (length t))%nat with (Datatypes.S (Datatypes.S (2 * length t))) by lia.
      cbn [npow]. set (X := npow (2 ^ 53) (2 * length t)) in *. set (Y := npow (2 ^ 53 - 1) (2 * length t)) in *.
      set (E := 2 ^ 53) in *. set (e := E - 1) in *. set (rd := rnd53 d) in *. set (pt := prod t) in *.
      assert (G1 : e * e * (a * d) <= E * E * a') by nia.
      assert (G2 : e * e * (a * d) * (pt * Y) <= E * E * a' * (pt * Y)) by (apply N.mul_le_mono_r; exact G1).
      assert (G3 : E * E * (a' * pt * Y) <= E * E * (c * X)) by (apply N.mul_le_mono_l; exact IH).
      nia.
    + exfalso. clear - H. revert H. induction t as [|x t IHt]; cbn [size_loop]; [discriminate|].
      destruct (x =? 0); [discriminate|]. cbn [fmul]. exact IHt.
Qed.

Lemma loop2_spec dims : forall acc z, exists a,
  size_loop2 acc z dims = (a, z || negb (forallb (fun d => negb (d =? 0)) dims)) /\
  size_loop acc (nz dims) = LVal a.
Proof.
  induction dims as [|d t IH]; intros acc z; cbn [size_loop2 forallb nz filter].
  - exists acc. rewrite orb_false_r. split; reflexivity.
  - fold (nz t). destruct (N.eqb_spec d 0) as [->|Hd]; cbn [negb andb].
    + destruct (IH acc true) as (a & E1 & E2). exists a. rewrite E1, orb_true_r. split; [reflexivity|exact E2].
    + destruct (IH (fmul acc (of_usize d)) z) as (a & E1 & E2). exists a. split; [exact E1|].
      cbn [size_loop]. destruct (N.eqb_spec d 0); [contradiction|exact E2].
Qed.

Lemma nz_nonzero dims : Forall (fun d => d <> 0) (nz dims).
Proof.
  unfold nz. apply Forall_forall. intros x Hx. apply filter_In in Hx as [_ Hx].
  destruct (N.eqb_spec x 0); [discriminate|assumption].
Qed.

Lemma nz_id dims : forallb (fun d => negb (d =? 0)) dims = true -> nz dims = dims.
Proof.
  induction dims as [|d t IH]; cbn [forallb nz filter]; [reflexivity|]. fold (nz t).
  intros H. apply andb_prop in H as [H1 H2]. rewrite H1, (IH H2). reflexivity.
Qed.

Lemma prod_zero dims : forallb (fun d => negb (d =? 0)) dims = false -> prod dims = 0.
Proof.
  induction dims as [|d t IH]; cbn [forallb prod fold_right]; [discriminate|]. fold (prod t).
  destruct (N.eqb_spec d 0) as [->|]; cbn [negb andb]; [lia|]. intros H. rewrite (IH H). lia.
Qed.

Lemma filter_len_le {A} (f : A -> bool) l : (length (filter f l) <= length l)%nat.
Proof. induction l as [|x t IH]; cbn [filter length]; [lia|]. destruct (f x); cbn [length]; lia. Qed.

Lemma isize_max_f_eq : isize_max_f = 2 ^ 63.
Proof. reflexivity. Qed.

(** a computed product of at most 2^63 means a true product below 2^64 (ranks below 2^50) *)
Lemma lower_fits l c : Forall (fun d => d <> 0) l -> N.of_nat (length l) < 2 ^ 50 ->
  size_loop (Some 1) l = LVal (Some c) -> c <= 2 ^ 63 -> prod l <= usize_max.
Proof.
  intros Hall Hlen Hl Hc. pose proof (size_loop_lower l 1 c Hall Hl) as H. rewrite N.mul_1_l in H.
  destruct l as [|d t]; [cbn; unfold usize_max; lia|].
  set (m := length (d :: t)) in *.
  assert (Hk : exists k, (2 * m)%nat = Datatypes.S k) by (exists (2 * m - 1)%nat; unfold m; cbn [length]; lia).
  destruct Hk as [k Hk]. rewrite Hk in H.
  pose proof (bernoulli (2 ^ 53 - 1) k) as HB.
  replace (2 ^ 53 - 1 + 1) with (2 ^ 53) in HB by reflexivity.
  assert (HkN : N.of_nat (Datatypes.S k) < 2 ^ 51).
  { rewrite <- Hk. replace (N.of_nat (2 * m)) with (2 * N.of_nat m) by lia.
    change (2 ^ 51) with (2 * 2 ^ 50). lia. }
  change (npow (2 ^ 53) (Datatypes.S k)) with (2 ^ 53 * npow (2 ^ 53) k) in *.
  pose proof (npow_pos (2 ^ 53) k ltac:(change 1 with (2 ^ 0); apply N.pow_le_mono_r; lia)) as HX.
  set (X := npow (2 ^ 53) k) in *. set (Y := npow (2 ^ 53 - 1) (Datatypes.S k)) in *.
  set (n := N.of_nat (Datatypes.S k)) in *. set (P := prod (d :: t)) in *.
  (* E*X <= Y + n*X and 2n < E give E*X < 2Y *)
  assert (H2 : 2 ^ 53 * X < 2 * Y).
  { assert (2 * n < 2 ^ 53) by (change (2 ^ 53) with (4 * 2 ^ 51); lia). nia. }
  assert (H3 : P * (2 ^ 53 * X) <= 2 * (2 ^ 63 * (2 ^ 53 * X))) by nia.
  assert (H4 : P <= 2 * 2 ^ 63).
  { apply (N.mul_le_mono_pos_r _ _ (2 ^ 53 * X)); [nia|]. lia. }
  destruct (N.eq_dec P (2 * 2 ^ 63)) as [E|NE]; [|unfold usize_max; change (2 * 2 ^ 63) with 18446744073709551616 in *; lia].
  (* equality is impossible: the inequality H2 is strict *)
  exfalso. rewrite E in H. nia.
Qed.

(** (a) the current guard: an accepted size is the true product, fits a u32 and the byte limit, AND
    the product of the non-zero dimensions fits in a usize even when a zero dimension is present *)
Theorem size_guard_sound es dims L n : L < 2 ^ 53 -> N.of_nat (length dims) < 2 ^ 50 ->
  validate_size es dims L = Accept n ->
  n = prod dims /\ n <= u32max /\ n * es <= L /\ prod (nz dims) <= usize_max.
Proof.
  intros HL Hlen H. unfold validate_size in H.
  destruct (loop2_spec dims (Some 1) false) as (a & E1 & E2). rewrite E1 in H. cbn [orb] in H.
  destruct a as [e|]; [|discriminate].
  destruct (forallb (fun d => negb (d =? 0)) dims) eqn:Hz; cbn [negb] in H.
  - (* no zero dimension: as before *)
    rewrite (nz_id _ Hz) in *.
    destruct (N.ltb_spec u32max e) as [|He]; [discriminate|].
    destruct (fmul (Some e) (of_usize es)) as [sz|] eqn:Hm; [|discriminate].
    destruct (N.ltb_spec L sz) as [|Hsz]; [discriminate|]. injection H as <-.
    pose proof u32max_lt_p53.
    destruct (size_loop_inv dims 1 e ltac:(lia) E2 ltac:(lia)) as (E & H1 & _).
    assert (Hn : e = prod dims) by lia. split; [exact Hn|]. split; [lia|]. split.
    + destruct (N.eq_dec es 0) as [->|Hes]; [lia|].
      destruct (fmul_exact e es sz ltac:(lia) ltac:(lia) Hm ltac:(lia)) as (Es & _). lia.
    + rewrite <- Hn. unfold usize_max, u32max in *. lia.
  - (* a zero dimension *)
    destruct (N.ltb_spec isize_max_f e) as [|He]; [discriminate|]. injection H as <-.
    rewrite (prod_zero _ Hz). split; [reflexivity|]. split; [unfold u32max; lia|]. split; [lia|].
    rewrite isize_max_f_eq in He.
    apply (lower_fits (nz dims) e); auto using nz_nonzero.
    unfold nz. pose proof (filter_len_le (fun d => negb (d =? 0)) dims). lia.
Qed.

Lemma prod_le_nz dims : prod dims <= prod (nz dims).
Proof.
  induction dims as [|d t IH]; cbn [prod nz filter fold_right]; [lia|]. fold (prod t) (nz t).
  destruct (N.eqb_spec d 0) as [->|Hd]; cbn [negb]; [lia|]. cbn [prod fold_right]. fold (prod (nz t)). nia.
Qed.

Lemma prod_nz_pos dims : 1 <= prod (nz dims).
Proof.
  pose proof (nz_nonzero dims) as H. induction H; cbn [prod fold_right]; [lia|]. fold (prod l). nia.
Qed.

Lemma prod_nz_skipn dims : forall k, prod (nz (skipn k dims)) <= prod (nz dims).
Proof.
  induction dims as [|d t IH]; intros [|k]; cbn [skipn]; try lia.
  specialize (IH k). cbn [nz filter]. fold (nz t). destruct (negb (d =? 0)) eqn:E; [|exact IH].
  cbn [prod fold_right]. fold (prod (nz t)). destruct (N.eqb_spec d 0); [discriminate|].
  pose proof (prod_nz_pos (skipn k t)). nia.
Qed.

(** the law that [size_guard_refuted_pre] refutes for the old code holds for the current one: every
    trailing product of an accepted shape (row length, cell size, ...) fits in a usize *)
Theorem size_guard_suffixes_fit es dims L n k : L < 2 ^ 53 -> N.of_nat (length dims) < 2 ^ 50 ->
  validate_size es dims L = Accept n -> prod (skipn k dims) <= usize_max.
Proof.
  intros HL Hlen H. destruct (size_guard_sound es dims L n HL Hlen H) as (_ & _ & _ & Hf).
  pose proof (prod_le_nz (skipn k dims)). pose proof (prod_nz_skipn dims k). lia.
Qed.

(** the former witness is now refused *)
Theorem size_guard_witness_refused : validate_size 1 [0; 10000000000; 10000000000] (2 ^ 32) = Reject.
Proof. reflexivity. Qed.

(** nothing that fits is refused (dimensions without a zero), and an empty shape whose non-zero
    dimensions multiply to less than 2^53 is accepted *)
Theorem size_guard_complete es dims L : L < 2 ^ 53 ->
  Forall (fun d => d <> 0) dims -> prod dims <= u32max -> prod dims * es <= L ->
  validate_size es dims L = Accept (prod dims).
Proof.
  intros HL Hall Hp Hb. unfold validate_size. pose proof u32max_lt_p53.
  destruct (loop2_spec dims (Some 1) false) as (a & E1 & E2). rewrite E1. cbn [orb].
  assert (Hz : forallb (fun d => negb (d =? 0)) dims = true).
  { apply forallb_forall. intros x Hx. rewrite Forall_forall in Hall. specialize (Hall x Hx).
    destruct (N.eqb_spec x 0); [contradiction|reflexivity]. }
  rewrite Hz. cbn [negb]. rewrite (nz_id _ Hz) in E2.
  rewrite (size_loop_exact dims 1 ltac:(lia) Hall ltac:(lia)) in E2.
  assert (Ea : a = Some (prod dims)) by (rewrite N.mul_1_l in E2; congruence). subst a.
  destruct (N.ltb_spec u32max (prod dims)); [lia|].
  assert (Hpp : 1 <= prod dims).
  { clear - Hall. induction Hall; cbn [prod fold_right]; [lia|]. fold (prod l). nia. }
  assert (Hes : es < 2 ^ 53) by nia.
  assert (Hpe : prod dims * es < 2 ^ 53) by lia.
  unfold fmul, of_usize. rewrite (rnd53_small es Hes), (rnd53_small _ Hpe), (fin_small _ Hpe).
  destruct (N.ltb_spec L (prod dims * es)); [lia|reflexivity].
Qed.

Theorem size_guard_complete_zero es dims L : Exists (fun d => d = 0) dims -> prod (nz dims) < 2 ^ 53 ->
  validate_size es dims L = Accept 0.
Proof.
  intros Hex Hp. unfold validate_size.
  destruct (loop2_spec dims (Some 1) false) as (a & E1 & E2). rewrite E1. cbn [orb].
  assert (Hz : forallb (fun d => negb (d =? 0)) dims = false).
  { apply Exists_exists in Hex as (x & Hx & ->). destruct (forallb _ dims) eqn:E; [|reflexivity].
    rewrite forallb_forall in E. specialize (E 0 Hx). discriminate. }
  rewrite Hz. cbn [negb].
  rewrite (size_loop_exact (nz dims) 1 ltac:(lia) (nz_nonzero dims) ltac:(lia)) in E2.
  assert (Ea : a = Some (prod (nz dims))) by (rewrite N.mul_1_l in E2; congruence). subst a.
  rewrite isize_max_f_eq.
  destruct (N.ltb_spec (2 ^ 63) (prod (nz dims))) as [Hgt|]; [|reflexivity].
  assert (2 ^ 53 < 2 ^ 63) by (apply N.pow_lt_mono_r; lia). lia.
Qed.

(* ---- range and rerank (commits 9313bfc, 13d1954) *)

Lemma nz_app l r : r <> 0 -> prod (nz (l ++ [r])) = prod (nz l) * r.
Proof.
  intros Hr. induction l as [|d t IH]; cbn [app nz filter].
  - destruct (N.eqb_spec r 0); [contradiction|]. cbn [negb prod fold_right]. lia.
  - fold (nz (t ++ [r])) (nz t). destruct (negb (d =? 0)); [|exact IH].
    cbn [prod fold_right]. fold (prod (nz (t ++ [r]))) (prod (nz t)). rewrite IH. lia.
Qed.

(** the shape that `range` builds from accepted dimensions is valid: the product of its non-zero
    dimensions fits in a usize (the result's shape is dims ++ [rank]) *)
Theorem range_shape_valid dims L n : L < 2 ^ 53 -> N.of_nat (length dims) + 1 < 2 ^ 50 ->
  range_len dims L = Accept n -> prod (nz (dims ++ [N.of_nat (length dims)])) <= usize_max.
Proof.
  intros HL Hlen H. destruct dims as [|d t]; [cbn; unfold usize_max; lia|].
  unfold range_len in H. set (ds := d :: t) in *.
  destruct (validate_size 8 (ds ++ [N.of_nat (length ds)]) L) as [m|] eqn:E; [|discriminate].
  apply (size_guard_sound 8 _ L m HL) in E; [tauto|]. rewrite app_length. cbn [length]. lia.
Qed.

Theorem range_refuted_pre : exists dims L, L < 2 ^ 53 /\ range_len_pre dims L = Accept 0 /\ usize_max < prod (nz dims).
Proof. exists [10000000000; 40000000000; 0], (2 ^ 32). repeat split; reflexivity. Qed.

Theorem range_witness_refused : range_len [10000000000; 40000000000; 0] (2 ^ 32) = Reject.
Proof. reflexivity. Qed.

(** rerank prepends fewer than 99 axes, whatever rank is asked for *)
Theorem rerank_prepends_bounded rank len k : rerank_prepends rank len = Some k -> k <= MAX_DIMS.
Proof.
  unfold rerank_prepends, MAX_DIMS. destruct (N.leb_spec len rank); [|intros [= <-]; lia].
  destruct (N.leb_spec 99 rank); [discriminate|]. intros [= <-]. lia.
Qed.

Theorem rerank_refuted_pre : exists rank len k, rerank_prepends_pre rank len = Some k /\ 10 ^ 18 <= k.
Proof. exists (10 ^ 18), 1, (10 ^ 18). split; [reflexivity|lia]. Qed.

End Rnd.

(* ------------------------------------------------------------------ call depth *)
Section Depth.
  Variable limit : nat.
  Variable gl : list cnode.
  Variable D : nat.
  Hypothesis HD : forall i b, nth_error gl i = Some b -> fdepth b <= D.

  Definition maxd (c : cout) : nat := snd (fst c).
  Definition bound (n : cnode) (d : nat) : nat := Nat.max (d + fdepth n) (limit + 1 + D).

  Lemma fdepth_list_in l x : In x l -> fdepth x <= fdepth_list l.
  Proof.
    induction l as [|y t IH]; intros H; [contradiction|]. cbn [fdepth_list] in *. fold (fdepth_list t).
    destruct H as [->|H]; [lia|]. specialize (IH H). lia.
  Qed.

  Lemma run_seq_bound ex l d o B : d <= B -> (forall x d o, In x l -> d + fdepth x <= B -> limit + 1 + D <= B -> maxd (ex x d o) <= B) ->
    d + fdepth_list l <= B -> limit + 1 + D <= B -> maxd (run_seq ex l d o) <= B.
  Proof.
    revert o. induction l as [|x t IH]; intros o Hd Hex Hl HB; cbn [run_seq]; [exact Hd|].
    cbn [fdepth_list] in Hl. fold (fdepth_list t) in Hl.
    pose proof (Hex x d o (or_introl eq_refl) ltac:(lia) HB) as H1.
    destruct (ex x d o) as [[r m] o'] eqn:E. unfold maxd in H1; cbn in H1.
    destruct r; try (unfold maxd; cbn; lia).
    specialize (IH o' Hd (fun y d o Hy => Hex y d o (or_intror Hy)) ltac:(lia) HB).
    destruct (run_seq ex t d o') as [[r' m'] o'']. unfold maxd in *; cbn in *. lia.
  Qed.

  Lemma run_times_bound ex k d o B : d <= B -> (forall o, maxd (ex d o) <= B) -> maxd (run_times ex k d o) <= B.
  Proof.
    revert o. induction k as [|k IH]; intros o Hd Hex; cbn [run_times]; [exact Hd|].
    pose proof (Hex o) as H1. destruct (ex d o) as [[r m] o'] eqn:E. unfold maxd in H1; cbn in H1.
    destruct r; try (unfold maxd; cbn; lia).
    specialize (IH o' Hd Hex). destruct (run_times ex k d o') as [[r' m'] o'']. unfold maxd in *; cbn in *. lia.
  Qed.

  (** (b) the call stack never grows beyond the recursion limit plus the frames one function body
      can stack up on its own: along EVERY execution (all oracles, all fuels) *)
  Lemma cexec_bound fuel : forall n d o B, d + fdepth n <= B -> limit + 1 + D <= B ->
    maxd (cexec limit gl fuel n d o) <= B.
  Proof.
    induction fuel as [|fuel IH]; intros n d o B Hn HB; cbn [cexec]; [unfold maxd; cbn; lia|].
    destruct n as [| |l|b|l|b|i]; cbn [fdepth] in Hn.
    - unfold maxd; cbn; lia.
    - unfold maxd; cbn; lia.
    - fold (fdepth_list l) in Hn. apply run_seq_bound; try lia. intros x d' o' _ Hx HB'. apply IH; auto.
    - apply IH; lia.
    - fold (fdepth_list l) in Hn. destruct o as [|k o']; [unfold maxd; cbn; lia|].
      destruct (nth_error l k) as [b|] eqn:E; [|unfold maxd; cbn; lia].
      apply IH; auto. apply nth_error_In in E. apply fdepth_list_in in E. lia.
    - destruct o as [|k o']; [unfold maxd; cbn; lia|].
      apply run_times_bound; [lia|]. intros o2. apply IH; auto.
    - destruct (Nat.ltb_spec limit d) as [|Hle]; [unfold maxd; cbn; lia|].
      destruct (nth_error gl i) as [b|] eqn:E; [|unfold maxd; cbn; lia].
      apply IH; auto. specialize (HD i b E). lia.
  Qed.

  Theorem call_depth_bounded fuel n d o : maxd (cexec limit gl fuel n d o) <= bound n d.
  Proof. apply cexec_bound; unfold bound; lia. Qed.
End Depth.

(** the guarded call itself: a function body is entered at depth <= limit + 1 *)
Theorem guarded_call_depth limit gl fuel i d o b : nth_error gl i = Some b -> fdepth b = 0 ->
  (forall j c, nth_error gl j = Some c -> fdepth c = 0) ->
  maxd (cexec limit gl fuel (CGlobal i) d o) <= Nat.max d (limit + 1).
Proof.
  intros _ _ H0.
  pose proof (call_depth_bounded limit gl 0 (fun j c E => eq_ind_r (fun x => x <= 0) (le_n 0) (H0 j c E)) fuel (CGlobal i) d o) as H.
  unfold bound in H. cbn [fdepth] in H. lia.
Qed.

(* ------------------------------------------------------------------ signature checker depth *)

(** (c) beyond MAX_NODE_DEPTH the checker answers "too complex" without looking at the node, and
    every recursive call of [vnode] is made at depth S d (Model/Sig.v, by construction): the
    traversal is never more than MAX_NODE_DEPTH + 1 calls deep *)
Theorem sigcheck_cutoff d n e : MAX_NODE_DEPTH < d -> vnode d n e = None.
Proof.
  intros H. apply Nat.ltb_lt in H. destruct n; cbn [vnode]; rewrite H; reflexivity.
Qed.

Theorem sigcheck_depth_bounded d n e e' : vnode d n e = Some e' -> d <= MAX_NODE_DEPTH.
Proof.
  intros H. destruct (Nat.le_gt_cases d MAX_NODE_DEPTH) as [|Hgt]; [assumption|].
  rewrite (sigcheck_cutoff d n e Hgt) in H. discriminate.
Qed.

(** k nested `dip`s around a dyadic primitive *)
Fixpoint dip_chain (k : nat) : node :=
  match k with O => Prim 5 2 1 | S k => Mod MDip [(Sig (2 + k) (1 + k) 0 0, dip_chain k)] end.

Lemma vnode_dip_chain k : forall d e, d + k <= MAX_NODE_DEPTH -> vnode d (dip_chain k) e <> None.
Proof.
  induction k as [|k IH]; intros d e H; cbn [dip_chain vnode].
  - destruct (Nat.ltb_spec MAX_NODE_DEPTH d); [lia|discriminate].
  - destruct (Nat.ltb_spec MAX_NODE_DEPTH d); [lia|]. cbn [opt_bind].
    specialize (IH (S d) (epop 1 e) ltac:(lia)).
    destruct (vnode (S d) (dip_chain k) (epop 1 e)); [discriminate|contradiction].
Qed.

Lemma vnode_dip_chain_deep k : forall d e, MAX_NODE_DEPTH < d + k -> vnode d (dip_chain k) e = None.
Proof.
  induction k as [|k IH]; intros d e H.
  - apply sigcheck_cutoff. lia.
  - cbn [dip_chain vnode]. destruct (Nat.ltb_spec MAX_NODE_DEPTH d); [reflexivity|].
    rewrite (IH (S d) (epop 1 e) ltac:(lia)). reflexivity.
Qed.

(** the cut-off is sharp: a function is accepted iff its nesting is at most MAX_NODE_DEPTH *)
Theorem sigcheck_threshold k : node_sig (dip_chain k) <> None <-> k <= MAX_NODE_DEPTH.
Proof.
  unfold node_sig. split.
  - intros H. destruct (Nat.le_gt_cases k MAX_NODE_DEPTH) as [|Hgt]; [assumption|].
    rewrite (vnode_dip_chain_deep k 0 _ ltac:(lia)) in H. now contradiction H.
  - intros H. pose proof (vnode_dip_chain k 0 (vs0, vs0) ltac:(lia)) as H1.
    destruct (vnode 0 (dip_chain k) (vs0, vs0)); [discriminate|contradiction].
Qed.

(* ------------------------------------------------------------------ exec is total (half-property) *)

(** (d) HALF-PROPERTY, true by construction: the MODEL interpreter is a total function that
    returns one of four verdicts for every node, state and fuel: it has no stuck state.  This
    says nothing about panics of the Rust interpreter; that part of C09 is searched. *)
Theorem exec_total pk ps ar un fm asm fuel n s :
  let r := exec pk ps ar un fm asm fuel n s in
  (exists s', r = Ok s') \/ (exists c s', r = Err c s') \/ r = OOF \/ r = Unk.
Proof.
  cbv zeta. destruct (exec pk ps ar un fm asm fuel n s) as [s'|c s'| |]; eauto.
Qed.

Theorem exec_no_fuel pk ps ar un fm asm n s : exec pk ps ar un fm asm 0 n s = OOF.
Proof. reflexivity. Qed.

(* ------------------------------------------------------------------ box nesting of `binary` *)

Section BtreeInd.
  Variable P : btree -> Prop.
  Hypothesis HLeaf : P BLeaf.
  Hypothesis HBox : forall l, Forall P l -> P (BBox l).
  Fixpoint btree_ind' (t : btree) : P t :=
    match t with
    | BLeaf => HLeaf
    | BBox l => HBox l ((fix go (l : list btree) : Forall P l :=
        match l with [] => Forall_nil P | x :: r => Forall_cons x (btree_ind' x) (go r) end) l)
    end.
End BtreeInd.

Lemma enc_ok_bound t : forall d, enc_ok d t = true -> d + bheight t <= MAX_BINARY_DEPTH + 1.
Proof.
  induction t as [|l IH] using btree_ind'; intros d H; cbn [enc_ok bheight] in *.
  - destruct (Nat.ltb_spec MAX_BINARY_DEPTH d); [discriminate|]. lia.
  - destruct (Nat.ltb_spec MAX_BINARY_DEPTH d) as [|Hd]; [discriminate|].
    induction IH as [|x r Hx Hr IHr]; [lia|].
    apply andb_prop in H as [H1 H2]. specialize (Hx _ H1). specialize (IHr H2). lia.
Qed.

(** (c') `binary` never recurses deeper than MAX_BINARY_DEPTH + 1 on a value it accepts *)
Theorem box_nesting_cap t : enc_ok 0 t = true -> bheight t <= MAX_BINARY_DEPTH + 1.
Proof. intros H. apply enc_ok_bound in H. lia. Qed.

Theorem box_chain_threshold k : enc_ok 0 (box_chain k) = true <-> k <= MAX_BINARY_DEPTH.
Proof.
  assert (G : forall k d, enc_ok d (box_chain k) = true <-> d + k <= MAX_BINARY_DEPTH).
  { clear k. induction k as [|k IH]; intros d; cbn [box_chain enc_ok].
    - destruct (Nat.ltb_spec MAX_BINARY_DEPTH d); split; intros; try lia; try discriminate; reflexivity.
    - destruct (Nat.ltb_spec MAX_BINARY_DEPTH d); [split; intros; [discriminate|lia]|].
      rewrite andb_true_r, IH. lia. }
  rewrite G. lia.
Qed.
