(** C10: the formatter's spacing never merges or splits words (adjacency core, Model/Fmt.v). *)
From Coq Require Import List NArith Bool Lia PeanoNat.
From UV Require Import Model.Fmt.
Import ListNotations.
Local Open Scope N_scope.

Lemma cclass_eqb_eq : forall a b, cclass_eqb a b = true -> a = b.
Proof. destruct a, b; cbn; intro H; try discriminate; reflexivity. Qed.

Lemma cls32 : cls 32 = CSp. Proof. reflexivity. Qed.
Lemma cls33 : cls 33 = CBang. Proof. reflexivity. Qed.
Lemma cls34 : cls 34 = CQuote. Proof. reflexivity. Qed.
Lemma cls61 : cls 61 = CEq. Proof. reflexivity. Qed.
Lemma cls64 : cls 64 = CAt. Proof. reflexivity. Qed.
Lemma cls95 : cls 95 = CUnder. Proof. reflexivity. Qed.
Lemma cls175 : cls 175 = CNeg. Proof. reflexivity. Qed.

(* ---------------------------------------------------------------- runs of one class *)

Lemma step_cont : forall s c s', continue s c = Some s' ->
  (forall a, s <> SStr a) -> s <> SAt -> step s c = ([], s').
Proof.
  intros s c s' H H1 H2; destruct s; cbn [step]; try rewrite H; try reflexivity.
  - exfalso; eapply H1; reflexivity.
  - exfalso; apply H2; reflexivity.
Qed.

Lemma run_low : forall s acc r, all_cls CLow s = true ->
  lexk (SLow acc) (s ++ r) = lexk (SLow (rev s ++ acc)) r.
Proof.
  induction s as [|a s IH]; intros acc r H; [reflexivity|].
  cbn in H; apply andb_true_iff in H; destruct H as [Ha Hs]; apply cclass_eqb_eq in Ha.
  cbn [app lexk rev]. rewrite (step_cont (SLow acc) a (SLow (a :: acc))); try discriminate.
  - cbn [app]. rewrite IH by assumption. rewrite <- app_assoc. reflexivity.
  - cbn [continue]. rewrite Ha. reflexivity.
Qed.

Lemma run_letters : forall s acc r, forallb is_letter s = true ->
  lexk (SUpp acc O) (s ++ r) = lexk (SUpp (rev s ++ acc) O) r.
Proof.
  induction s as [|a s IH]; intros acc r H; [reflexivity|].
  cbn in H; apply andb_true_iff in H; destruct H as [Ha Hs].
  cbn [app lexk rev]. rewrite (step_cont (SUpp acc O) a (SUpp (a :: acc) O)); try discriminate.
  - cbn [app]. rewrite IH by assumption. rewrite <- app_assoc. reflexivity.
  - cbn [continue]. unfold is_letter in Ha. destruct (cls a); try discriminate; reflexivity.
Qed.

Lemma run_bangs : forall n acc b r,
  lexk (SUpp acc b) (repeat 33 n ++ r) = lexk (SUpp acc (n + b)%nat) r.
Proof.
  induction n as [|n IH]; intros acc b r; [reflexivity|].
  cbn [repeat app lexk]. rewrite (step_cont (SUpp acc b) 33 (SUpp acc (S b))); try discriminate.
  - cbn [app]. rewrite IH. f_equal. f_equal. lia.
  - cbn [continue]. rewrite cls33. destruct b; reflexivity.
Qed.

Lemma run_digits : forall s neg acc r, all_cls CDig s = true ->
  lexk (SNum neg acc) (s ++ r) = lexk (SNum neg (rev s ++ acc)) r.
Proof.
  induction s as [|a s IH]; intros neg acc r H; [reflexivity|].
  cbn in H; apply andb_true_iff in H; destruct H as [Ha Hs]; apply cclass_eqb_eq in Ha.
  cbn [app lexk rev]. rewrite (step_cont (SNum neg acc) a (SNum neg (a :: acc))); try discriminate.
  - cbn [app]. rewrite IH by assumption. rewrite <- app_assoc. reflexivity.
  - cbn [continue]. rewrite Ha. reflexivity.
Qed.

Lemma run_subd : forall s acc r, all_cls CSubd s = true ->
  lexk (SSubd acc) (s ++ r) = lexk (SSubd (rev s ++ acc)) r.
Proof.
  induction s as [|a s IH]; intros acc r H; [reflexivity|].
  cbn in H; apply andb_true_iff in H; destruct H as [Ha Hs]; apply cclass_eqb_eq in Ha.
  cbn [app lexk rev]. rewrite (step_cont (SSubd acc) a (SSubd (a :: acc))); try discriminate.
  - cbn [app]. rewrite IH by assumption. rewrite <- app_assoc. reflexivity.
  - cbn [continue]. rewrite Ha. reflexivity.
Qed.

Lemma run_str : forall s acc r,
  forallb (fun c => negb (cclass_eqb (cls c) CQuote) && negb (c =? 92) && negb (c =? 10)) s = true ->
  lexk (SStr acc) (s ++ r) = lexk (SStr (rev s ++ acc)) r.
Proof.
  induction s as [|a s IH]; intros acc r H; [reflexivity|].
  cbn in H; apply andb_true_iff in H; destruct H as [Ha Hs].
  apply andb_true_iff in Ha; destruct Ha as [Ha _]; apply andb_true_iff in Ha; destruct Ha as [Ha _].
  cbn [app lexk rev step]. apply negb_true_iff in Ha. rewrite Ha.
  cbn [app]. rewrite IH by assumption. rewrite <- app_assoc. reflexivity.
Qed.

(* ---------------------------------------------------------------- one word *)

Definition lexvalid (t : token) : Prop := normal_tok t = true \/ t = TSpace false.

(** words completed while reading the text of [t] (the others are still pending in [est t]) *)
Definition pre (t : token) : list token := match est t with S0 => [t] | _ => [] end.

Lemma nonempty_cons : forall A (l : list A), nonempty l = true -> exists x r, l = x :: r.
Proof. intros A [|x r] H; [discriminate | eauto]. Qed.

Lemma tok_run : forall t r, lexvalid t -> lexk S0 (text t ++ r) = pre t ++ lexk (est t) r.
Proof.
  intros t r [H | ->]; [| reflexivity].
  unfold normal_tok in H; apply andb_true_iff in H; destruct H as [Hv Hn].
  destruct t; try discriminate; cbn [text valid_tok] in *.
  - (* TLower *)
    apply andb_true_iff in Hv; destruct Hv as [Hne Hall].
    destruct (nonempty_cons _ _ Hne) as (c & s' & ->).
    cbn in Hall; apply andb_true_iff in Hall; destruct Hall as [Hc Hs]; apply cclass_eqb_eq in Hc.
    unfold pre; cbn [est app lexk step continue]. unfold start; rewrite Hc. cbn [flush app].
    rewrite run_low by assumption. cbn [rev]. reflexivity.
  - (* TUpper *)
    destruct s as [|c s']; [discriminate|].
    apply andb_true_iff in Hv; destruct Hv as [Hc Hs]; apply cclass_eqb_eq in Hc.
    unfold pre; cbn [est]. rewrite <- app_assoc.
    cbn [app lexk step continue]. unfold start; rewrite Hc. cbn [flush app].
    rewrite run_letters by assumption. rewrite run_bangs. cbn [rev].
    rewrite PeanoNat.Nat.add_0_r. reflexivity.
  - (* TGlyph *)
    unfold is_glyphc in Hv. unfold pre; cbn [est app lexk step continue]. unfold start.
    destruct (cls g); try discriminate; reflexivity.
  - (* TEq *) reflexivity.
  - (* TNum *)
    apply andb_true_iff in Hv; destruct Hv as [Hne Hall].
    destruct (nonempty_cons _ _ Hne) as (c & s' & ->).
    cbn in Hall; apply andb_true_iff in Hall; destruct Hall as [Hc Hs]; apply cclass_eqb_eq in Hc.
    unfold pre; cbn [est]. destruct neg.
    + cbn [app lexk step continue]. unfold start at 1; rewrite cls175. cbn [flush app].
      cbn [step continue]. rewrite Hc. cbn [app]. rewrite run_digits by assumption.
      cbn [rev]. reflexivity.
    + cbn [app lexk step continue]. unfold start; rewrite Hc. cbn [flush app].
      rewrite run_digits by assumption. cbn [rev]. reflexivity.
  - (* TSub *)
    apply andb_true_iff in Hv; destruct Hv as [Hne Hall].
    destruct (nonempty_cons _ _ Hne) as (c & s' & ->).
    cbn in Hall; apply andb_true_iff in Hall; destruct Hall as [Hc Hs]; apply cclass_eqb_eq in Hc.
    unfold pre; cbn [est app lexk step continue]. unfold start; rewrite Hc. cbn [flush app].
    rewrite run_subd by assumption. cbn [rev]. reflexivity.
  - (* TStrand *) reflexivity.
  - (* TOpen *)
    apply cclass_eqb_eq in Hv. unfold pre; cbn [est app lexk step continue]. unfold start; rewrite Hv. reflexivity.
  - (* TClose *)
    apply cclass_eqb_eq in Hv. unfold pre; cbn [est app lexk step continue]. unfold start; rewrite Hv. reflexivity.
  - (* TStr *)
    unfold pre; cbn [est]. change (34 :: body ++ [34]) with ([34] ++ body ++ [34]).
    rewrite <- !app_assoc. cbn [app lexk step continue]. unfold start; rewrite cls34. cbn [flush app].
    rewrite run_str by assumption. cbn [app lexk step]. rewrite cls34. cbn [cclass_eqb app].
    rewrite app_nil_r, rev_involutive. reflexivity.
  - (* TChr *) reflexivity.
Qed.

Lemma est_not_str : forall t a, est t <> SStr a.
Proof. intros t a; destruct t; cbn; try discriminate. destruct (cls g); discriminate. Qed.
Lemma est_not_at : forall t, est t <> SAt.
Proof. intros t; destruct t; cbn; try discriminate. destruct (cls g); discriminate. Qed.

Lemma boundary : forall s c r, continue s c = None ->
  (forall a, s <> SStr a) -> s <> SAt -> lexk s (c :: r) = flush s ++ lexk S0 (c :: r).
Proof.
  intros s c r H H1 H2.
  assert (E : step s c = (flush s ++ fst (start c), snd (start c))).
  { destruct s; cbn [step]; try rewrite H; try (destruct (start c); reflexivity).
    - exfalso; eapply H1; reflexivity.
    - exfalso; apply H2; reflexivity. }
  cbn [lexk]. rewrite E. cbn [step continue flush app]. destruct (start c) as [e s']. cbn [fst snd].
  rewrite <- app_assoc. reflexivity.
Qed.

Lemma flush_est : forall t, lexvalid t -> pre t ++ flush (est t) = [t].
Proof.
  intros t [H | ->]; [| reflexivity].
  unfold normal_tok in H; apply andb_true_iff in H; destruct H as [Hv Hn].
  destruct t; try discriminate; unfold pre; cbn [est flush app]; rewrite ?rev_involutive; try reflexivity.
  destruct (cls g); reflexivity.
Qed.

(* ---------------------------------------------------------------- a line *)

Fixpoint lexgood (p : token) (us : list token) : Prop :=
  match us with
  | [] => True
  | u :: r => lexvalid u /\ sep_ok p u = true /\ lexgood u r
  end.

Lemma lex_chain : forall us p, lexgood p us -> lexk (est p) (print us) = flush (est p) ++ us.
Proof.
  induction us as [|u r IH]; intros p H.
  - cbn. rewrite app_nil_r. reflexivity.
  - destruct H as (Hu & Hs & Hr). unfold print; cbn [flat_map]. fold (print r).
    unfold sep_ok, first_char in Hs. destruct (text u) as [|c tl] eqn:Et; [discriminate|].
    cbn [hd_error] in Hs. destruct (continue (est p) c) eqn:Ec; [discriminate|].
    cbn [app]. rewrite boundary; auto using est_not_str, est_not_at.
    change (c :: tl ++ print r) with ((c :: tl) ++ print r). rewrite <- Et.
    rewrite tok_run by assumption. rewrite IH by assumption.
    rewrite (app_assoc (pre u)). rewrite flush_est by assumption. reflexivity.
Qed.

Theorem lex_print_good : forall t us, lexvalid t -> lexgood t us -> lex (print (t :: us)) = t :: us.
Proof.
  intros t us Ht H. unfold lex, print; cbn [flat_map]. fold (print us).
  rewrite tok_run by assumption. rewrite lex_chain by assumption.
  rewrite app_assoc, flush_est by assumption. reflexivity.
Qed.

(* ---------------------------------------------------------------- formatted lines are lexed back *)

Lemma normal_not_space : forall m, normal_tok (TSpace m) = false.
Proof. intro m; unfold normal_tok; cbn. reflexivity. Qed.

Lemma sep_space_after : forall p, normal_tok p = true -> sep_ok p (TSpace false) = true.
Proof.
  intros p H. unfold sep_ok, first_char; cbn [text hd_error].
  destruct p; cbn [est]; try (rewrite normal_not_space in H; discriminate);
    try (destruct (cls g)); unfold continue; rewrite ?cls32; try reflexivity.
  destruct bangs; reflexivity.
Qed.

Lemma first_cls : forall t, normal_tok t = true -> exists c, first_char t = Some c /\ cls c <> CSp.
Proof.
  intros t H. unfold normal_tok in H; apply andb_true_iff in H; destruct H as [Hv Hn].
  destruct t; try discriminate; unfold first_char; cbn [text valid_tok] in *.
  - apply andb_true_iff in Hv; destruct Hv as [Hne Hall].
    destruct (nonempty_cons _ _ Hne) as (c & s' & ->). cbn in Hall; apply andb_true_iff in Hall.
    destruct Hall as [Hc _]; apply cclass_eqb_eq in Hc. exists c; split; [reflexivity | rewrite Hc; discriminate].
  - destruct s as [|c s']; [discriminate|]. apply andb_true_iff in Hv; destruct Hv as [Hc _].
    apply cclass_eqb_eq in Hc. exists c; split; [reflexivity | rewrite Hc; discriminate].
  - exists g; split; [reflexivity|]. unfold is_glyphc in Hv. destruct (cls g); try discriminate.
  - exists 61; split; [reflexivity | rewrite cls61; discriminate].
  - apply andb_true_iff in Hv; destruct Hv as [Hne Hall].
    destruct (nonempty_cons _ _ Hne) as (c & s' & ->). cbn in Hall; apply andb_true_iff in Hall.
    destruct Hall as [Hc _]; apply cclass_eqb_eq in Hc. destruct neg.
    + exists 175; split; [reflexivity | rewrite cls175; discriminate].
    + exists c; split; [reflexivity | rewrite Hc; discriminate].
  - apply andb_true_iff in Hv; destruct Hv as [Hne Hall].
    destruct (nonempty_cons _ _ Hne) as (c & s' & ->). cbn in Hall; apply andb_true_iff in Hall.
    destruct Hall as [Hc _]; apply cclass_eqb_eq in Hc. exists c; split; [reflexivity | rewrite Hc; discriminate].
  - exists 95; split; [reflexivity | rewrite cls95; discriminate].
  - apply cclass_eqb_eq in Hv. exists k; split; [reflexivity | rewrite Hv; discriminate].
  - apply cclass_eqb_eq in Hv. exists k; split; [reflexivity | rewrite Hv; discriminate].
  - exists 34; split; [reflexivity | rewrite cls34; discriminate].
  - exists 64; split; [reflexivity | rewrite cls64; discriminate].
Qed.

Lemma sep_space_before : forall t, normal_tok t = true -> sep_ok (TSpace false) t = true.
Proof.
  intros t H. destruct (first_cls t H) as (c & Hc & Hn). unfold sep_ok; rewrite Hc; cbn [est].
  unfold continue. destruct (cls c); try reflexivity. exfalso; apply Hn; reflexivity.
Qed.

Lemma stable_lexgood : forall n us p, (length us <= n)%nat -> normal_tok p = true ->
  stable_from p us = true -> lexgood p us.
Proof.
  induction n as [|n IH]; intros us p Hl Hp H.
  - destruct us; [exact I | cbn in Hl; lia].
  - destruct us as [|u r]; [exact I|].
    destruct u; cbn [stable_from] in H;
      try (apply andb_true_iff in H; destruct H as [H Hr]; apply andb_true_iff in H; destruct H as [Hu Ha];
           unfold adj_stable in Ha; apply andb_true_iff in Ha; destruct Ha as [Ha _];
           cbn [lexgood]; split; [left; exact Hu | split; [exact Ha | apply IH; [cbn in Hl; lia | exact Hu | exact Hr]]]).
    (* a space *)
    destruct multi; [discriminate|]. destruct r as [|t r]; [discriminate|].
    apply andb_true_iff in H; destruct H as [H Hr]; apply andb_true_iff in H; destruct H as [Ht Hs].
    cbn [lexgood]. split; [right; reflexivity|]. split; [apply sep_space_after; exact Hp|].
    split; [left; exact Ht|]. split; [apply sep_space_before; exact Ht|].
    apply IH; [cbn in Hl; lia | exact Ht | exact Hr].
Qed.

(** formatted lines are read back word for word *)
Theorem lex_print_stable : forall us, stable us = true -> lex (print us) = us.
Proof.
  intros [|t r] H; [reflexivity|].
  cbn [stable] in H; apply andb_true_iff in H; destruct H as [Ht Hr].
  apply lex_print_good; [left; exact Ht|]. eapply stable_lexgood; eauto.
Qed.

(* ---------------------------------------------------------------- formatted lines are fixed points *)

Lemma emit_normal : forall t, normal_tok t = true -> emit t = [t].
Proof.
  intros t H; unfold normal_tok in H; apply andb_true_iff in H; destruct H as [_ H].
  destruct t; try discriminate; reflexivity.
Qed.

Lemma norm_go_stable : forall n us acc p, (length us <= n)%nat -> normal_tok p = true ->
  stable_from p us = true -> norm_go acc (Some p) None us = rev acc ++ us.
Proof.
  induction n as [|n IH]; intros us acc p Hl Hp H.
  - destruct us; [cbn; rewrite app_nil_r; reflexivity | cbn in Hl; lia].
  - destruct us as [|u r]; [cbn; rewrite app_nil_r; reflexivity|].
    destruct u; cbn [stable_from] in H;
      try (apply andb_true_iff in H; destruct H as [H Hr]; apply andb_true_iff in H; destruct H as [Hu Ha];
           unfold adj_stable in Ha; apply andb_true_iff in Ha; destruct Ha as [_ Ha]; apply negb_true_iff in Ha;
           cbn [norm_go]; rewrite Ha; rewrite (emit_normal _ Hu); cbn [rev app];
           rewrite IH; [cbn [rev]; rewrite <- app_assoc; reflexivity | cbn in Hl; lia | exact Hu | exact Hr]).
    destruct multi; [discriminate|]. destruct r as [|t r]; [discriminate|].
    apply andb_true_iff in H; destruct H as [H Hr]; apply andb_true_iff in H; destruct H as [Ht Hs].
    unfold spaced_stable in Hs.
    destruct t; try (rewrite normal_not_space in Ht; discriminate);
      cbn [norm_go]; rewrite Hs; rewrite (emit_normal _ Ht); cbn [rev app];
      (rewrite IH; [cbn [rev]; rewrite <- !app_assoc; reflexivity | cbn in Hl; lia | exact Ht | exact Hr]).
Qed.

Theorem norm_stable : forall us, stable us = true -> norm us = us.
Proof.
  intros [|t r] H; [reflexivity|].
  cbn [stable] in H; apply andb_true_iff in H; destruct H as [Ht Hr].
  unfold norm. destruct t; try (rewrite normal_not_space in Ht; discriminate);
    cbn [norm_go]; rewrite (emit_normal _ Ht); cbn [rev app];
    (erewrite norm_go_stable; [reflexivity | apply le_n | exact Ht | exact Hr]).
Qed.

(* ---------------------------------------------------------------- relex / idempotence, given a stable result *)

Theorem relex_render_of_stable : forall ts, stable (norm ts) = true -> lex (render ts) = norm ts.
Proof. intros ts H. unfold render. apply lex_print_stable; exact H. Qed.

Theorem render_idempotent_of_stable : forall ts, stable (norm ts) = true ->
  render (lex (render ts)) = render ts.
Proof.
  intros ts H. rewrite relex_render_of_stable by exact H.
  unfold render. rewrite norm_stable by exact H. reflexivity.
Qed.
