(** C16 — the refinement theorem with the growth lemma discharged *)
From Coq Require Import List Arith NArith ZArith Bool.
From UV Require Import Model.Map Proofs.MapBase Proofs.MapProbe Proofs.Map Proofs.MapGrow.
Import ListNotations.

Theorem map_refines_alist :
  forall (key val : Type) (keq : key -> key -> bool) (nanlike : key -> bool) (hash : key -> N) (he ht : N),
    (forall k, keq k k = true) ->
    (forall a b, keq a b = keq b a) ->
    (forall a b c, keq a b = true -> keq b c = true -> keq a c = true) ->
    (forall a b, keq a b = true -> hash a = hash b) ->
    forall ops : list (op key val), forallb (proved_op key val) ops = true ->
      let c := run key val keq nanlike true hash he ht (empty_map key val) ops in
      let s := srun key val keq [] ops in
      snd c = snd s /\ abs key val (fst c) = lift key val (fst s) /\
      length (snd (fst c)) = length (fst s) /\ len (fst (fst c)) = length (fst s).
Proof.
  intros key val keq nanlike hash he ht Hrefl Hsym Htrans Hhash.
  apply refines_with_grow; auto. apply grow_ok_proved. exact Hsym.
Qed.

(** the invariant itself holds after every such history (so does every prefix of it) *)
Theorem map_inv_run :
  forall (key val : Type) (keq : key -> key -> bool) (nanlike : key -> bool) (hash : key -> N) (he ht : N),
    (forall k, keq k k = true) ->
    (forall a b, keq a b = keq b a) ->
    (forall a b c, keq a b = true -> keq b c = true -> keq a c = true) ->
    (forall a b, keq a b = true -> hash a = hash b) ->
    forall ops : list (op key val), forallb (proved_op key val) ops = true ->
      R key val keq hash (fst (run key val keq nanlike true hash he ht (empty_map key val) ops))
        (fst (srun key val keq [] ops)).
Proof.
  intros key val keq nanlike hash he ht Hrefl Hsym Htrans Hhash ops Hall.
  apply (run_sim key val keq nanlike hash he ht Hrefl Hsym Htrans Hhash
           (grow_ok_proved key keq hash he ht Hsym) ops); auto.
  apply R_init.
Qed.

(** present_indices (map.rs l.726-733, the first step of MapKeys::reverse / rotate / take / drop)
    after every such history: the table positions of the present keys, in row order *)
Theorem present_indices_run :
  forall (key val : Type) (keq : key -> key -> bool) (nanlike : key -> bool) (hash : key -> N) (he ht : N),
    (forall k, keq k k = true) ->
    (forall a b, keq a b = keq b a) ->
    (forall a b c, keq a b = true -> keq b c = true -> keq a c = true) ->
    (forall a b, keq a b = true -> hash a = hash b) ->
    forall ops : list (op key val), forallb (proved_op key val) ops = true ->
      let v := fst (run key val keq nanlike true hash he ht (empty_map key val) ops) in
      let a := fst (srun key val keq [] ops) in
      length (present_indices key (fst v)) = length a /\
      forall i k x, nth_error a i = Some (k, x) ->
        exists p, nth_error (present_indices key (fst v)) i = Some p /\
          cellat key (fst v) p = Key k /\ nth p (idx (fst v)) 0 = i.
Proof.
  intros key val keq nanlike hash he ht Hrefl Hsym Htrans Hhash ops Hall v a.
  apply (present_indices_R key val keq hash v a).
  apply (map_inv_run key val keq nanlike hash he ht Hrefl Hsym Htrans Hhash ops Hall).
Qed.
