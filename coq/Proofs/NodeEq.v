(** C10 (V tie): soundness of the structural comparison of compiled trees. *)
From Coq Require Import List ZArith NArith Bool Lia.
From UV Require Import Model.Node Model.Sig Model.Exec Model.NodeEq.
Import ListNotations.

Lemma sig_eqb_sound : forall a b, sig_eqb a b = true -> a = b.
Proof.
  intros [a1 a2 a3 a4] [b1 b2 b3 b4]; unfold sig_eqb; cbn [sa so sua suo]; intro H.
  repeat (apply andb_true_iff in H; destruct H as [H ?]).
  repeat match goal with E : Nat.eqb _ _ = true |- _ => apply Nat.eqb_eq in E end.
  subst; reflexivity.
Qed.

Lemma osig_eqb_sound : forall a b, osig_eqb a b = true -> a = b.
Proof.
  intros [a|] [b|]; cbn; intro H; try discriminate; try reflexivity.
  apply sig_eqb_sound in H; subst; reflexivity.
Qed.

Lemma sval_eqb_sound : forall a b, sval_eqb a b = true -> a = b.
Proof.
  intros [x|x] [y|y]; cbn; intro H; try discriminate.
  - apply Z.eqb_eq in H; subst; reflexivity.
  - apply N.eqb_eq in H; subst; reflexivity.
Qed.

Lemma modk_eqb_sound : forall a b, modk_eqb a b = true -> a = b.
Proof.
  intros a b; destruct a; destruct b; cbn; intro H; try discriminate; try reflexivity;
    try (apply Nat.eqb_eq in H; subst; reflexivity).
  - apply andb_true_iff in H; destruct H as [H1 H2].
    apply Nat.eqb_eq in H1; apply Nat.eqb_eq in H2; subst; reflexivity.
  - apply andb_true_iff in H; destruct H as [H1 H2].
    apply Nat.eqb_eq in H1; apply Nat.eqb_eq in H2; subst; reflexivity.
  - apply andb_true_iff in H; destruct H as [H1 H2].
    apply N.eqb_eq in H1; apply osig_eqb_sound in H2; subst; reflexivity.
Qed.

Ltac split_ands :=
  repeat match goal with
  | H : _ && _ = true |- _ => apply andb_true_iff in H; destruct H
  end.

Ltac eqs :=
  repeat match goal with
  | H : Nat.eqb _ _ = true |- _ => apply Nat.eqb_eq in H
  | H : N.eqb _ _ = true |- _ => apply N.eqb_eq in H
  | H : Bool.eqb _ _ = true |- _ => apply eqb_prop in H
  | H : sig_eqb _ _ = true |- _ => apply sig_eqb_sound in H
  | H : osig_eqb _ _ = true |- _ => apply osig_eqb_sound in H
  | H : sval_eqb _ _ = true |- _ => apply sval_eqb_sound in H
  | H : modk_eqb _ _ = true |- _ => apply modk_eqb_sound in H
  end.

(** the comparison is sound: equal exported trees are the same tree *)
Theorem node_eqb_sound : forall a b, node_eqb a b = true -> a = b.
Proof.
  induction a using node_ind'; intros b0 E; destruct b0; cbn in E; try discriminate;
    split_ands; eqs; subst; try reflexivity.
  - (* Run *)
    f_equal. revert ns0 E. induction H as [|x l Hx Hl IH]; intros [|y m] E; try discriminate; try reflexivity.
    split_ands. f_equal; [apply Hx; assumption | apply IH; assumption].
  - (* Mod *)
    f_equal. revert args0 H1.
    induction H as [|[s x] l Hx Hl IH]; intros [|[t y] m] E; try discriminate; try reflexivity.
    split_ands; eqs; subst. cbn in Hx. f_equal; [f_equal; apply Hx; assumption | apply IH; assumption].
  - (* Arr *)
    f_equal. apply IHa; assumption.
  - (* Switch *)
    f_equal. revert brs0 H0.
    induction H as [|[sx x] l Hx Hl IH]; intros [|[t y] m] E; try discriminate; try reflexivity.
    split_ands; eqs; subst. cbn in Hx. f_equal; [f_equal; apply Hx; assumption | apply IH; assumption].
  - f_equal; apply IHa; assumption.
  - f_equal; apply IHa; assumption.
  - f_equal; apply IHa; assumption.
Qed.

Lemma nodes_eqb_sound : forall l m, nodes_eqb l m = true -> l = m.
Proof.
  induction l as [|x l IH]; intros [|y m] E; cbn in E; try discriminate; try reflexivity.
  split_ands. f_equal; [apply node_eqb_sound; assumption | apply IH; assumption].
Qed.

Lemma node_eqb_refl : forall a, node_eqb a a = true.
Proof.
  assert (Hs : forall s, sig_eqb s s = true).
  { intros [a b c d]; unfold sig_eqb; cbn [sa so sua suo]; rewrite !Nat.eqb_refl; reflexivity. }
  assert (Ho : forall s, osig_eqb s s = true) by (intros [s|]; cbn; auto).
  assert (Hm : forall m, modk_eqb m m = true).
  { intros m; destruct m; cbn; rewrite ?Nat.eqb_refl, ?N.eqb_refl, ?Ho; reflexivity. }
  induction a using node_ind'; cbn;
    rewrite ?Nat.eqb_refl, ?N.eqb_refl, ?Hs, ?Ho, ?Hm, ?eqb_reflx; cbn; try reflexivity; try assumption.
  - destruct v; cbn; [apply Z.eqb_refl | apply N.eqb_refl].
  - induction H as [|x l Hx Hl IH]; [reflexivity | rewrite Hx; exact IH].
  - induction H as [|[s x] l Hx Hl IH]; [reflexivity | cbn in Hx; rewrite Hs, Hx; exact IH].
  - rewrite IHa; reflexivity.
  - rewrite andb_true_r. induction H as [|[sx x] l Hx Hl IH]; [reflexivity | cbn in Hx; rewrite Hs, Hx; exact IH].
Qed.

(** equal exported programs behave alike on ALL run-time states, for every interpretation of the
    primitives, every fuel: the two executions are the same computation *)
Theorem prog_eqb_sound : forall (p q : prog), prog_eqb p q = true ->
  forall pknown psem arrsem unpacksem fmtsem fuel s,
    exec pknown psem arrsem unpacksem fmtsem (snd p) fuel (fst p) s =
    exec pknown psem arrsem unpacksem fmtsem (snd q) fuel (fst q) s.
Proof.
  intros [ra fa] [rb fb] E; unfold prog_eqb in E; cbn [fst snd] in *.
  apply andb_true_iff in E; destruct E as [E1 E2].
  apply node_eqb_sound in E1; apply nodes_eqb_sound in E2; subst; reflexivity.
Qed.
