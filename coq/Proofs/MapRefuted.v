(** C16 — histories on which the faithful model of the CURRENT code departs from the
    association list (each confirmed on the implementation by harness/src/bin/c16.rs),
    evaluated with the real hashes of the keys involved (low 63 bits of DefaultHasher). *)
From Coq Require Import List Arith NArith ZArith Bool.
From UV Require Import Model.Map.
Import ListNotations.
Import NInst.

(** number keys 0..3 and NaN (coded 999), placeholders EMPTY_NAN / TOMBSTONE_NAN *)
Definition real_tbl : list (N * N) :=
  [(0, 1748808729412576414); (1, 583418475314495168); (2, 5678932554625264879);
   (3, 9110319541411285617); (999, 3460169562480226753)]%N.
Definition real_hash : N -> N := assoc_hash real_tbl.
Definition real_he : N := 210751463537172823%N.
Definition real_ht : N := 2088776636592848410%N.
Definition is_nan (k : N) : bool := N.eqb k 999%N.
Definition no_nan (k : N) : bool := false.

Definition agrees (nan : N -> bool) (ops : list (@op N N)) : bool := spec_agrees nan real_hash real_he real_ht ops.

(** (a) `get NaN map [1 2 3] [4 5 6]` finds 4: NaN matches the placeholder cells *)
Lemma nan_key_refuted : exists ops, agrees is_nan ops = false.
Proof. exists [OIns 1 4; OIns 2 5; OIns 3 6; OGet 999]%N. vm_compute. reflexivity. Qed.
(** the same history without the comparison-before-placeholder-test is fine: the premise
    [nanlike k = false] of the refinement theorem is what the NaN key violates *)
Lemma nan_history_ok_without_nan : agrees no_nan [OIns 1 4; OIns 2 5; OIns 3 6; OGet 999]%N = true.
Proof. vm_compute. reflexivity. Qed.
(** insert NaN gives 4 keys for 3 rows *)
Lemma nan_insert_refuted :
  let v := fst (run N N N.eqb is_nan real_hash real_he real_ht (empty_map N N)
                    [OIns 1 4; OIns 2 5; OIns 3 6; OIns 999 7]%N) in
  len (fst v) = 4 /\ length (snd v) = 3.
Proof. vm_compute. split; reflexivity. Qed.

(** (b) `°map ↘1 map [3] [4]`: keys survive a drop of every row *)
Lemma drop_all_refuted : exists ops, agrees no_nan ops = false.
Proof. exists [OIns 3 4; ODrop 1; OUnmap]%N. vm_compute. reflexivity. Qed.

(** (c) `⊂ map [1 2 3] [4 5 6] map [1 2] [7 8]`: two keys end up on one row *)
Lemma join_overlap_refuted : exists ops, agrees no_nan ops = false.
Proof. exists [OIns 1 4; OIns 2 5; OIns 3 6; OJoin [(1, 7); (2, 8)]; OUnmap]%N. vm_compute. reflexivity. Qed.

(** (d) `map [1 2 2 1] [10 20 30 40]`: two keys end up on one row *)
Lemma map_dup_keys_refuted : exists l,
  abs N N (v_map N N N.eqb real_hash real_he real_ht l) <> lift N N (a_map N N N.eqb l).
Proof. exists [(1, 10); (2, 20); (2, 30); (1, 40)]%N. vm_compute. discriminate. Qed.

(** a history with re-insertion after removal, colliding keys and growth on which model and spec agree *)
Lemma agrees_example :
  agrees no_nan [OIns 1 4; OIns 2 5; OIns 3 6; ORem 2; OIns 0 9; OIns 2 8; OGet 2; OHas 3; ORem 1; OLen;
                 OIns 1 1; OUnmap; ORev; ORot 1%Z; OTake 3; ODrop 1; OJoin [(3, 7)]; OUnmap]%N = true.
Proof. vm_compute. reflexivity. Qed.
