(** C17 proofs: the marks a value gets when it is read are exactly the truthful ones. *)
From Coq Require Import List NArith Bool.
From UV Require Import Model.UasmValue.
Import ListNotations.

Lemma scan_marks_spec : forall cs up down,
  scan_marks up down cs = (up && fst (truthful_marks cs), down && snd (truthful_marks cs)).
Proof.
  induction cs as [|c cs IH]; intros up down.
  - cbn. rewrite !andb_true_r. reflexivity.
  - cbn [scan_marks]. destruct up, down; cbn [negb andb].
    + destruct c; rewrite IH; cbn; reflexivity.
    + destruct c; rewrite IH; cbn; reflexivity.
    + destruct c; rewrite IH; cbn; reflexivity.
    + reflexivity.
Qed.

(** the early exit of the scan loses nothing *)
Theorem recompute_marks_truthful : forall cs, recompute_marks cs = truthful_marks cs.
Proof. intros cs. unfold recompute_marks. rewrite scan_marks_spec. destruct (truthful_marks cs); reflexivity. Qed.

(** a scan that stops as soon as ONE direction is ruled out (seeded mutation
    C17_reread_marks_unsorted_sorted) is not truthful: rows 1 3 2 would be marked sorted up *)
Fixpoint scan_marks_or (up down : bool) (cs : list comparison) : bool * bool :=
  match cs with
  | [] => (up, down)
  | c :: t => if negb up || negb down then (up, down)
              else match c with
                   | Eq => scan_marks_or up down t
                   | Lt => scan_marks_or up false t
                   | Gt => scan_marks_or false down t
                   end
  end.
Example early_or_exit_not_truthful : scan_marks_or true true [Lt; Gt] = (true, false) /\ truthful_marks [Lt; Gt] = (false, false).
Proof. split; reflexivity. Qed.
