(** C07 — the specialised kernels against the definitions. *)
From Coq Require Import List ZArith NArith Bool Arith Lia.
From UV Require Import Model.Prims Model.Kernels Proofs.Prims.
Import ListNotations.

(* ================================================================== refutations (faithful kernels) *)

(** `≡/↥ [1 2 3]` before commit 73cdc70: the sorted-list shortcut ignored the depth *)
Theorem reduce_minmax_shortcut_refuted_pre :
  exists x, wf x /\ ash x = [3%nat] /\
    k_reduce_minmax true true PMax 1 x <> rows_iter 1 (sem (FReduce PMax)) x.
Proof. exists (Arr TNum [3%nat] [ENum 1; ENum 2; ENum 3]). repeat split; vm_compute; congruence. Qed.

(** inventory of a purely pervasive operand is not an inventory at all: nothing is boxed *)
Theorem inventory_pervasive_refuted :
  exists f x, wf x /\ ash x = [2%nat] /\
    exec_inventory f x <> inventory_def (sem f) x.
Proof. exists (FPerv PNeg), (Arr TNum [2%nat] [ENum 1; ENum 2]). repeat split; vm_compute; congruence. Qed.

(** generic reduce under rows, on rows that are scalars: a spurious length-1 axis *)
Theorem reduce_below_rank_refuted :
  exists x, wf x /\ ash x = [2%nat] /\
    exec_mfn (rowsk 2 (FReduce PMax)) x <> sem (rowsk 2 (FReduce PMax)) x.
Proof. exists (Arr TChar [2%nat] [EChar 97; EChar 98]). repeat split; vm_compute; congruence. Qed.

(** composed kernels at equal depth, rows of rank below the nesting depth *)
Theorem compose_below_rank_refuted :
  exists f x, wf x /\ ash x = [2%nat] /\ fast_fn f <> None /\
    exec_mfn (rowsk 2 f) x <> sem (rowsk 2 f) x.
Proof. exists (FSeq FFix FFirst), (Arr TNum [2%nat] [ENum 1; ENum 2]). repeat split; vm_compute; congruence. Qed.

(** first at depth >= 1 fails on empty rows even when there is no row to take the first of *)
Theorem first_depth_empty_refuted :
  exists x, wf x /\ exec_mfn (rowsk 1 FFirst) x = Err /\
    exists y, sem (rowsk 1 FFirst) x = Ok y /\ ash y = [0%nat].
Proof. exists (Arr TNum [0%nat; 0%nat] []). repeat split; try (vm_compute; reflexivity). eexists; split; vm_compute; reflexivity. Qed.

(** box at depth 2 over empty rows: as many boxes as the FIRST axis is long, not one per cell *)
Theorem box_depth_empty_rows_refuted :
  exists x y, wf x /\ first_zero (firstn 2 (ash x)) = None /\
    exec_mfn (rowsk 2 FBox) x = Ok y /\ ~ wf y /\ sem (rowsk 2 FBox) x <> Ok y.
Proof.
  exists (Arr TNum [2%nat; 3%nat; 0%nat] []). eexists. split; [vm_compute; reflexivity|].
  split; [vm_compute; reflexivity|]. split; [vm_compute; reflexivity|].
  split; vm_compute; congruence.
Qed.
