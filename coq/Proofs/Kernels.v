(** C07 — the specialised kernels against the definitions. *)
From Coq Require Import List ZArith NArith Bool Arith Lia.
From UV Require Import Model.Prims Model.Kernels Proofs.Prims Proofs.KernelsBase Proofs.KernelsAtoms.
Import ListNotations.

(* ================================================================== refutations (faithful kernels) *)

(** `≡/↥ [1 2 3]` before commit 73cdc70: the sorted-list shortcut ignored the depth *)
Theorem reduce_minmax_shortcut_refuted_pre :
  exists x, wf x /\ ash x = [3%nat] /\
    k_reduce_minmax true true PMax 1 x <> rows_iter 1 (sem (FReduce PMax)) x.
Proof. exists (Arr TNum [3%nat] [ENum 1; ENum 2; ENum 3]). repeat split; vm_compute; congruence. Qed.

(** before commit f64950a: inventory of a purely pervasive operand was no inventory at all,
    nothing was boxed (`⍚¯ [1 2]` gave [¯1 ¯2]) *)
Theorem inventory_pervasive_refuted_pre :
  exists f x, wf x /\ ash x = [2%nat] /\
    exec_inventory true f x <> inventory_def (sem f) x.
Proof. exists (FPerv PNeg), (Arr TNum [2%nat] [ENum 1; ENum 2]). repeat split; vm_compute; congruence. Qed.

(** before commit 68a793c: generic reduce under rows, on rows that are scalars, left a spurious
    length-1 axis (`≡≡/↥ "ab"` had shape 2x1) *)
Theorem reduce_below_rank_refuted_pre :
  exists x, wf x /\ ash x = [2%nat] /\
    k_reduce_gen true (red2 PMax) (red_ident PMax) 2 x <> sem (rowsk 2 (FReduce PMax)) x.
Proof. exists (Arr TChar [2%nat] [EChar 97; EChar 98]). repeat split; vm_compute; congruence. Qed.

(** before commit 68a793c: composed kernels ran at the nesting depth even when the rows' rank
    was below it (`≡≡(⊢¤) [1 2]` had shape 2x1): rows1 called the kernels at depth d + 1 uncapped *)
Theorem compose_below_rank_refuted_pre :
  exists f ks x, wf x /\ ash x = [2%nat] /\ fast_fn f = Some (ks, 0) /\
    run_kernels ks 2 x <> sem (rowsk 2 f) x.
Proof. exists (FSeq FFix FFirst), [KFix; KFirst], (Arr TNum [2%nat] [ENum 1; ENum 2]). repeat split; vm_compute; congruence. Qed.

(** before commit 09b3e8b: first at depth >= 1 failed on empty rows even when there was no row to
    take the first of (`≡⊢ ↯0_0 0`) *)
Theorem first_depth_empty_refuted_pre :
  exists x, wf x /\ k_first true 1 x = Err /\
    exists y, sem (rowsk 1 FFirst) x = Ok y /\ ash y = [0%nat].
Proof. exists (Arr TNum [0%nat; 0%nat] []). repeat split; try (vm_compute; reflexivity). eexists; split; vm_compute; reflexivity. Qed.

(** before commit 3374592: box at depth 2 over empty rows made as many boxes as the FIRST axis is
    long, not one per cell (`≡≡□ ↯2_3_0 0`: shape 2x3 with 2 boxes) *)
Theorem box_depth_empty_rows_refuted_pre :
  exists x, wf x /\ first_zero (firstn 2 (ash x)) = None /\
    ~ wf (k_box true 2 x) /\ Ok (k_box true 2 x) <> sem (rowsk 2 FBox) x.
Proof.
  exists (Arr TNum [2%nat; 3%nat; 0%nat] []). split; [vm_compute; reflexivity|].
  split; [vm_compute; reflexivity|]. split; vm_compute; congruence.
Qed.

(* ================================================================== kernels under theorems *)

(** the catalogue atoms whose depth kernel is proved equal to the definition *)
Definition proved_atom (a : katom) : option mfn :=
  match a with
  | KId => Some FId | KRev => Some FRev | KFirst => Some FFirst | KLast => Some FLast
  | KDeshape => Some FDeshape | KFix => Some FFix | _ => None end.

Lemma id_bk d x : wf x -> Ok x = run_bk (bk_same (fun rs => rs)) d x.
Proof. intros W. rewrite run_bk_same; auto. rewrite firstn_skipn. destruct x; reflexivity. Qed.

(** kernel_eq_generic: on every well-formed array whose mapped axes are non-empty - of ANY rank,
    also below the nesting depth - the depth-d kernel computes d nested rows of the primitive *)
Theorem kernel_eq_generic : forall a f, proved_atom a = Some f ->
  forall d x, wf x -> lead_pos d (ash x) -> run_katom a d x = rows_iter d (sem f) x.
Proof.
  intros a f Ha d x W L.
  destruct a; cbn in Ha; inversion Ha; subst f; cbn [run_katom].
  - rewrite (id_bk d x W), run_bk_rows_iter by auto. apply rows_iter_ext; auto.
    intros y Wy. rewrite <- (id_bk 0 y Wy). reflexivity.
  - rewrite k_reverse_bk, run_bk_rows_iter by auto. apply rows_iter_ext; auto. apply rev_bk0.
  - rewrite k_first_bk, run_bk_rows_iter by auto. apply rows_iter_ext; auto. apply first_bk0.
  - rewrite k_last_bk, run_bk_rows_iter by auto. apply rows_iter_ext; auto. apply last_bk0.
  - rewrite k_deshape_bk, run_bk_rows_iter by auto. apply rows_iter_ext; auto. apply deshape_bk0.
  - rewrite k_fix_bk, run_bk_rows_iter by auto. apply rows_iter_ext; auto. apply fix_bk0.
Qed.

(** box: the current slicing (commit 3374592) is under the theorem unconditionally; the old one
    only where it did not hit the empty-rows quirk (box_depth_empty_rows_refuted_pre) *)
Theorem box_kernel_eq_fixed : forall d x, wf x -> lead_pos d (ash x) ->
  Ok (k_box_fixed d x) = rows_iter d (sem FBox) x.
Proof.
  intros d x W L. rewrite k_box_fixed_bk, run_bk_rows_iter by auto. apply rows_iter_ext; auto. apply box_bk0.
Qed.
Theorem box_kernel_eq : forall d x, wf x -> lead_pos d (ash x) ->
  run_katom KBox d x = rows_iter d (sem FBox) x.
Proof. intros d x W L. cbn [run_katom]. rewrite k_box_eq_fixed by auto. apply box_kernel_eq_fixed; auto. Qed.
Theorem box_kernel_eq_pre : forall d x, wf x -> lead_pos d (ash x) ->
  (prodn (skipn (dmin d x) (ash x)) <> 0 \/ dmin d x <= 1) ->
  Ok (k_box true d x) = rows_iter d (sem FBox) x.
Proof. intros d x W L H. rewrite k_box_pre_eq_fixed by auto. apply box_kernel_eq_fixed; auto. Qed.
(** the boxed result is a valid array again (C05) *)
Theorem box_kernel_wf : forall d x, wf x -> wf (k_box false d x).
Proof.
  intros d x W. rewrite k_box_eq_fixed by auto. unfold k_box_fixed, wf.
  destruct (dmin d x) eqn:E; [reflexivity|]. cbn [adata ash]. rewrite map_length, blocks_count. reflexivity.
Qed.

(** over an empty mapped axis: the shape-only kernels succeed and keep the mapped lengths *)
Theorem kernel_empty_lead : forall a, In a [KId; KRev; KDeshape; KFix; KFirst; KLast] ->
  forall d x i, wf x -> d <= length (ash x) -> first_zero (firstn d (ash x)) = Some i ->
  exists y, run_katom a d x = Ok y /\ firstn (S i) (ash y) = firstn (S i) (ash x).
Proof.
  intros a Ha d x i W Hd Hz. cbn in Ha.
  destruct Ha as [<-|[<-|[<-|[<-|[<-|[<-|[]]]]]]]; cbn [run_katom].
  - rewrite (id_bk d x W). apply run_bk_empty; auto.
  - rewrite k_reverse_bk by auto. apply run_bk_empty; auto.
  - rewrite k_deshape_bk by auto. apply run_bk_empty; auto.
  - rewrite k_fix_bk by auto. apply run_bk_empty; auto.
  - rewrite k_first_bk by auto. apply run_bk_empty; auto.
  - rewrite k_last_bk by auto. apply run_bk_empty; auto.
Qed.

(** `≡` increments the depth: fast-path selection for rows^k of a proved atom, and what rows1 runs *)
Theorem rows_increments_depth : forall k f ks d, fast_fn f = Some (ks, d) ->
  fast_fn (rowsk k f) = Some (ks, k + d).
Proof. induction k; intros; cbn [rowsk fast_fn Nat.add]; auto. rewrite (IHk f ks d); auto. Qed.

(** nesting rows deeper than the rank is nesting down to the rank (rows of a scalar are the
    scalar itself): the law behind the depth limit of commit 68a793c *)
Theorem rows_iter_cap F : forall d x, wf x ->
  rows_iter d F x = rows_iter (Nat.min d (length (ash x))) F x.
Proof.
  induction d; intros x W; [reflexivity|].
  destruct (ash x) as [|n s] eqn:E.
  - cbn [length]. rewrite Nat.min_0_r. cbn [rows_iter]. unfold rows_def. rewrite E.
    rewrite IHd by auto. rewrite E. cbn [length]. rewrite Nat.min_0_r. reflexivity.
  - cbn [length]. replace (Nat.min (S d) (S (length s))) with (S (Nat.min d (length s))) by lia.
    cbn [rows_iter]. apply rows_def_ext; [|congruence].
    intros r Hr. pose proof (rows_wf x n s W E) as Fa. rewrite Forall_forall in Fa.
    destruct (Fa r Hr) as (Wr & Er & _). rewrite IHd by auto. rewrite Er. reflexivity.
Qed.

Lemma sem_rowsk f : forall j y, sem (rowsk j f) y = rows_iter j (sem f) y.
Proof.
  induction j; intros y; cbn [rowsk rows_iter sem]; auto.
  unfold rows_def. destruct (ash y); auto. f_equal. erewrite mapM_ext_in; [reflexivity|]. intros; apply IHj.
Qed.

Theorem sem_rows_cap : forall f k x, wf x ->
  sem (rowsk k f) x = sem (rowsk (Nat.min k (length (ash x))) f) x.
Proof. intros. rewrite !sem_rowsk. apply rows_iter_cap; auto. Qed.

(** what the interpreter runs for rows^(k+1) of an operand with a fast path: its kernels at the
    nesting depth, limited to the rank *)
Theorem exec_rows_cap : forall f ks d0 k x, fast_fn f = Some (ks, d0) ->
  exec_mfn (rowsk (S k) f) x = run_kernels ks (Nat.min (S (k + d0)) (length (ash x))) x.
Proof. intros f ks d0 k x Hf. cbn [rowsk exec_mfn]. rewrite (rows_increments_depth k f ks d0 Hf). reflexivity. Qed.

(** end to end for a single catalogue atom under k rows, on arrays of ANY rank (also below the
    nesting depth): interpreter = definition *)
Theorem exec_rows_atom_eq : forall a f, proved_atom a = Some f -> atom_kernel false f = Some a ->
  forall k x, wf x -> lead_pos (S k) (ash x) ->
  exec_mfn (rowsk (S k) f) x = sem (rowsk (S k) f) x.
Proof.
  intros a f Ha Hk k x W L.
  assert (Hf : fast_fn f = Some ([a], 0)).
  { destruct f; cbn in Hk |- *; try discriminate; inversion Hk; subst; try reflexivity; destruct a; discriminate. }
  rewrite (exec_rows_cap f [a] 0 k x Hf). rewrite Nat.add_0_r.
  cbn [run_kernels]. change (Nat.min (S k) (length (ash x))) with (dmin (S k) x).
  rewrite (kernel_eq_generic a f Ha _ x W (lead_pos_dmin (S k) x L)).
  rewrite sem_rowsk, (rows_iter_cap (sem f) (S k) x W). unfold dmin.
  destruct (rows_iter (Nat.min (S k) (length (ash x))) (sem f) x); reflexivity.
Qed.

(** the former witnesses of the below-rank defects now agree with the definition *)
Example below_rank_witnesses_agree :
  exec_mfn (rowsk 2 (FReduce PMax)) (Arr TChar [2%nat] [EChar 97; EChar 98]) = sem (rowsk 2 (FReduce PMax)) (Arr TChar [2%nat] [EChar 97; EChar 98]) /\
  exec_mfn (rowsk 2 (FSeq FFix FFirst)) (Arr TNum [2%nat] [ENum 1; ENum 2]) = sem (rowsk 2 (FSeq FFix FFirst)) (Arr TNum [2%nat] [ENum 1; ENum 2]) /\
  exec_mfn (rowsk 3 (FSeq FFix FDeshape)) (Arr TNum [1%nat] [ENum 3]) = sem (rowsk 3 (FSeq FFix FDeshape)) (Arr TNum [1%nat] [ENum 3]) /\
  exec_mfn (rowsk 1 FFirst) (Arr TNum [0%nat; 0%nat] []) = Ok (Arr TNum [0%nat] []).
Proof. repeat split; vm_compute; reflexivity. Qed.

(** rows of a composition = composition of rows, when the intermediate results assemble and the
    argument has the mapped axis (for scalars see compose_below_rank_refuted) *)
Lemma rows_from_rows t s (rs : list arr) : Forall (fun r => wf r /\ ash r = s /\ aty r = t) rs ->
  rows (from_rows t s rs) = rs.
Proof.
  intros F. unfold from_rows, of_drows, rows. cbn [aty ash adata rowsh tl drows].
  rewrite chunk_concat.
  - rewrite map_map. apply map_id_in. intros r Hr. rewrite Forall_forall in F. destruct (F r Hr) as (_ & <- & <-). destruct r; reflexivity.
  - apply Forall_forall. intros d Hd. apply in_map_iff in Hd. destruct Hd as (r & <- & Hr).
    rewrite Forall_forall in F. destruct (F r Hr) as (Wr & <- & _). exact Wr.
Qed.

Theorem rows_rows_compose : forall (F G : arr -> res arr) x n s ys y0,
  ash x = n :: s -> mapM F (rows x) = Ok (y0 :: ys) ->
  Forall (fun r => wf r /\ ash r = ash y0 /\ aty r = aty y0) (y0 :: ys) ->
  rows_def (fun r => y <- F r ;; G y) x = (y <- rows_def F x ;; rows_def G y).
Proof.
  intros F G x n s ys y0 E HF Hall.
  assert (Hk : forallb (same_kind y0) ys = true).
  { inversion Hall as [|? ? _ Ht]; subst. clear -Ht. induction Ht as [|r l (_ & Hs & Hty) _ IH]; cbn; auto.
    rewrite IH, andb_true_r. unfold same_kind. rewrite Hs, Hty, ety_eqb_refl, list_eqb_refl_nat. reflexivity. }
  assert (Hm : forall l l', mapM F l = Ok l' -> mapM (fun r => y <- F r ;; G y) l = mapM G l').
  { induction l; intros l' H; cbn [mapM bind] in *.
    - inversion H; reflexivity.
    - destruct (F a); cbn [bind] in *; try discriminate. destruct (mapM F l) as [lr| |] eqn:El; cbn [bind] in H; try discriminate.
      inversion H; subst. cbn [mapM]. rewrite (IHl lr eq_refl). reflexivity. }
  unfold rows_def at 2. rewrite E, HF. cbn [bind assemble]. rewrite Hk. cbn [bind].
  unfold rows_def at 1. rewrite E, (Hm _ _ HF).
  unfold rows_def. rewrite rows_from_rows by auto. cbn [from_rows of_drows ash aty].
  destruct (mapM G (y0 :: ys)) as [l| |] eqn:EG; cbn [bind]; auto.
  apply mapM_length in EG. destruct l; [discriminate|]. reflexivity.
Qed.

(** the repaired min/max shortcut is never taken under rows: there the reduction is the depth kernel *)
Theorem reduce_minmax_shortcut_repaired : forall su o d x,
  k_reduce_minmax false su o (S d) x = k_reduce_num o (S d) x.
Proof. intros. unfold k_reduce_minmax. cbn [orb Nat.eqb andb]. destruct o; reflexivity. Qed.

(* ================================================================== inventory after commit f64950a *)

Lemma seq_sem_nonok l r : (forall a, r <> Ok a) ->
  fold_left (fun r f => y <- r ;; sem f y) l r = r.
Proof. revert r; induction l; intros r H; cbn [fold_left]; auto. destruct r; try (exfalso; eapply H; reflexivity); cbn [bind]; apply IHl; congruence. Qed.
Lemma seq_sem_app l1 l2 x : seq_sem (l1 ++ l2) x = (y <- seq_sem l1 x ;; seq_sem l2 y).
Proof.
  unfold seq_sem. rewrite fold_left_app.
  destruct (fold_left (fun r f => y <- r ;; sem f y) l1 (Ok x)) eqn:E; cbn [bind]; auto; apply seq_sem_nonok; congruence.
Qed.
Lemma seq_sem_flatten f x : seq_sem (flatten f) x = sem f x.
Proof.
  revert x; induction f; intros x; try reflexivity.
  cbn [flatten sem]. rewrite seq_sem_app, IHf1. destruct (sem f1 x); cbn [bind]; auto.
Qed.

Lemma split_perv_all l : forallb is_perv l = true -> split_perv l = ([], rev l).
Proof.
  induction l; intros H; cbn in *; auto. apply andb_true_iff in H. destruct H as [Ha Ht].
  rewrite Ha, (IHl Ht). reflexivity.
Qed.

Lemma in_boxes_inventory G x :
  (y <- inventory_def (fun a => Ok a) x ;; in_boxes G y) = inventory_def G x.
Proof.
  unfold inventory_def. destruct (ash x) as [|n s].
  - cbn [bind]. unfold in_boxes, p_box. cbn [aty adata mapM ash].
    destruct (unbox_row x) as [t sh d]. cbn [aty ash adata]. destruct (G (Arr t sh d)); reflexivity.
  - rewrite (mapM_ok_map unbox_row). cbn [bind]. unfold in_boxes. cbn [aty adata ash].
    rewrite !mapM_map.
    rewrite (mapM_ext_in _ (fun r => z <- (fun r => G (unbox_row r)) r ;; Ok (box_elem z))).
    2:{ intros r _. unfold box_elem. destruct (unbox_row r); reflexivity. }
    rewrite (mapM_wrap (fun r => G (unbox_row r)) box_elem).
    destruct (mapM (fun r => G (unbox_row r)) (rows x)) as [rs| |] eqn:E; cbn [bind]; auto.
    apply mapM_length in E. rewrite !map_length, E. reflexivity.
Qed.

Lemma inventory_def_ext F G x : (forall y, F y = G y) -> inventory_def F x = inventory_def G x.
Proof.
  intros H. unfold inventory_def. destruct (ash x); [rewrite H; reflexivity|].
  rewrite (mapM_ext_in _ (fun r => G (unbox_row r))); auto.
Qed.

(** the current compile-time split keeps inventory's boxing: for a purely pervasive operand the
    interpreter's inventory IS the definition (for every array, empty ones and scalars included) *)
Theorem inventory_pervasive_boxes : forall f x, forallb is_perv (rev (flatten f)) = true ->
  exec_inventory false f x = inventory_def (sem f) x.
Proof.
  intros f x H. unfold exec_inventory. rewrite (split_perv_all _ H), rev_involutive.
  change (seq_sem []) with (fun a : arr => Ok a). rewrite in_boxes_inventory.
  apply inventory_def_ext. intros; apply seq_sem_flatten.
Qed.
