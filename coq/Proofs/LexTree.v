(** C19 proofs, continued: the parser's span merging lifted to lists and trees of parts. *)
From Coq Require Import List NArith Bool Lia.
From UV Require Import Model.Lex Proofs.Lex.
Import ListNotations.
Open Scope N_scope.

(** containment on the segment index *)
Definition cle (p c : span) : Prop :=
  char_pos (fst p) <= char_pos (fst c) /\ char_pos (snd c) <= char_pos (snd p).

Lemma cle_trans a b c : cle a b -> cle b c -> cle a c.
Proof. unfold cle. lia. Qed.

Lemma merge_valid_cle i a b : fits32 i -> fits16 i -> valid_span i a -> valid_span i b ->
  valid_span i (merge a b) /\ cle (merge a b) a /\ cle (merge a b) b.
Proof.
  intros H32 H16 Va Vb. split; [apply merge_sound; assumption|].
  destruct Va as (As & Ae & Ac), Vb as (Bs & Be & Bc). unfold merge, cle. cbn [fst snd].
  destruct (loc_min_reach i (fst a) (fst b) H32 H16 As Bs) as [_ C1].
  destruct (loc_max_reach i (snd a) (snd b) H32 H16 Ae Be) as [_ C2].
  rewrite C1, C2. lia.
Qed.

Lemma merge_all_sound_cle i l : fits32 i -> fits16 i -> forall s, valid_span i s -> Forall (valid_span i) l ->
  valid_span i (merge_all s l) /\ cle (merge_all s l) s /\ Forall (cle (merge_all s l)) l.
Proof.
  intros H32 H16. induction l as [|x l IH]; intros s Vs Vl.
  - cbn. split; [assumption|]. split; [unfold cle; lia | constructor].
  - inversion Vl as [|? ? Vx Vl']; subst. unfold merge_all. cbn [fold_left]. fold (merge_all (merge s x) l).
    destruct (merge_valid_cle i s x H32 H16 Vs Vx) as (Vm & Cs & Cx).
    destruct (IH (merge s x) Vm Vl') as (V & C & F).
    split; [exact V|]. split; [eapply cle_trans; eauto|].
    constructor; [eapply cle_trans; eauto | assumption].
Qed.

Lemma cle_contains i p c : fits32 i -> fits16 i -> valid_span i p -> valid_span i c -> cle p c ->
  span_contains p c = true.
Proof.
  intros H32 H16 (Ps & Pe & _) (Cs & Ce & _) [H1 H2].
  destruct (reach_mono i _ _ H32 H16 Ps Cs H1) as (_ & B1 & _).
  destruct (reach_mono i _ _ H32 H16 Ce Pe H2) as (_ & B2 & _).
  unfold span_contains. rewrite !andb_true_iff, !N.leb_le. auto.
Qed.

(** merging any number of valid spans of one source gives a valid span that contains them all *)
Theorem merge_all_sound i s l : fits32 i -> fits16 i -> valid_span i s -> Forall (valid_span i) l ->
  valid_span i (merge_all s l) /\ forallb (span_contains (merge_all s l)) (s :: l) = true.
Proof.
  intros H32 H16 Vs Vl. destruct (merge_all_sound_cle i l H32 H16 s Vs Vl) as (V & C & F).
  split; [assumption|]. cbn [forallb]. rewrite (cle_contains i _ _ H32 H16 V Vs C). cbn [andb].
  apply forallb_forall. intros x Hx. rewrite Forall_forall in F, Vl. apply (cle_contains i); auto.
Qed.

(** induction principle for the nested span tree *)
Fixpoint stree_ind' (P : stree -> Prop) (Hl : forall s, P (SLeaf s))
  (Hn : forall f r, P f -> Forall P r -> P (SNode f r)) (t : stree) : P t :=
  match t with
  | SLeaf s => Hl s
  | SNode f r => Hn f r (stree_ind' P Hl Hn f)
      ((fix go (l : list stree) : Forall P l :=
          match l with [] => Forall_nil P | x :: l' => Forall_cons x (stree_ind' P Hl Hn x) (go l') end) r)
  end.

Lemma tree_sound_cle i t : fits32 i -> fits16 i -> (forall s, In s (leaves t) -> valid_span i s) ->
  valid_span i (tspan t) /\ forall s, In s (leaves t) -> cle (tspan t) s.
Proof.
  intros H32 H16. induction t as [s|f r IHf IHr] using stree_ind'; intros Hv.
  - cbn [tspan leaves] in *. split; [apply Hv; left; reflexivity|].
    intros x [<-|[]]. unfold cle. lia.
  - cbn [tspan leaves] in *.
    destruct IHf as (Vf & Cf); [intros s Hs; apply Hv; apply in_or_app; left; assumption|].
    assert (Hr : Forall (fun x => valid_span i (tspan x) /\ forall s, In s (leaves x) -> cle (tspan x) s) r).
    { rewrite Forall_forall in *. intros x Hx. apply IHr; [assumption|].
      intros s Hs. apply Hv. apply in_or_app. right. apply in_flat_map. exists x. auto. }
    assert (Vr : Forall (valid_span i) (map tspan r)).
    { rewrite Forall_forall in *. intros y Hy. apply in_map_iff in Hy. destruct Hy as (x & <- & Hx). apply Hr. assumption. }
    destruct (merge_all_sound_cle i (map tspan r) H32 H16 (tspan f) Vf Vr) as (V & C & F).
    split; [assumption|]. intros s Hs. apply in_app_or in Hs. destruct Hs as [Hs|Hs].
    + eapply cle_trans; [exact C | apply Cf; assumption].
    + apply in_flat_map in Hs. destruct Hs as (x & Hx & Hs). rewrite Forall_forall in F, Hr.
      eapply cle_trans; [apply F; apply in_map; exact Hx | apply Hr; assumption].
Qed.

(** lifted to the tree: when every node's span is the merge of its children's spans, every
    node's span is a valid span of the source and contains the span of every leaf below it *)
Theorem merge_tree_sound i t : fits32 i -> fits16 i -> (forall s, In s (leaves t) -> valid_span i s) ->
  valid_span i (tspan t) /\ forallb (span_contains (tspan t)) (leaves t) = true.
Proof.
  intros H32 H16 Hv. destruct (tree_sound_cle i t H32 H16 Hv) as (V & C). split; [assumption|].
  apply forallb_forall. intros s Hs. apply (cle_contains i); auto.
Qed.

Corollary merge_tree_sound_guarded i t : fits32 i -> accepted i = true -> (forall s, In s (leaves t) -> valid_span i s) ->
  valid_span i (tspan t) /\ forallb (span_contains (tspan t)) (leaves t) = true.
Proof. intros H32 Ha. apply merge_tree_sound; auto. apply guard_excludes_saturation. assumption. Qed.
