(** C13 — the invariant holds initially and is preserved by every step *)
From Coq Require Import List NArith Bool Arith Lia.
From UV Require Import Model.Pool Proofs.PoolShape Proofs.PoolProgress.
Import ListNotations.

Lemma pure_tl i c : pure (i :: c) = true -> pure_i i = true /\ pure c = true.
Proof. unfold pure. simpl. intros H. apply andb_true_iff in H. auto. Qed.
Lemma nopool_tl i c : nopool (i :: c) = true -> nopool_i i = true /\ nopool c = true.
Proof. unfold nopool. simpl. intros H. apply andb_true_iff in H. auto. Qed.
Lemma flat_tl i c : flat (i :: c) = true -> flat_i i = true /\ flat c = true.
Proof. unfold flat. simpl. intros H. apply andb_true_iff in H. auto. Qed.

Lemma codeok_residual rp th th' : same_meta th th' -> residual th th' -> codeok rp th -> codeok rp th'.
Proof.
  intros [_ [IP _]] [i [c [E R]]] [P C]. unfold codeok. rewrite IP. rewrite E in *.
  apply pure_tl in P. destruct P as [_ P].
  assert (X : forall f : instr -> bool, (forall n, f (Work n) = true) -> (forall d t a, f (WaitAll d t a) = true) ->
              forallb f c = true -> forallb f (t_code th') = true).
  { intros f F1 F2 H. destruct R as [->|[[n ->]|[d [t [a ->]]]]]; simpl; auto.
    - rewrite F1; auto. - rewrite F2; auto. }
  split.
  - apply X; auto.
  - destruct C as [C|C]; auto. right. destruct (t_inpool th).
    + apply nopool_tl in C. apply X; tauto.
    + destruct C as [C|C]; [left; apply flat_tl in C|right; apply nopool_tl in C]; apply X; tauto.
Qed.

Lemma inv_init m rp prog : 1 <= m -> pure prog = true -> (rp = true \/ okc prog) -> Inv (init m rp prog).
Proof.
  intros M P C. constructor; simpl; auto.
  - eexists. split; [reflexivity|]. simpl. split; auto. discriminate.
  - intros t [].
  - intros [|t] th H Q; simpl in H; [inversion H; subst; discriminate|destruct t; discriminate].
  - constructor.
  - intros u; discriminate.
  - intros [|t] th k H I; simpl in H; [inversion H; subst; simpl in I; contradiction|destruct t; discriminate].
  - intros [|t] th H Q; simpl in H; [inversion H; subst; discriminate|destruct t; discriminate].
  - intros [|t] th H; simpl in H; [inversion H; subst|destruct t; discriminate].
    split; simpl; auto.
Qed.

(** replacing thread t by one with the same status, flags and children *)
Lemma inv_upd_meta st t th th' :
  Inv st -> nth_error (thr st) t = Some th -> same_meta th th' ->
  map fst (t_kids th') = map fst (t_kids th) -> codeok (rep st) th' ->
  (lck st = Some t -> t_code th' = t_code th /\ t_stack th' = t_stack th) ->
  Inv (set_thr st t th').
Proof.
  intros IV H [MP [MI [MS MT]]] MK CO LK.
  assert (TL : t < length (thr st)) by (eapply nth_some_lt; eauto).
  constructor; unfold set_thr, fin, set_lck; cbn [thr chs qu act lck mx rep].
  - apply (I_mx st IV).
  - destruct (I_root st IV) as [r [Hr [A B]]]. destruct (Nat.eq_dec t 0) as [->|N].
    + exists th'. rewrite nth_upd_eq by auto. split; auto. rewrite H in Hr; inversion Hr; subst. rewrite MI, MT. auto.
    + exists r. rewrite nth_upd_neq by auto. auto.
  - intros u I. destruct (I_q1 st IV u I) as [x [Hx Q]]. destruct (Nat.eq_dec t u) as [->|N].
    + exists th'. rewrite nth_upd_eq by auto. split; auto. rewrite H in Hx; inversion Hx; subst. congruence.
    + exists x. rewrite nth_upd_neq by auto. auto.
  - intros u y Hy Q. apply nth_upd_cases in Hy. destruct Hy as [[-> ->]|[N Hy]].
    + rewrite MP. apply (I_q2 st IV t th); congruence.
    + apply (I_q2 st IV u y); auto.
  - apply (I_qnd st IV).
  - rewrite (I_act st IV). pose proof (cnt_upd actf (thr st) t th th' H) as E.
    assert (actf th' = actf th) by (unfold actf; rewrite MP, MT; reflexivity). rewrite H0 in E. lia.
  - intros u E. destruct (I_lck st IV u E) as [x [k [b [c [Hx [R [Ec [Ed Ek]]]]]]]].
    destruct (Nat.eq_dec t u) as [->|N].
    + rewrite H in Hx; inversion Hx; subst x. destruct (LK E) as [L1 L2].
      exists th', k, b, c. rewrite nth_upd_eq by auto. rewrite L1, L2, MI, MT. auto.
    + exists x, k, b, c. rewrite nth_upd_neq by auto. auto.
  - intros u y k Hy I. apply nth_upd_cases in Hy. destruct Hy as [[-> ->]|[N Hy]].
    + rewrite MK in I. destruct (I_kids st IV t th k H I) as [L [kt [Hk F]]].
      split; auto. exists kt. rewrite nth_upd_neq by lia. rewrite MI. auto.
    + destruct (I_kids st IV u y k Hy I) as [L [kt [Hk F]]]. split; auto.
      destruct (Nat.eq_dec t k) as [->|N2].
      * exists th'. rewrite nth_upd_eq by auto. rewrite H in Hk; inversion Hk; subst kt.
        rewrite MI, MT. auto.
      * exists kt. rewrite nth_upd_neq by auto. auto.
  - intros u y Hy Q. apply nth_upd_cases in Hy. destruct Hy as [[-> ->]|[N Hy]].
    + rewrite MI. apply (I_pk st IV t th); congruence.
    + apply (I_pk st IV u y); auto.
  - intros u y Hy. apply nth_upd_cases in Hy. destruct Hy as [[-> ->]|[N Hy]]; auto.
    apply (I_code st IV u y); auto.
Qed.

Lemma inv_fin st t th r :
  Inv st -> nth_error (thr st) t = Some th -> t_st th = Running ->
  (forall p k b c, t_code th = Fork p k b :: c -> (length (t_stack th) <? k) = true) ->
  Inv (fin st t th r).
Proof.
  intros IV H R FK.
  assert (TL : t < length (thr st)) by (eapply nth_some_lt; eauto).
  set (th' := set_st th (Done r)).
  constructor; unfold set_thr, fin, set_lck; cbn [thr chs qu act lck mx rep]; fold th'.
  - apply (I_mx st IV).
  - destruct (I_root st IV) as [x [Hr [A B]]]. destruct (Nat.eq_dec t 0) as [->|N].
    + exists th'. rewrite nth_upd_eq by auto. split; auto. rewrite H in Hr; inversion Hr; subst. simpl. split; auto. discriminate.
    + exists x. rewrite nth_upd_neq by auto. auto.
  - intros u I. destruct (I_q1 st IV u I) as [x [Hx Q]]. destruct (Nat.eq_dec t u) as [->|N].
    + rewrite H in Hx; inversion Hx; subst. congruence.
    + exists x. rewrite nth_upd_neq by auto. auto.
  - intros u y Hy Q. apply nth_upd_cases in Hy. destruct Hy as [[-> ->]|[N Hy]].
    + simpl in Q. discriminate.
    + apply (I_q2 st IV u y); auto.
  - apply (I_qnd st IV).
  - pose proof (cnt_upd actf (thr st) t th th' H) as E. rewrite (I_act st IV).
    assert (A1 : actf th = t_poolk th) by (unfold actf; rewrite R; apply andb_true_r).
    assert (A2 : actf th' = false) by (unfold actf, th'; simpl; apply andb_false_r).
    rewrite A1, A2 in E. destruct (t_poolk th); simpl in E; lia.
  - intros u E. destruct (I_lck st IV u E) as [x [k [b [c [Hx [Rx [Ec [Ed Ek]]]]]]]].
    destruct (Nat.eq_dec t u) as [->|N].
    + rewrite H in Hx; inversion Hx; subst x. rewrite (FK _ _ _ _ Ec) in Ek. discriminate.
    + exists x, k, b, c. rewrite nth_upd_neq by auto. auto.
  - intros u y k Hy I. apply nth_upd_cases in Hy. destruct Hy as [[-> ->]|[N Hy]].
    + simpl in I. destruct (I_kids st IV t th k H I) as [L [kt [Hk F]]].
      split; auto. exists kt. rewrite nth_upd_neq by lia. auto.
    + destruct (I_kids st IV u y k Hy I) as [L [kt [Hk F]]]. split; auto.
      destruct (Nat.eq_dec t k) as [->|N2].
      * exists th'. rewrite nth_upd_eq by auto. rewrite H in Hk; inversion Hk; subst kt.
        simpl. split; auto. intros P. split; [apply F; auto|discriminate].
      * exists kt. rewrite nth_upd_neq by auto. auto.
  - intros u y Hy Q. apply nth_upd_cases in Hy. destruct Hy as [[-> ->]|[N Hy]].
    + simpl in *. apply (I_pk st IV t th); auto.
    + apply (I_pk st IV u y); auto.
  - intros u y Hy. apply nth_upd_cases in Hy. destruct Hy as [[-> ->]|[N Hy]].
    + apply (I_code st IV t th H).
    + apply (I_code st IV u y); auto.
Qed.

Lemma inv_start st t th q' :
  Inv st -> nth_error (thr st) t = Some th -> t_st th = Queued -> qu st = t :: q' ->
  Inv (mkS (upd t (set_st th Running) (thr st)) (chs st) q' (S (act st)) (lck st) (mx st) (rep st)).
Proof.
  intros IV H Q EQ.
  assert (TL : t < length (thr st)) by (eapply nth_some_lt; eauto).
  set (th' := set_st th Running).
  pose proof (I_qnd st IV) as ND. rewrite EQ in ND. inversion ND as [|? ? NI ND']; subst.
  constructor; unfold set_thr, fin, set_lck; cbn [thr chs qu act lck mx rep]; fold th'.
  - apply (I_mx st IV).
  - destruct (I_root st IV) as [x [Hr [A B]]]. destruct (Nat.eq_dec t 0) as [->|N].
    + rewrite H in Hr; inversion Hr; subst. congruence.
    + exists x. rewrite nth_upd_neq by auto. auto.
  - intros u I. destruct (I_q1 st IV u) as [x [Hx Qx]]; [rewrite EQ; right; auto|].
    destruct (Nat.eq_dec t u) as [->|N]; [contradiction|].
    exists x. rewrite nth_upd_neq by auto. auto.
  - intros u y Hy Qy. apply nth_upd_cases in Hy. destruct Hy as [[-> ->]|[N Hy]].
    + simpl in Qy. discriminate.
    + destruct (I_q2 st IV u y Hy Qy) as [I P]. split; auto. rewrite EQ in I. destruct I; congruence.
  - auto.
  - pose proof (cnt_upd actf (thr st) t th th' H) as E. rewrite (I_act st IV).
    destruct (I_q2 st IV t th H Q) as [_ PK].
    assert (A1 : actf th = false) by (unfold actf; rewrite Q; apply andb_false_r).
    assert (A2 : actf th' = true) by (unfold actf, th'; simpl; rewrite PK; reflexivity).
    rewrite A1, A2 in E. simpl in E. lia.
  - intros u E. destruct (I_lck st IV u E) as [x [k [b [c [Hx [Rx [Ec [Ed Ek]]]]]]]].
    destruct (Nat.eq_dec t u) as [->|N].
    + rewrite H in Hx; inversion Hx; subst x. congruence.
    + exists x, k, b, c. rewrite nth_upd_neq by auto. auto.
  - intros u y k Hy I. apply nth_upd_cases in Hy. destruct Hy as [[-> ->]|[N Hy]].
    + simpl in I. destruct (I_kids st IV t th k H I) as [L [kt [Hk F]]].
      split; auto. exists kt. rewrite nth_upd_neq by lia. auto.
    + destruct (I_kids st IV u y k Hy I) as [L [kt [Hk F]]]. split; auto.
      destruct (Nat.eq_dec t k) as [->|N2].
      * exists th'. rewrite nth_upd_eq by auto. rewrite H in Hk; inversion Hk; subst kt.
        simpl. split; auto. intros P. split; [apply F; auto|discriminate].
      * exists kt. rewrite nth_upd_neq by auto. auto.
  - intros u y Hy Qy. apply nth_upd_cases in Hy. destruct Hy as [[-> ->]|[N Hy]].
    + simpl in *. apply (I_pk st IV t th); auto.
    + apply (I_pk st IV u y); auto.
  - intros u y Hy. apply nth_upd_cases in Hy. destruct Hy as [[-> ->]|[N Hy]].
    + apply (I_code st IV t th H).
    + apply (I_code st IV u y); auto.
Qed.

Lemma inv_acq st t th k b c :
  Inv st -> nth_error (thr st) t = Some th -> t_st th = Running -> t_code th = Fork true k b :: c ->
  (length (t_stack th) <? k) = false -> (rep st && t_inpool th) = false ->
  Inv (set_lck st (Some t)).
Proof.
  intros IV H R Ec Ek Ed. destruct IV. constructor; simpl; auto.
  intros u E. inversion E; subst u. exists th, k, b, c. auto.
Qed.

(** a fork: the spawn route (pk = false, the child runs at once) or the pool route (pk = true, queued) *)
Lemma inv_child st t th c k b p pk :
  Inv st -> nth_error (thr st) t = Some th -> t_st th = Running -> t_code th = Fork p k b :: c ->
  (pk = false /\ (p = false \/ (rep st = true /\ t_inpool th = true))
   \/ (pk = true /\ p = true /\ (rep st && t_inpool th) = false /\ lck st = Some t)) ->
  Inv (add_child st t th c k b pk (if pk then Queued else Running)
                 (if pk then qu st ++ [length (thr st)] else qu st) (if pk then None else lck st)).
Proof.
  intros IV H R Ec CASE.
  assert (TL : t < length (thr st)) by (eapply nth_some_lt; eauto).
  set (n := length (thr st)).
  set (th' := with_csk th c (skipn k (t_stack th)) (t_kids th ++ [(n, false)])).
  set (ch := mkT b (firstn k (t_stack th)) [] pk (t_inpool th || pk) (seqev b (firstn k (t_stack th)) [])
                 (if pk then Queued else Running)).
  assert (OLD : forall u, u <> t -> u < n -> nth_error (upd t th' (thr st) ++ [ch]) u = nth_error (thr st) u).
  { intros u N L. rewrite nth_app_l by (rewrite upd_length; auto). apply nth_upd_neq; auto. }
  assert (ME : nth_error (upd t th' (thr st) ++ [ch]) t = Some th').
  { rewrite nth_app_l by (rewrite upd_length; auto). apply nth_upd_eq; auto. }
  assert (NEW : nth_error (upd t th' (thr st) ++ [ch]) n = Some ch).
  { unfold n. rewrite <- (upd_length t th' (thr st)). apply nth_app_new. }
  destruct (I_code st IV t th H) as [PU CL]. rewrite Ec in PU, CL.
  apply pure_tl in PU. destruct PU as [PB PC]. simpl in PB.
  (* an in-pool thread takes the pool route only under the repaired rule -- where it does not *)
  assert (NOPK : pk = true -> t_inpool th = false).
  { intros ->. destruct CASE as [[? _]|[_ [-> [Ed _]]]]; [discriminate|].
    destruct (t_inpool th) eqn:IP; auto. rewrite andb_true_r in Ed.
    destruct CL as [CL|CL]; [congruence|]. apply nopool_tl in CL. destruct CL as [CL _]. simpl in CL. discriminate. }
  unfold add_child. fold n. fold th'. fold ch.
  constructor; unfold set_thr, fin, set_lck; cbn [thr chs qu act lck mx rep].
  - apply (I_mx st IV).
  - destruct (I_root st IV) as [x [Hr [A B]]]. destruct (Nat.eq_dec t 0) as [->|N].
    + exists th'. rewrite ME. rewrite H in Hr; inversion Hr; subst. simpl. auto.
    + exists x. rewrite OLD by (auto; apply nth_some_lt in Hr; auto). auto.
  - intros u I.
    assert (I' : In u (qu st) \/ (pk = true /\ u = n)).
    { destruct pk; auto. apply in_app_or in I. destruct I as [I|[I|[]]]; auto. }
    destruct I' as [I'|[-> ->]].
    + destruct (I_q1 st IV u I') as [x [Hx Q]]. destruct (Nat.eq_dec t u) as [->|N].
      * rewrite H in Hx; inversion Hx; subst. congruence.
      * exists x. rewrite OLD by (auto; apply nth_some_lt in Hx; auto). auto.
    + exists ch. rewrite NEW. auto.
  - intros u y Hy Q. apply nth_updapp_cases in Hy. destruct Hy as [[-> [-> _]]|[[N [L Hy]]|[-> ->]]].
    + simpl in Q. congruence.
    + destruct (I_q2 st IV u y Hy Q) as [I P]. split; auto. destruct pk; auto. apply in_or_app; auto.
    + unfold ch in *. simpl in *. destruct pk; [|discriminate]. split; auto. apply in_or_app. right. left. auto.
  - destruct pk; [|apply (I_qnd st IV)].
    assert (~ In n (qu st)).
    { intros I. destruct (I_q1 st IV n I) as [x [Hx _]]. apply nth_some_lt in Hx. unfold n in Hx. lia. }
    pose proof (I_qnd st IV) as ND. clear - H0 ND. induction (qu st) as [|a l IH]; simpl.
    + constructor; [intros []|constructor].
    + inversion ND; subst. constructor.
      * intros I. apply in_app_or in I. destruct I as [I|[I|[]]]; auto. subst. apply H0. left; auto.
      * apply IH; auto. intros I. apply H0. right; auto.
  - rewrite (I_act st IV). rewrite cnt_app.
    pose proof (cnt_upd actf (thr st) t th th' H) as E.
    assert (actf th' = actf th) by reflexivity. rewrite H0 in E.
    assert (cnt actf [ch] = 0). { unfold cnt, actf, ch. simpl. destruct pk; reflexivity. }
    lia.
  - intros u E. destruct pk; [discriminate|].
    destruct (I_lck st IV u E) as [x [k' [b' [c' [Hx [Rx [Ec' [Ed Ek]]]]]]]].
    destruct (Nat.eq_dec t u) as [->|N].
    + rewrite H in Hx; inversion Hx; subst x. rewrite Ec in Ec'. inversion Ec'; subst.
      destruct CASE as [[_ [?|[A B]]]|[? _]]; try discriminate. rewrite A, B in Ed. discriminate.
    + exists x, k', b', c'. rewrite OLD by (auto; apply nth_some_lt in Hx; auto). auto.
  - intros u y kk Hy I. apply nth_updapp_cases in Hy. destruct Hy as [[-> [-> _]]|[[N [L Hy]]|[-> ->]]].
    + simpl in I. rewrite map_app in I. apply in_app_or in I. destruct I as [I|[I|[]]].
      * destruct (I_kids st IV t th kk H I) as [L [kt [Hk F]]]. split; auto.
        exists kt. rewrite OLD by (try lia; apply nth_some_lt in Hk; auto). auto.
      * simpl in I. subst kk. split; [fold n; lia|]. exists ch. rewrite NEW. split; auto.
        simpl. intros P. rewrite P. simpl. split; auto. destruct pk; [|discriminate].
        rewrite NOPK in P; auto. discriminate.
    + destruct (I_kids st IV u y kk Hy I) as [L' [kt [Hk F]]]. split; auto.
      destruct (Nat.eq_dec t kk) as [->|N2].
      * exists th'. rewrite ME. rewrite H in Hk; inversion Hk; subst kt. simpl. rewrite R in *. auto.
      * exists kt. rewrite OLD by (auto; apply nth_some_lt in Hk; auto). auto.
    + simpl in I. contradiction.
  - intros u y Hy Q. apply nth_updapp_cases in Hy. destruct Hy as [[-> [-> _]]|[[N [L Hy]]|[-> ->]]].
    + simpl in *. apply (I_pk st IV t th); auto.
    + apply (I_pk st IV u y); auto.
    + simpl in *. subst pk. apply orb_true_r.
  - intros u y Hy. apply nth_updapp_cases in Hy. destruct Hy as [[-> [-> _]]|[[N [L Hy]]|[-> ->]]].
    + split; simpl; auto. destruct CL as [CL|CL]; auto. right. destruct (t_inpool th).
      * apply nopool_tl in CL. tauto.
      * destruct CL as [CL|CL]; [left; apply flat_tl in CL|right; apply nopool_tl in CL]; tauto.
    + apply (I_code st IV u y); auto.
    + split; simpl; auto. destruct CL as [CL|CL]; auto.
      destruct CASE as [[-> [->|[A _]]]|[-> [-> [Ed _]]]]; [right|left; exact A|right].
      * rewrite orb_false_r. destruct (t_inpool th).
        -- apply nopool_tl in CL. destruct CL as [CL _]. simpl in CL. auto.
        -- destruct CL as [CL|CL]; [left; apply flat_tl in CL|right; apply nopool_tl in CL];
             destruct CL as [CL _]; simpl in CL; auto.
      * rewrite orb_true_r. rewrite NOPK in CL by auto.
        destruct CL as [CL|CL]; [apply flat_tl in CL|apply nopool_tl in CL]; destruct CL as [CL _]; simpl in CL; auto.
        discriminate.
Qed.

Theorem inv_step st t st' : Inv st -> step st t = Some st' -> Inv st'.
Proof.
  intros IV S. apply step_shape in S. destruct S as [th [H SH]].
  destruct SH.
  - subst. eapply inv_upd_meta; eauto.
    + eapply codeok_residual; eauto. apply (I_code st IV t th H).
    + intros E. destruct (I_lck st IV t E) as [x [k [b [c [Hx [_ [Ec _]]]]]]].
      rewrite H in Hx; inversion Hx; subst x. unfold nofork in *. rewrite Ec in *. contradiction.
  - subst. eapply inv_fin; eauto.
  - subst. apply (inv_child st t th c k b p false); auto.
  - subst. apply (inv_child st t th c k b true true); auto; try (right; repeat split; auto).
  - subst. eapply inv_acq; eauto.
  - subst. eapply inv_start; eauto.
  - destruct (I_code st IV t th H) as [P _]. congruence.
Qed.

Lemma inv_run sched : forall st, Inv st -> Inv (run sched st).
Proof.
  induction sched as [|t r IH]; intros st IV; simpl; auto.
  destruct (step st t) eqn:E; auto. apply IH. eapply inv_step; eauto.
Qed.
