(** C17 proofs, part (i): framing of the .uasm text (model: Model/Uasm.v). *)
From Coq Require Import List NArith Bool Lia.
From UV Require Import Model.Uasm.
Import ListNotations.
Open Scope N_scope.

(** ** prefixes and first occurrences *)
Lemma strip_prefix_app p r : strip_prefix p (p ++ r) = Some r.
Proof. induction p; cbn [strip_prefix app]; [reflexivity | rewrite N.eqb_refl; auto]. Qed.

Lemma strip_prefix_ext m : forall b r c, strip_prefix m b = Some r -> strip_prefix m (b ++ c) = Some (r ++ c).
Proof.
  induction m as [|x m IH]; intros b r c H; cbn [strip_prefix] in *.
  - inversion H; reflexivity.
  - destruct b as [|d b]; [discriminate|]. cbn [app]. destruct (x =? d); [auto | discriminate].
Qed.

Lemma strip_prefix_cross m : forall b x r, strip_prefix m (b ++ NL :: x) = Some r ->
  In NL m \/ exists r', strip_prefix m b = Some r'.
Proof.
  induction m as [|c m IH]; intros b x r H.
  - right. exists b. reflexivity.
  - destruct b as [|d b]; cbn [strip_prefix app] in *.
    + destruct (c =? NL) eqn:E; [|discriminate]. apply N.eqb_eq in E. left; left; auto.
    + destruct (c =? d) eqn:E; [|discriminate]. apply IH in H. destruct H as [H|[r' H]].
      * left; right; auto.
      * right; exists r'; auto.
Qed.

Lemma split_once_eq p s : split_once p s =
  match strip_prefix p s with
  | Some r => Some ([], r)
  | None => match s with [] => None | c :: s' =>
      match split_once p s' with Some (a, b) => Some (c :: a, b) | None => None end end
  end.
Proof. destruct s; reflexivity. Qed.

Lemma strip_prefix_nl m X : m <> [] -> ~ In NL m -> strip_prefix m (NL :: X) = None.
Proof.
  intros Hm Hn. destruct m as [|c m]; [congruence|]. cbn [strip_prefix].
  destruct (c =? NL) eqn:E; [|reflexivity]. apply N.eqb_eq in E. exfalso; apply Hn; left; auto.
Qed.

Lemma contains_cons_false m c b : contains m (c :: b) = false ->
  contains m b = false /\ strip_prefix m (c :: b) = None.
Proof.
  unfold contains. rewrite (split_once_eq m (c :: b)).
  destruct (strip_prefix m (c :: b)); [discriminate|].
  destruct (split_once m b) as [[? ?]|]; [discriminate|]. auto.
Qed.

Lemma contains_nl_cons m b : m <> [] -> ~ In NL m -> contains m b = false -> contains m (NL :: b) = false.
Proof.
  intros Hm Hn H. unfold contains in *. rewrite split_once_eq, strip_prefix_nl by auto.
  destruct (split_once m b) as [[? ?]|]; [discriminate | reflexivity].
Qed.

Lemma split_once_step m : forall b T, m <> [] -> ~ In NL m -> contains m b = false ->
  split_once m (b ++ NL :: m ++ T) = Some (b ++ [NL], T).
Proof.
  induction b as [|a b IH]; intros T Hm Hn Hc.
  - cbn [app]. rewrite split_once_eq, strip_prefix_nl by auto.
    rewrite split_once_eq, strip_prefix_app. reflexivity.
  - apply contains_cons_false in Hc. destruct Hc as [Hc Hp].
    change ((a :: b) ++ NL :: m ++ T) with (a :: (b ++ NL :: m ++ T)).
    rewrite split_once_eq.
    destruct (strip_prefix m (a :: b ++ NL :: m ++ T)) eqn:E.
    + change (a :: b ++ NL :: m ++ T) with ((a :: b) ++ NL :: m ++ T) in E.
      apply strip_prefix_cross in E. destruct E as [E|[r' E]]; [contradiction | congruence].
    + rewrite IH by auto. reflexivity.
Qed.

Lemma contains_app m : forall X C, contains m X = true -> contains m (X ++ C) = true.
Proof.
  induction X as [|c X IH]; intros C H; unfold contains in *.
  - rewrite split_once_eq in H. destruct (strip_prefix m []) eqn:E; [|discriminate].
    rewrite split_once_eq. rewrite (strip_prefix_ext _ _ _ C E). reflexivity.
  - rewrite split_once_eq in H. rewrite split_once_eq.
    destruct (strip_prefix m (c :: X)) eqn:E.
    + rewrite (strip_prefix_ext _ _ _ C E). reflexivity.
    + destruct (strip_prefix m ((c :: X) ++ C)); [reflexivity|]. cbn [app].
      specialize (IH C). destruct (split_once m X) as [[? ?]|]; [|discriminate].
      specialize (IH eq_refl). destruct (split_once m (X ++ C)) as [[? ?]|]; [reflexivity | discriminate].
Qed.

(** ** trimming *)
Lemma trim_end_eq s : trim_end s =
  match s with [] => [] | c :: s' =>
    match trim_end s' with [] => if is_ws c then [] else [c] | t => c :: t end end.
Proof. destruct s; reflexivity. Qed.

Lemma trim_end_nonws X c R : is_ws c = false -> trim_end (X ++ c :: R) = X ++ c :: trim_end R.
Proof.
  intros W. induction X as [|x X IH]; cbn [app].
  - rewrite trim_end_eq. destruct (trim_end R); rewrite ?W; reflexivity.
  - rewrite trim_end_eq, IH. destruct X; reflexivity.
Qed.

Lemma trim_end_idem s : trim_end (trim_end s) = trim_end s.
Proof.
  induction s as [|a s IH]; [reflexivity|]. rewrite (trim_end_eq (a :: s)).
  destruct (trim_end s) as [|n l] eqn:E.
  - destruct (is_ws a) eqn:W; [reflexivity|]. cbn [trim_end]. rewrite W. reflexivity.
  - rewrite trim_end_eq, IH. reflexivity.
Qed.

Lemma trim_start_end s : trim_start (trim_end s) = trim_end (trim_start s).
Proof.
  induction s as [|c s IH]; [reflexivity|]. rewrite (trim_end_eq (c :: s)). cbn [trim_start].
  destruct (is_ws c) eqn:W.
  - destruct (trim_end s) as [|n l] eqn:E.
    + rewrite <- IH. reflexivity.
    + cbn [trim_start]. rewrite W. exact IH.
  - destruct (trim_end s) as [|n l] eqn:E.
    + cbn [trim_start]. rewrite W. rewrite trim_end_eq, E, W. reflexivity.
    + cbn [trim_start]. rewrite W. rewrite trim_end_eq, E. reflexivity.
Qed.

Lemma trim_trim_end s : trim (trim_end s) = trim s.
Proof. unfold trim. rewrite trim_start_end, trim_end_idem. reflexivity. Qed.

Lemma trim_nl s : trim (NL :: s) = trim s.
Proof. reflexivity. Qed.

Definition shape (X : text) : Prop := X = [] \/ exists X', X = NL :: X'.

Lemma shape_trim_end R : shape (trim_end (NL :: R)).
Proof.
  rewrite trim_end_eq. destruct (trim_end R); [left; reflexivity | right; eexists; reflexivity].
Qed.

(** ** markers *)
Definition marker_okb (m : text) : bool :=
  negb (existsb (N.eqb NL) m) &&
  match m with c :: _ => negb (is_ws c) | [] => false end &&
  match rev m with c :: _ => negb (is_ws c) | [] => false end.

Lemma markers_ok : forallb marker_okb markers = true.
Proof. reflexivity. Qed.

Lemma existsb_nl_false l : existsb (N.eqb NL) l = false -> ~ In NL l.
Proof.
  intros H Hin. assert (existsb (N.eqb NL) l = true); [|congruence].
  apply existsb_exists. exists NL. split; [auto | apply N.eqb_refl].
Qed.

Lemma marker_facts m : marker_okb m = true ->
  m <> [] /\ ~ In NL m /\ (exists c m', m = c :: m' /\ is_ws c = false) /\
  (exists m0 c, m = m0 ++ [c] /\ is_ws c = false).
Proof.
  unfold marker_okb. intros H. apply andb_prop in H. destruct H as [H H3].
  apply andb_prop in H. destruct H as [H1 H2].
  apply negb_true_iff in H1. apply existsb_nl_false in H1.
  destruct m as [|c m']; [discriminate|]. apply negb_true_iff in H2.
  split; [discriminate|]. split; [auto|]. split; [eauto|].
  destruct (rev (c :: m')) as [|d r] eqn:E; [discriminate|]. apply negb_true_iff in H3.
  exists (rev r), d. split; [|auto].
  rewrite <- (rev_involutive (c :: m')), E. reflexivity.
Qed.

(** ** lines *)
Definition noNL (l : text) : Prop := ~ In NL l.

Lemma line_ok_facts l : line_ok l = true ->
  noNL l /\ all_ws l = false /\ exists l0 c, l = l0 ++ [c] /\ is_ws c = false.
Proof.
  unfold line_ok. intros H. apply andb_prop in H. destruct H as [H H3].
  apply andb_prop in H. destruct H as [H1 H2].
  apply negb_true_iff in H1. apply existsb_nl_false in H1. apply negb_true_iff in H2.
  split; [auto|]. split; [auto|].
  destruct (rev l) as [|d r] eqn:E; [discriminate|]. apply negb_true_iff in H3.
  exists (rev r), d. split; [|auto]. rewrite <- (rev_involutive l), E. reflexivity.
Qed.

Lemma span_line_ok_noNL l : span_line_ok l = true -> noNL l.
Proof. unfold span_line_ok. intros H. apply negb_true_iff in H. apply existsb_nl_false; auto. Qed.

Lemma split_nl_eq s : split_nl s =
  match s with [] => [[]] | c :: s' =>
    if c =? NL then [] :: split_nl s'
    else match split_nl s' with p :: ps => (c :: p) :: ps | [] => [[c]] end end.
Proof. destruct s; reflexivity. Qed.

Lemma split_nl_line l : forall Y, noNL l -> split_nl (l ++ NL :: Y) = l :: split_nl Y.
Proof.
  induction l as [|c l IH]; intros Y H.
  - cbn [app]. rewrite split_nl_eq. rewrite N.eqb_refl. reflexivity.
  - cbn [app]. rewrite split_nl_eq. destruct (c =? NL) eqn:E.
    + apply N.eqb_eq in E. exfalso; apply H; left; auto.
    + rewrite IH; [reflexivity|]. intros Hin; apply H; right; auto.
Qed.

Lemma split_nl_last l : noNL l -> split_nl l = [l].
Proof.
  induction l as [|c l IH]; intros H; [reflexivity|]. rewrite split_nl_eq.
  destruct (c =? NL) eqn:E.
  - apply N.eqb_eq in E. exfalso; apply H; left; auto.
  - rewrite IH; [reflexivity|]. intros Hin; apply H; right; auto.
Qed.

Lemma unlines_cons l ls : unlines (l :: ls) = l ++ NL :: unlines ls.
Proof. unfold unlines. cbn [map concat]. rewrite <- app_assoc. reflexivity. Qed.

Lemma unlines_app a b : unlines (a ++ b) = unlines a ++ unlines b.
Proof. unfold unlines. rewrite map_app, concat_app. reflexivity. Qed.

Lemma split_nl_unlines ls : forall Y, Forall noNL ls -> split_nl (unlines ls ++ Y) = ls ++ split_nl Y.
Proof.
  induction ls as [|l ls IH]; intros Y H; [reflexivity|].
  inversion H; subst. rewrite unlines_cons, <- app_assoc. cbn [app].
  rewrite split_nl_line by auto. rewrite IH by auto. reflexivity.
Qed.

Definition nb (l : text) : bool := negb (all_ws l).

Lemma drop_last_empty_filter L :
  filter nb (map strip_cr (drop_last_empty L)) = filter nb (map strip_cr L).
Proof.
  induction L as [|x L IH]; [reflexivity|].
  destruct x as [|c x]; destruct L as [|y L]; try reflexivity.
  - cbn [drop_last_empty map filter]. cbn [drop_last_empty map filter] in IH. rewrite IH. reflexivity.
  - change (drop_last_empty ((c :: x) :: y :: L)) with ((c :: x) :: drop_last_empty (y :: L)).
    cbn [map filter]. rewrite IH. reflexivity.
Qed.

Lemma strip_cr_cons x t : t <> [] -> strip_cr (x :: t) = x :: strip_cr t.
Proof. destruct t; [congruence | reflexivity]. Qed.

Lemma strip_cr_id l0 c : c <> CR -> strip_cr (l0 ++ [c]) = l0 ++ [c].
Proof.
  intros H. induction l0 as [|x l0 IH].
  - cbn. destruct (c =? CR) eqn:E; [apply N.eqb_eq in E; contradiction | reflexivity].
  - cbn [app]. rewrite strip_cr_cons by (destruct l0; discriminate). rewrite IH. reflexivity.
Qed.

Lemma line_ok_strip_cr l : line_ok l = true -> strip_cr l = l.
Proof.
  intros H. apply line_ok_facts in H. destruct H as (_ & _ & l0 & c & -> & W).
  apply strip_cr_id. intros ->. discriminate.
Qed.

Lemma lines_ok_clean ls : Forall (fun l => line_ok l = true) ls -> filter nb (map strip_cr ls) = ls.
Proof.
  induction 1 as [|l ls Hl _ IH]; [reflexivity|]. cbn [map filter].
  rewrite (line_ok_strip_cr _ Hl). unfold nb at 1.
  destruct (line_ok_facts _ Hl) as (_ & -> & _). cbn [negb]. rewrite IH. reflexivity.
Qed.

Lemma Forall_noNL ls : Forall (fun l => line_ok l = true) ls -> Forall noNL ls.
Proof. apply Forall_impl. intros l H. apply line_ok_facts in H. tauto. Qed.

(** lines_ne of a section text that is the writer's lines surrounded by empty pieces *)
Lemma lines_ne_pieces X pre post ls :
  Forall (fun l => line_ok l = true) ls ->
  split_nl X = pre ++ ls ++ post -> Forall (eq []) pre -> Forall (eq []) post ->
  lines_ne X = ls.
Proof.
  intros Hls HX Hpre Hpost. unfold lines_ne, lines. fold nb.
  rewrite drop_last_empty_filter, HX, !map_app, !filter_app, (lines_ok_clean _ Hls).
  assert (E : forall p, Forall (eq []) p -> filter nb (map strip_cr p) = []).
  { induction 1 as [|x p Hx _ IH]; [reflexivity|]. subst x. cbn. exact IH. }
  rewrite (E _ Hpre), (E _ Hpost), app_nil_r. reflexivity.
Qed.

Definition body' (ls : list text) : text := match ls with [] => [] | _ => unlines ls ++ [NL] end.

Lemma lines_ne_pfx pfx ls : (pfx = [] \/ pfx = [NL]) -> Forall (fun l => line_ok l = true) ls ->
  lines_ne (pfx ++ unlines ls ++ [NL]) = ls.
Proof.
  intros Hp H. destruct Hp as [-> | ->].
  - apply (lines_ne_pieces _ [] [[]; []]); auto. cbn [app].
    rewrite split_nl_unlines by (apply Forall_noNL; auto). reflexivity.
  - apply (lines_ne_pieces _ [[]] [[]; []]); auto. cbn [app].
    rewrite split_nl_eq, N.eqb_refl. rewrite split_nl_unlines by (apply Forall_noNL; auto). reflexivity.
Qed.

Lemma lines_ne_root ls : Forall (fun l => line_ok l = true) ls -> lines_ne (unlines ls ++ [NL]) = ls.
Proof. intros H. apply (lines_ne_pfx [] ls); auto. Qed.

Lemma lines_ne_body' ls : Forall (fun l => line_ok l = true) ls -> lines_ne (body' ls) = ls.
Proof.
  intros H. destruct ls as [|l ls]; [reflexivity|]. unfold body'.
  apply (lines_ne_pfx [] (l :: ls)); auto.
Qed.

Lemma span_lines_body' ls : Forall (fun l => span_line_ok l = true) ls ->
  span_lines (body' ls) = match ls with [] => [] | l => l ++ [[]] end.
Proof.
  intros H. destruct ls as [|l ls]; [reflexivity|]. unfold body', span_lines.
  rewrite split_nl_unlines.
  - change (split_nl [NL]) with ([@nil N] ++ [@nil N]). rewrite app_assoc. apply removelast_last.
  - revert H. apply Forall_impl. apply span_line_ok_noNL.
Qed.

(** the text of a non-empty list of good lines without its final newline *)
Lemma unlines_last ls : ls <> [] -> Forall (fun l => line_ok l = true) ls ->
  exists init l0 c, ls = init ++ [l0 ++ [c]] /\ is_ws c = false /\
    unlines ls = (unlines init ++ l0) ++ c :: [NL].
Proof.
  intros Hne H. destruct (exists_last Hne) as (init & lastl & ->).
  apply Forall_app in H. destruct H as [_ H]. inversion H as [|? ? Hl _]; subst.
  apply line_ok_facts in Hl. destruct Hl as (_ & _ & l0 & c & -> & W).
  exists init, l0, c. split; [reflexivity|]. split; [auto|].
  rewrite unlines_app. unfold unlines at 2. cbn [map concat]. rewrite app_nil_r, <- !app_assoc. reflexivity.
Qed.

Lemma trim_end_unlines ls : ls <> [] -> Forall (fun l => line_ok l = true) ls ->
  exists init lastl, ls = init ++ [lastl] /\ lastl <> [] /\ forall P, trim_end (P ++ unlines ls) = P ++ unlines init ++ lastl.
Proof.
  intros Hne H. destruct (unlines_last ls Hne H) as (init & l0 & c & -> & W & E).
  exists init, (l0 ++ [c]). split; [reflexivity|]. split; [destruct l0; discriminate|].
  intros P. rewrite E. rewrite app_assoc. rewrite trim_end_nonws by auto.
  change (trim_end [NL]) with (@nil N). rewrite <- !app_assoc. reflexivity.
Qed.

Lemma lines_ne_trim_end_nl ls : Forall (fun l => line_ok l = true) ls ->
  lines_ne (trim_end (NL :: unlines ls)) = ls /\
  (forall t, t = trim_end (NL :: unlines ls) -> lines_ne (tl t) = ls).
Proof.
  intros H. destruct ls as [|l ls].
  - split; [reflexivity | intros t ->; reflexivity].
  - destruct (trim_end_unlines (l :: ls)) as (init & lastl & E & Hl & HT); [discriminate | auto |].
    assert (Hi : Forall noNL init /\ noNL lastl).
    { apply Forall_noNL in H. rewrite E in H. apply Forall_app in H. destruct H as [H1 H2].
      inversion H2; auto. }
    destruct Hi as [Hi Hla].
    specialize (HT [NL]). cbn [app] in HT. rewrite HT. split.
    + apply (lines_ne_pieces _ [[]] []); auto. rewrite split_nl_eq, N.eqb_refl.
      rewrite split_nl_unlines, split_nl_last by auto. rewrite E, app_nil_r. reflexivity.
    + intros t ->. cbn [tl]. apply (lines_ne_pieces _ [] []); auto.
      rewrite split_nl_unlines, split_nl_last by auto. rewrite E, app_nil_r. reflexivity.
Qed.

Lemma drop_last_empty_nonempty A x : x <> [] -> drop_last_empty (A ++ [x]) = A ++ [x].
Proof.
  intros Hx. induction A as [|a A IH].
  - destruct x; [congruence | reflexivity].
  - cbn [app]. destruct (A ++ [x]) as [|y L] eqn:E; [destruct A; discriminate|].
    destruct a as [|c a].
    + change (drop_last_empty ([] :: y :: L)) with ([] :: drop_last_empty (y :: L)). rewrite IH. reflexivity.
    + change (drop_last_empty ((c :: a) :: y :: L)) with ((c :: a) :: drop_last_empty (y :: L)). rewrite IH. reflexivity.
Qed.

Lemma map_strip_cr_ok ls : Forall (fun l => line_ok l = true) ls -> map strip_cr ls = ls.
Proof.
  induction 1 as [|l ls Hl _ IH]; [reflexivity|]. cbn [map]. rewrite IH, (line_ok_strip_cr _ Hl). reflexivity.
Qed.

Lemma lines_strings ls : head_ok ls = true -> Forall (fun l => line_ok l = true) ls ->
  lines (trim (NL :: unlines ls)) = ls.
Proof.
  intros Hh H. destruct ls as [|l ls]; [reflexivity|].
  rewrite trim_nl. unfold trim.
  assert (Hs : trim_start (unlines (l :: ls)) = unlines (l :: ls)).
  { rewrite unlines_cons. destruct l as [|c l]; [discriminate|]. cbn [head_ok] in Hh.
    apply negb_true_iff in Hh. cbn [app trim_start]. rewrite Hh. reflexivity. }
  rewrite Hs.
  destruct (trim_end_unlines (l :: ls)) as (init & lastl & E & Hl & HT); [discriminate | auto |].
  specialize (HT []). cbn [app] in HT. rewrite HT. unfold lines.
  assert (Hi : Forall noNL init /\ noNL lastl).
  { pose proof (Forall_noNL _ H) as H'. rewrite E in H'. apply Forall_app in H'. destruct H' as [H1 H2].
    inversion H2; auto. }
  destruct Hi as [Hi Hla].
  rewrite split_nl_unlines, split_nl_last by auto.
  rewrite drop_last_empty_nonempty by auto.
  transitivity (init ++ [lastl]); [apply map_strip_cr_ok; rewrite <- E; auto | auto].
Qed.

(** ** trimmed form of a tail *)
Lemma trim_section ls m T : marker_okb m = true -> head_ok ls = true ->
  trim (NL :: unlines ls ++ NL :: m ++ T) = body' ls ++ m ++ trim_end T.
Proof.
  intros Hm Hh. destruct (marker_facts _ Hm) as (_ & _ & (c & m' & Em & Wc) & (m0 & d & Em0 & Wd)).
  rewrite trim_nl. unfold trim. destruct ls as [|l ls].
  - cbn [unlines map concat app body'].
    assert (E : trim_start (NL :: m ++ T) = m ++ T).
    { change (trim_start (NL :: m ++ T)) with (trim_start (m ++ T)). rewrite Em. cbn [app trim_start]. rewrite Wc. reflexivity. }
    rewrite E. rewrite Em0 at 1. rewrite <- app_assoc. cbn [app]. rewrite trim_end_nonws by auto.
    rewrite Em0 at 1. rewrite <- app_assoc. reflexivity.
  - assert (E : trim_start (unlines (l :: ls) ++ NL :: m ++ T) = unlines (l :: ls) ++ NL :: m ++ T).
    { rewrite unlines_cons. destruct l as [|x l]; [discriminate|]. cbn [head_ok] in Hh.
      apply negb_true_iff in Hh. cbn [app trim_start]. rewrite Hh. reflexivity. }
    rewrite E. unfold body'. rewrite Em0.
    replace (unlines (l :: ls) ++ NL :: (m0 ++ [d]) ++ T) with ((unlines (l :: ls) ++ NL :: m0) ++ d :: T)
      by (rewrite <- !app_assoc; reflexivity).
    rewrite trim_end_nonws by auto. rewrite <- !app_assoc. reflexivity.
Qed.

(** the text up to and including the MACRO EXPANSIONS marker line, followed by [R9] *)
Definition head_text (a : sections) (R9 : text) : text :=
  unlines (s_root a) ++ NL :: M_DEPENDENCIES ++ NL :: unlines (s_deps a) ++ NL :: M_EXPORTS ++
  NL :: unlines (s_exports a) ++ NL :: M_BINDINGS ++ NL :: unlines (s_bindings a) ++ NL :: M_FUNCTIONS ++
  NL :: unlines (s_functions a) ++ NL :: M_INDEX_MACROS ++ NL :: unlines (s_imacros a) ++ NL :: M_CODE_MACROS ++
  NL :: unlines (s_cmacros a) ++ NL :: M_SPANS ++ NL :: unlines (s_spans a) ++ NL :: M_FILES ++
  NL :: unlines (s_files a) ++ NL :: M_MACRO_EXPANSIONS ++ NL :: R9.

(** ** the cascade, for any splitter meeting the step specifications *)
Section Cascade.
  Variable sp : text -> text -> option (text * text).
  Variable pfx : text.
  Variable post : text -> text.
  Variable okb : text -> list text -> bool.
  Hypothesis Hpfx : pfx = [] \/ pfx = [NL].
  Hypothesis Hpost0 : post [] = [].
  Hypothesis Hpost1 : forall Y, post (NL :: Y) = pfx ++ Y.
  Hypothesis Hstep0 : forall m ls X, marker_okb m = true -> okb m ls = true -> Forall noNL ls -> shape X ->
    sp m (unlines ls ++ NL :: m ++ X) = Some (unlines ls ++ [NL], post X).
  Hypothesis Hstep : forall m ls X, marker_okb m = true -> okb m ls = true -> Forall noNL ls -> shape X ->
    sp m (pfx ++ unlines ls ++ NL :: m ++ X) = Some (pfx ++ unlines ls ++ [NL], post X).
  Hypothesis Hstepb : forall m ls X, marker_okb m = true -> okb m ls = true -> Forall noNL ls -> shape X ->
    sp m (body' ls ++ m ++ X) = Some (body' ls, post X).
  Hypothesis Hnone : forall m ls, marker_okb m = true -> okb m ls = true ->
    Forall (fun l => line_ok l = true) ls -> head_ok ls = true -> sp m (trim (NL :: unlines ls)) = None.

  Lemma trim_post X : shape X -> trim (post X) = trim X.
  Proof.
    intros [-> | [Y ->]]; [rewrite Hpost0; reflexivity|]. rewrite Hpost1.
    destruct Hpfx as [-> | ->]; reflexivity.
  Qed.

  (** one trimmed step: the rest after the previous marker is [post R] with [R] a tail *)
  Lemma step_trim m ls T R : marker_okb m = true -> okb m ls = true -> Forall noNL ls -> head_ok ls = true ->
    shape R -> trim R = trim (NL :: unlines ls ++ NL :: m ++ NL :: T) ->
    sp m (trim (post R)) = Some (body' ls, post (trim_end (NL :: T))).
  Proof.
    intros Hm Ho Hn Hh HR E. rewrite trim_post by auto. rewrite E.
    rewrite trim_section by auto. apply Hstepb; auto. apply shape_trim_end.
  Qed.

  Definition okhead (a : sections) : bool :=
    okb M_DEPENDENCIES (s_root a) && okb M_EXPORTS (s_deps a) && okb M_BINDINGS (s_exports a) &&
    okb M_FUNCTIONS (s_bindings a) && okb M_INDEX_MACROS (s_functions a) && okb M_CODE_MACROS (s_imacros a) &&
    okb M_SPANS (s_cmacros a) && okb M_FILES (s_spans a) && okb M_MACRO_EXPANSIONS (s_files a).

  (** the nine cuts up to MACRO EXPANSIONS, whatever follows that marker line *)
  Theorem head_roundtrip a R9 :
    sections_wf a = true -> okhead a = true ->
    split_head sp (head_text a R9) =
      inr (RawH (unlines (s_root a) ++ [NL]) (pfx ++ unlines (s_deps a) ++ [NL]) (pfx ++ unlines (s_exports a) ++ [NL])
             (body' (s_bindings a)) (body' (s_functions a)) (body' (s_imacros a)) (body' (s_cmacros a))
             (body' (s_spans a)) (body' (s_files a)),
           post (trim_end (NL :: R9))).
  Proof.
    intros Hwf Hok. unfold sections_wf in Hwf. unfold okhead in Hok.
    repeat (match goal with H : _ && _ = true |- _ => apply andb_prop in H; destruct H end).
    repeat (match goal with H : forallb _ _ = true |- _ => rewrite forallb_forall in H; apply Forall_forall in H end).
    destruct a as [root deps exports bindings functions imacros cmacros spans files exps strings asserts].
    cbn [s_root s_deps s_exports s_bindings s_functions s_imacros s_cmacros s_spans s_files s_expansions s_strings s_asserts] in *.
    assert (Mok : forall m, In m markers -> marker_okb m = true).
    { apply forallb_forall. exact markers_ok. }
    assert (M1 := Mok M_DEPENDENCIES ltac:(cbn; tauto)). assert (M2 := Mok M_EXPORTS ltac:(cbn; tauto)).
    assert (M3 := Mok M_BINDINGS ltac:(cbn; tauto)). assert (M4 := Mok M_FUNCTIONS ltac:(cbn; tauto)).
    assert (M5 := Mok M_INDEX_MACROS ltac:(cbn; tauto)). assert (M6 := Mok M_CODE_MACROS ltac:(cbn; tauto)).
    assert (M7 := Mok M_SPANS ltac:(cbn; tauto)). assert (M8 := Mok M_FILES ltac:(cbn; tauto)).
    assert (M9 := Mok M_MACRO_EXPANSIONS ltac:(cbn; tauto)).
    clear Mok.
    set (T9 := NL :: R9).
    set (T8 := NL :: unlines files ++ NL :: M_MACRO_EXPANSIONS ++ T9).
    set (T7 := NL :: unlines spans ++ NL :: M_FILES ++ T8).
    set (T6 := NL :: unlines cmacros ++ NL :: M_SPANS ++ T7).
    set (T5 := NL :: unlines imacros ++ NL :: M_CODE_MACROS ++ T6).
    set (T4 := NL :: unlines functions ++ NL :: M_INDEX_MACROS ++ T5).
    set (T3 := NL :: unlines bindings ++ NL :: M_FUNCTIONS ++ T4).
    set (T2 := NL :: unlines exports ++ NL :: M_BINDINGS ++ T3).
    set (T1 := NL :: unlines deps ++ NL :: M_EXPORTS ++ T2).
    assert (Etext : head_text (Sections root deps exports bindings functions imacros cmacros spans files exps strings asserts) R9
                    = unlines root ++ NL :: M_DEPENDENCIES ++ T1) by reflexivity.
    assert (Hspans : Forall noNL spans).
    { match goal with H : Forall (fun x => span_line_ok x = true) spans |- _ => revert H end.
      apply Forall_impl. apply span_line_ok_noNL. }
    unfold split_head. rewrite Etext.
    rewrite Hstep0; [| auto | auto | apply Forall_noNL; auto | right; eexists; reflexivity].
    unfold T1 at 1. rewrite Hpost1.
    rewrite Hstep; [| auto | auto | apply Forall_noNL; auto | right; eexists; reflexivity].
    unfold T2 at 1. rewrite Hpost1.
    rewrite Hstep; [| auto | auto | apply Forall_noNL; auto | right; eexists; reflexivity].
    rewrite (step_trim M_FUNCTIONS bindings (unlines functions ++ NL :: M_INDEX_MACROS ++ T5) T3);
      [| auto | auto | apply Forall_noNL; auto | auto | right; eexists; reflexivity | reflexivity].
    fold T4.
    rewrite (step_trim M_INDEX_MACROS functions (unlines imacros ++ NL :: M_CODE_MACROS ++ T6) (trim_end T4));
      [| auto | auto | apply Forall_noNL; auto | auto | apply shape_trim_end | rewrite trim_trim_end; reflexivity].
    fold T5.
    rewrite (step_trim M_CODE_MACROS imacros (unlines cmacros ++ NL :: M_SPANS ++ T7) (trim_end T5));
      [| auto | auto | apply Forall_noNL; auto | auto | apply shape_trim_end | rewrite trim_trim_end; reflexivity].
    fold T6.
    rewrite (step_trim M_SPANS cmacros (unlines spans ++ NL :: M_FILES ++ T8) (trim_end T6));
      [| auto | auto | apply Forall_noNL; auto | auto | apply shape_trim_end | rewrite trim_trim_end; reflexivity].
    fold T7.
    rewrite (step_trim M_FILES spans (unlines files ++ NL :: M_MACRO_EXPANSIONS ++ T9) (trim_end T7));
      [| auto | auto | auto | auto | apply shape_trim_end | rewrite trim_trim_end; reflexivity].
    fold T8.
    rewrite (step_trim M_MACRO_EXPANSIONS files R9 (trim_end T8));
      [| auto | auto | apply Forall_noNL; auto | auto | apply shape_trim_end | rewrite trim_trim_end; reflexivity].
    reflexivity.
  Qed.

  (** the lines of the nine sections *)
  Lemma head_sections_eq a e st ta : sections_wf a = true ->
    head_sections (RawH (unlines (s_root a) ++ [NL]) (pfx ++ unlines (s_deps a) ++ [NL]) (pfx ++ unlines (s_exports a) ++ [NL])
             (body' (s_bindings a)) (body' (s_functions a)) (body' (s_imacros a)) (body' (s_cmacros a))
             (body' (s_spans a)) (body' (s_files a))) e st ta =
    Sections (s_root a) (s_deps a) (s_exports a) (s_bindings a) (s_functions a) (s_imacros a) (s_cmacros a)
      (match s_spans a with [] => [] | l => l ++ [[]] end) (s_files a) e st ta.
  Proof.
    intros Hwf. unfold sections_wf in Hwf.
    repeat (match goal with H : _ && _ = true |- _ => apply andb_prop in H; destruct H end).
    repeat (match goal with H : forallb _ _ = true |- _ => rewrite forallb_forall in H; apply Forall_forall in H end).
    unfold head_sections. cbn [r_root r_deps r_exports r_bindings r_functions r_imacros r_cmacros r_spans r_files].
    rewrite !lines_ne_pfx, !lines_ne_body', span_lines_body' by auto.
    rewrite lines_ne_root by auto.
    destruct (s_spans a); reflexivity.
  Qed.

  (** the readers before 69a2f06 on the text written before 69a2f06 *)
  Theorem cascade_roundtrip a :
    sections_wf a = true -> okhead a = true -> okb M_STRING_INPUTS (s_expansions a) = true ->
    from_uasm_with sp (to_uasm_pre a) = inr (reread_pre a).
  Proof.
    intros Hwf Hok Hoe.
    assert (M10 : marker_okb M_STRING_INPUTS = true) by reflexivity.
    set (T10 := match s_strings a with [] => [] | _ => NL :: M_STRING_INPUTS ++ NL :: unlines (s_strings a) end).
    assert (Etext : to_uasm_pre a = head_text a (unlines (s_expansions a) ++ T10)).
    { unfold to_uasm_pre, head_text, mark. subst T10. destruct (s_strings a); cbn [app]; repeat rewrite <- app_assoc; cbn [app]; reflexivity. }
    unfold from_uasm_with. rewrite Etext, head_roundtrip by auto.
    assert (HSE := fun e st ta => head_sections_eq a e st ta Hwf).
    unfold reread_pre.
    unfold sections_wf in Hwf.
    repeat (match goal with H : _ && _ = true |- _ => apply andb_prop in H; destruct H end).
    repeat (match goal with H : forallb _ _ = true |- _ => rewrite forallb_forall in H; apply Forall_forall in H end).
    rewrite trim_post by apply shape_trim_end. rewrite trim_trim_end.
    subst T10. destruct (s_strings a) as [|s0 ss] eqn:Es.
    - rewrite app_nil_r. rewrite Hnone by auto.
      assert (Eexp : lines_ne (post (trim_end (NL :: unlines (s_expansions a)))) = s_expansions a).
      { destruct (lines_ne_trim_end_nl (s_expansions a)) as [E1 E2]; auto.
        destruct (shape_trim_end (unlines (s_expansions a))) as [E | [Y E]].
        - rewrite E, Hpost0. rewrite E in E1. exact E1.
        - rewrite E, Hpost1. destruct Hpfx as [-> | ->].
          + specialize (E2 _ (eq_sym E)). exact E2.
          + cbn [app]. rewrite <- E. exact E1. }
      rewrite HSE. rewrite Eexp. reflexivity.
    - replace (trim (NL :: unlines (s_expansions a) ++ NL :: M_STRING_INPUTS ++ NL :: unlines (s0 :: ss)))
        with (body' (s_expansions a) ++ M_STRING_INPUTS ++ trim_end (NL :: unlines (s0 :: ss)))
        by (symmetry; apply trim_section; auto).
      rewrite Hstepb; [| auto | auto | apply Forall_noNL; auto | apply shape_trim_end].
      rewrite trim_post by apply shape_trim_end. rewrite trim_trim_end.
      rewrite HSE. rewrite lines_strings by auto. rewrite lines_ne_body' by auto. reflexivity.
  Qed.
End Cascade.

(** ** the reader before 0f91cb1: [split_once] on bare marker words *)
Definition okb_once (m : text) (ls : list text) : bool := negb (contains m (unlines ls)).

Lemma unlines_trim_end ls : ls <> [] -> Forall (fun l => line_ok l = true) ls ->
  exists P, trim_end (unlines ls) = P /\ unlines ls = P ++ [NL].
Proof.
  intros Hne H. destruct (trim_end_unlines ls Hne H) as (init & lastl & E & _ & HT).
  exists (unlines init ++ lastl). split; [exact (HT [])|].
  rewrite E, unlines_app. unfold unlines at 2. cbn [map concat]. rewrite app_nil_r, <- app_assoc. reflexivity.
Qed.

Theorem framing_roundtrip_pre a :
  sections_wf a = true -> no_marker_in_bodies a = true -> from_uasm_pre (to_uasm_pre a) = inr (reread_pre a).
Proof.
  intros Hwf Hno. unfold from_uasm_pre.
  unfold no_marker_in_bodies in Hno. apply andb_prop in Hno. destruct Hno as [Hno1 Hno2].
  apply (cascade_roundtrip split_once [NL] (fun X => X) okb_once); auto.
  - intros m ls X Hm Ho _ _. destruct (marker_facts _ Hm) as (Hne & Hnl & _).
    apply split_once_step; auto. unfold okb_once in Ho. apply negb_true_iff in Ho. exact Ho.
  - intros m ls X Hm Ho _ _. destruct (marker_facts _ Hm) as (Hne & Hnl & _).
    change ([NL] ++ unlines ls ++ NL :: m ++ X) with ((NL :: unlines ls) ++ NL :: m ++ X).
    rewrite split_once_step; auto. unfold okb_once in Ho. apply negb_true_iff in Ho.
    apply contains_nl_cons; auto.
  - intros m ls X Hm Ho _ _. destruct (marker_facts _ Hm) as (Hne & Hnl & _).
    unfold okb_once in Ho. apply negb_true_iff in Ho. destruct ls as [|l ls].
    + cbn [body' app]. rewrite split_once_eq, strip_prefix_app. reflexivity.
    + unfold body'. rewrite <- app_assoc. cbn [app]. apply split_once_step; auto.
  - intros m ls Hm Ho Hls Hh. destruct (marker_facts _ Hm) as (Hne & Hnl & _).
    unfold okb_once in Ho. apply negb_true_iff in Ho. rewrite trim_nl. unfold trim.
    destruct ls as [|l ls].
    + cbn. destruct m; [congruence | reflexivity].
    + assert (Hs : trim_start (unlines (l :: ls)) = unlines (l :: ls)).
      { rewrite unlines_cons. destruct l as [|c l]; [discriminate|]. cbn [head_ok] in Hh.
        apply negb_true_iff in Hh. cbn [app trim_start]. rewrite Hh. reflexivity. }
      rewrite Hs. destruct (unlines_trim_end (l :: ls)) as (P & -> & EP); [discriminate | auto |].
      destruct (split_once m P) as [[x y]|] eqn:E; [|reflexivity].
      assert (C : contains m (P ++ [NL]) = true) by (apply contains_app; unfold contains; rewrite E; reflexivity).
      rewrite <- EP in C. congruence.
Qed.

(** the current code violates the property: a one-line program whose string constant is a
    marker word.  root = {"push":"DEPENDENCIES"}, string input = "\"DEPENDENCIES\"" *)
Definition refute_witness : sections :=
  Sections [[123;34;112;117;115;104;34;58;34] ++ M_DEPENDENCIES ++ [34;125]] [] [] [] [] [] [] [] [] []
           [34 :: 92 :: 34 :: M_DEPENDENCIES ++ [92;34;34]] [].

Theorem framing_refuted_pre : exists a, sections_wf a = true /\ written_shape a = true /\
  from_uasm_pre (to_uasm_pre a) <> inr (reread_pre a) /\ from_uasm_pre (to_uasm_pre a) <> inr a.
Proof. exists refute_witness. split; [reflexivity|]. split; [reflexivity|]. split; vm_compute; discriminate. Qed.


(** ** the current reader: [split_marker] (whole-line markers) *)
Definition prep (p : text) (o : option (text * text)) : option (text * text) :=
  match o with Some (a, b) => Some (p ++ a, b) | None => None end.

Lemma sm_eq m bol s : split_marker_aux m bol s =
  match (if bol then at_marker m s else None) with
  | Some r => Some ([], r)
  | None => match s with [] => None | c :: s' => prep [c] (split_marker_aux m (c =? NL) s') end
  end.
Proof. destruct s; reflexivity. Qed.

Lemma prep_prep p q o : prep p (prep q o) = prep (p ++ q) o.
Proof. destruct o as [[a b]|]; cbn; [rewrite app_assoc|]; reflexivity. Qed.

Lemma at_marker_cons x m c s : at_marker (x :: m) (c :: s) = if x =? c then at_marker m s else None.
Proof. unfold at_marker. cbn [strip_prefix]. destruct (x =? c); reflexivity. Qed.

Definition tail_shape (T : text) : Prop := T = [] \/ exists Z, T = NL :: Z.

(** a line that is recognised as the marker IS the marker (possibly followed by one CR) *)
Lemma at_marker_line m : forall l T r, ~ In NL m -> noNL l -> tail_shape T ->
  at_marker m (l ++ T) = Some r -> l = m \/ l = m ++ [CR].
Proof.
  induction m as [|x m IH]; intros l T r Hm Hl HT H.
  - destruct l as [|c l]; [left; reflexivity|]. right.
    assert (Hc : (c =? NL) = false).
    { apply N.eqb_neq. intros ->. apply Hl. left; reflexivity. }
    unfold at_marker in H. cbn [strip_prefix app] in H. rewrite Hc in H.
    destruct (c =? CR) eqn:Ec; [|discriminate]. apply N.eqb_eq in Ec. subst c.
    destruct l as [|d l]; [reflexivity|]. cbn [app] in H.
    assert (Hd : (d =? NL) = false).
    { apply N.eqb_neq. intros ->. apply Hl. right; left; reflexivity. }
    rewrite Hd in H. discriminate.
  - assert (Hx : (x =? NL) = false).
    { apply N.eqb_neq. intros ->. apply Hm. left; reflexivity. }
    destruct l as [|c l].
    + cbn [app] in H. destruct HT as [-> | [Z ->]].
      * discriminate.
      * rewrite at_marker_cons, Hx in H. discriminate.
    + cbn [app] in H. rewrite at_marker_cons in H. destruct (x =? c) eqn:E; [|discriminate].
      apply N.eqb_eq in E. subst c.
      destruct (IH l T r) as [-> | ->]; auto.
      * intros Hin; apply Hm; right; auto.
      * intros Hin; apply Hl; right; auto.
Qed.

Lemma text_eqb_refl a : text_eqb a a = true.
Proof. induction a; cbn; [reflexivity | rewrite N.eqb_refl; auto]. Qed.

Lemma strip_cr_snoc m : strip_cr (m ++ [CR]) = m.
Proof.
  induction m as [|x m IH]; [reflexivity|]. cbn [app].
  rewrite strip_cr_cons by (destruct m; discriminate). rewrite IH. reflexivity.
Qed.

Definition not_marker (m l : text) : Prop := text_eqb (strip_cr l) m = false.

Lemma at_marker_none m l T : marker_okb m = true -> noNL l -> not_marker m l -> tail_shape T ->
  at_marker m (l ++ T) = None.
Proof.
  intros Hm Hl Hn HT. destruct (marker_facts _ Hm) as (_ & Hnl & _ & (m0 & d & Em & Wd)).
  destruct (at_marker m (l ++ T)) eqn:E; [|reflexivity]. exfalso.
  apply at_marker_line in E; auto. unfold not_marker in Hn. destruct E as [-> | ->].
  - rewrite Em in Hn. rewrite strip_cr_id in Hn by (intros ->; discriminate).
    rewrite text_eqb_refl in Hn. discriminate.
  - rewrite strip_cr_snoc, text_eqb_refl in Hn. discriminate.
Qed.

Lemma sm_nobol m : forall l Z, noNL l ->
  split_marker_aux m false (l ++ NL :: Z) = prep (l ++ [NL]) (split_marker_aux m true Z).
Proof.
  induction l as [|c l IH]; intros Z Hl.
  - cbn [app]. rewrite sm_eq. rewrite N.eqb_refl. reflexivity.
  - cbn [app]. rewrite sm_eq.
    assert (Hc : (c =? NL) = false).
    { apply N.eqb_neq. intros ->. apply Hl. left; reflexivity. }
    rewrite Hc, IH by (intros Hin; apply Hl; right; auto). rewrite prep_prep. reflexivity.
Qed.

Lemma sm_nobol_none m : forall l, noNL l -> split_marker_aux m false l = None.
Proof.
  induction l as [|c l IH]; intros Hl; [reflexivity|]. rewrite sm_eq.
  assert (Hc : (c =? NL) = false).
  { apply N.eqb_neq. intros ->. apply Hl. left; reflexivity. }
  rewrite Hc, IH by (intros Hin; apply Hl; right; auto). reflexivity.
Qed.

Lemma sm_line m l Z : marker_okb m = true -> noNL l -> not_marker m l ->
  split_marker_aux m true (l ++ NL :: Z) = prep (l ++ [NL]) (split_marker_aux m true Z).
Proof.
  intros Hm Hl Hn. rewrite sm_eq. rewrite at_marker_none by (auto; right; eexists; reflexivity).
  destruct l as [|c l].
  - cbn [app]. rewrite N.eqb_refl. reflexivity.
  - cbn [app].
    assert (Hc : (c =? NL) = false).
    { apply N.eqb_neq. intros ->. apply Hl. left; reflexivity. }
    rewrite Hc, sm_nobol by (intros Hin; apply Hl; right; auto). rewrite prep_prep. reflexivity.
Qed.

Lemma sm_unlines m ls : forall Z, marker_okb m = true -> Forall noNL ls -> Forall (not_marker m) ls ->
  split_marker_aux m true (unlines ls ++ Z) = prep (unlines ls) (split_marker_aux m true Z).
Proof.
  induction ls as [|l ls IH]; intros Z Hm H1 H2.
  - cbn. destruct (split_marker_aux m true Z) as [[? ?]|]; reflexivity.
  - inversion H1; inversion H2; subst. rewrite unlines_cons, <- app_assoc. cbn [app].
    rewrite sm_line, IH by auto. rewrite prep_prep, <- app_assoc. reflexivity.
Qed.

Definition post_nl (X : text) : text := match X with c :: Y => if c =? NL then Y else X | [] => [] end.

Lemma sm_at m X : marker_okb m = true -> shape X -> split_marker_aux m true (m ++ X) = Some ([], post_nl X).
Proof.
  intros Hm HX. rewrite sm_eq. unfold at_marker. rewrite strip_prefix_app.
  destruct HX as [-> | [Y ->]]; [reflexivity|]. rewrite N.eqb_refl. cbn [post_nl]. rewrite N.eqb_refl. reflexivity.
Qed.

Lemma no_line_is_Forall m ls : no_line_is m ls = true -> Forall (not_marker m) ls.
Proof.
  unfold no_line_is. intros H. apply negb_true_iff in H. apply Forall_forall. intros l Hin.
  unfold not_marker. destruct (text_eqb (strip_cr l) m) eqn:E; [|reflexivity].
  assert (existsb (fun l => text_eqb (strip_cr l) m) ls = true); [|congruence].
  apply existsb_exists. exists l. auto.
Qed.

Lemma sm_step m ls X : marker_okb m = true -> no_line_is m ls = true -> Forall noNL ls -> shape X ->
  split_marker m (unlines ls ++ NL :: m ++ X) = Some (unlines ls ++ [NL], post_nl X).
Proof.
  intros Hm Ho Hn HX. unfold split_marker. rewrite sm_unlines by (auto using no_line_is_Forall).
  destruct (marker_facts _ Hm) as (Hne & Hnl & _).
  rewrite sm_eq. unfold at_marker at 1. rewrite strip_prefix_nl by auto.
  rewrite N.eqb_refl, sm_at by auto. reflexivity.
Qed.

(** the markers consist of marker characters; a line with another character is not one *)
Lemma markers_chars : forallb (forallb is_marker_char) markers = true.
Proof. reflexivity. Qed.

Lemma has_low_not_marker m l : forallb is_marker_char m = true -> has_low l = true ->
  strip_cr l = l -> not_marker m l.
Proof.
  intros Hm Hl Hs. unfold not_marker. rewrite Hs.
  destruct (text_eqb l m) eqn:E; [|reflexivity]. exfalso.
  assert (l = m).
  { clear -E. revert m E. induction l as [|x l IH]; intros [|y m] E; cbn in E; try discriminate; [reflexivity|].
    apply andb_prop in E. destruct E as [E1 E2]. apply N.eqb_eq in E1. f_equal; auto. }
  subst l. unfold has_low in Hl. apply existsb_exists in Hl. destruct Hl as (c & Hin & Hc).
  rewrite forallb_forall in Hm. rewrite (Hm _ Hin) in Hc. discriminate.
Qed.

Lemma shape_no_line_is m ls : forallb is_marker_char m = true ->
  Forall (fun l => line_ok l = true) ls -> forallb has_low ls = true -> no_line_is m ls = true.
Proof.
  intros Hm H1 H2. unfold no_line_is. apply negb_true_iff.
  destruct (existsb (fun l => text_eqb (strip_cr l) m) ls) eqn:E; [|reflexivity]. exfalso.
  apply existsb_exists in E. destruct E as (l & Hin & El).
  rewrite Forall_forall in H1. rewrite forallb_forall in H2.
  pose proof (has_low_not_marker m l Hm (H2 _ Hin) (line_ok_strip_cr _ (H1 _ Hin))) as Hn.
  unfold not_marker in Hn. congruence.
Qed.

Lemma span_shape_no_line_is m ls : forallb is_marker_char m = true -> m <> [] ->
  forallb span_shape ls = true -> no_line_is m ls = true.
Proof.
  intros Hm Hne H2. unfold no_line_is. apply negb_true_iff.
  destruct (existsb (fun l => text_eqb (strip_cr l) m) ls) eqn:E; [|reflexivity]. exfalso.
  apply existsb_exists in E. destruct E as (l & Hin & El).
  rewrite forallb_forall in H2. specialize (H2 _ Hin). unfold span_shape in H2.
  destruct l as [|c l].
  - destruct m; [congruence | discriminate].
  - apply andb_prop in H2. destruct H2 as [Hl Hw].
    destruct (rev (c :: l)) as [|d r] eqn:Er; [discriminate|]. apply negb_true_iff in Hw.
    assert (Es : strip_cr (c :: l) = c :: l).
    { rewrite <- (rev_involutive (c :: l)), Er. cbn [rev]. apply strip_cr_id. intros ->. discriminate. }
    pose proof (has_low_not_marker m (c :: l) Hm Hl Es) as Hn. unfold not_marker in Hn. congruence.
Qed.

(** C17 for the current code: no premise about the contents, only the shape of written lines *)
(** the step specifications of [cascade] for [split_marker] *)
Lemma sm_stepb m ls X : marker_okb m = true -> no_line_is m ls = true -> Forall noNL ls -> shape X ->
  split_marker m (body' ls ++ m ++ X) = Some (body' ls, post_nl X).
Proof.
  intros Hm Ho Hn HX. destruct ls as [|l ls].
  - cbn [body' app]. apply sm_at; auto.
  - unfold body'. rewrite <- app_assoc. cbn [app]. apply sm_step; auto.
Qed.

Lemma trim_end_unlines_last init l : line_ok l = true ->
  forall P, trim_end (P ++ unlines (init ++ [l])) = P ++ unlines init ++ l.
Proof.
  intros Hl P. apply line_ok_facts in Hl. destruct Hl as (_ & _ & l0 & c & -> & W).
  rewrite unlines_app. unfold unlines at 2. cbn [map concat]. rewrite app_nil_r.
  replace (P ++ unlines init ++ (l0 ++ [c]) ++ [NL]) with ((P ++ unlines init ++ l0) ++ c :: [NL])
    by (rewrite <- !app_assoc; reflexivity).
  rewrite trim_end_nonws by auto. change (trim_end [NL]) with (@nil N). rewrite <- !app_assoc. reflexivity.
Qed.

(** no marker line in a text whose lines are not the marker (the last line without its newline) *)
Lemma sm_none_lines m L : marker_okb m = true -> Forall noNL L -> Forall (not_marker m) L ->
  (L = [] \/ exists init l, L = init ++ [l] /\ line_ok l = true) ->
  split_marker m (trim_end (unlines L)) = None.
Proof.
  intros Hm Hn Hnm [-> | (init & l & -> & Hl)]; destruct (marker_facts _ Hm) as (Hne & Hnl & _).
  - change (trim_end (unlines [])) with (@nil N). unfold split_marker. rewrite sm_eq. unfold at_marker.
    destruct m; [congruence | reflexivity].
  - pose proof (trim_end_unlines_last init l Hl []) as HT. cbn [app] in HT. rewrite HT.
    apply Forall_app in Hn. apply Forall_app in Hnm. destruct Hn as [Hn1 Hn2]. destruct Hnm as [Hm1 Hm2].
    inversion Hn2; inversion Hm2; subst. unfold split_marker.
    rewrite sm_unlines by auto. rewrite sm_eq.
    rewrite <- (app_nil_r l) at 1. rewrite at_marker_none by (auto; left; reflexivity).
    destruct l as [|c l]; [reflexivity|].
    assert (Hc : (c =? NL) = false).
    { apply N.eqb_neq. intros ->. match goal with H : noNL (NL :: _) |- _ => apply H end. left; reflexivity. }
    rewrite Hc, sm_nobol_none; [reflexivity|].
    intros Hin. match goal with H : noNL (c :: _) |- _ => apply H end. right; auto.
Qed.

Lemma head_ok_trim_start ls : head_ok ls = true -> trim_start (unlines ls) = unlines ls.
Proof.
  intros Hh. destruct ls as [|l ls]; [reflexivity|]. rewrite unlines_cons.
  destruct l as [|c l]; [discriminate|]. cbn [head_ok] in Hh. apply negb_true_iff in Hh.
  cbn [app trim_start]. rewrite Hh. reflexivity.
Qed.

Lemma last_line_ok ls : ls <> [] -> Forall (fun l => line_ok l = true) ls ->
  forall A, exists init l, A ++ ls = init ++ [l] /\ line_ok l = true.
Proof.
  intros Hne H A. destruct (exists_last Hne) as (i & l & ->).
  apply Forall_app in H. destruct H as [_ H]. inversion H; subst.
  exists (A ++ i), l. rewrite app_assoc. auto.
Qed.

Lemma sm_none m ls : marker_okb m = true -> no_line_is m ls = true ->
  Forall (fun l => line_ok l = true) ls -> head_ok ls = true -> split_marker m (trim (NL :: unlines ls)) = None.
Proof.
  intros Hm Ho Hls Hh. rewrite trim_nl. unfold trim. rewrite head_ok_trim_start by auto.
  apply sm_none_lines; auto using Forall_noNL, no_line_is_Forall.
  destruct ls as [|l ls]; [left; reflexivity | right].
  apply (last_line_ok (l :: ls) ltac:(discriminate) Hls []).
Qed.

Lemma trim_post_nl X : shape X -> trim (post_nl X) = trim X.
Proof. intros [-> | [Y ->]]; [reflexivity|]. cbn [post_nl]. rewrite N.eqb_refl. reflexivity. Qed.

(** the reader between 0f91cb1 and 69a2f06 on the text written then (record) *)
Theorem framing_roundtrip_mid a :
  sections_wf a = true -> written_shape a = true -> from_uasm_mid (to_uasm_pre a) = inr (reread_pre a).
Proof.
  intros Hwf Hsh. unfold from_uasm_mid.
  pose proof Hwf as Hwf0.
  unfold sections_wf in Hwf. unfold written_shape in Hsh.
  repeat (match goal with H : _ && _ = true |- _ => apply andb_prop in H; destruct H end).
  repeat (match goal with H : forallb line_ok _ = true |- _ => rewrite forallb_forall in H; apply Forall_forall in H end).
  assert (Mc : forall m, In m markers -> forallb is_marker_char m = true).
  { apply forallb_forall. exact markers_chars. }
  apply (cascade_roundtrip split_marker [] post_nl no_line_is); auto.
  - intros m ls X Hm Ho Hn HX. apply sm_step; auto.
  - intros m ls X Hm Ho Hn HX. cbn [app]. apply sm_step; auto.
  - intros; apply sm_stepb; auto.
  - intros; apply sm_none; auto.
  - unfold okhead.
    repeat (apply andb_true_intro; split);
      first [ apply shape_no_line_is; [apply Mc; cbn; tauto | assumption | assumption]
            | apply span_shape_no_line_is; [apply Mc; cbn; tauto | discriminate | assumption] ].
  - apply shape_no_line_is; [apply Mc; cbn; tauto | assumption | assumption].
Qed.

(** ** the current reader: TEST ASSERTS is cut off first, then STRING INPUTS *)
Lemma trim_end_ws X w : is_ws w = true -> trim_end (X ++ [w]) = trim_end X.
Proof.
  intros W. induction X as [|x X IH]; cbn [app].
  - cbn. rewrite W. reflexivity.
  - rewrite trim_end_eq, IH. rewrite (trim_end_eq (x :: X)). reflexivity.
Qed.

Lemma trim_start_end' s : trim s = trim_start (trim_end s).
Proof. unfold trim. symmetry. apply trim_start_end. Qed.

Lemma trim_app_nl X : trim (X ++ [NL]) = trim X.
Proof. rewrite !trim_start_end'. rewrite trim_end_ws by reflexivity. reflexivity. Qed.

Lemma trim_start_idem s : trim_start (trim_start s) = trim_start s.
Proof.
  induction s as [|c s IH]; [reflexivity|]. cbn [trim_start]. destruct (is_ws c) eqn:W; [exact IH|].
  cbn [trim_start]. rewrite W. reflexivity.
Qed.

Lemma trim_trim_start s : trim (trim_start s) = trim s.
Proof. unfold trim. rewrite trim_start_idem. reflexivity. Qed.

(** trimming the start of  P "\n" MARKER Z  never eats into the marker *)
Lemma trim_start_app_marker m Z : (exists c m', m = c :: m' /\ is_ws c = false) ->
  forall P, trim_start (P ++ NL :: m ++ Z) = trim_start (P ++ [NL]) ++ m ++ Z.
Proof.
  intros (c & m' & -> & W). induction P as [|x P IH].
  - cbn [app]. change (trim_start (NL :: (c :: m') ++ Z)) with (trim_start ((c :: m') ++ Z)).
    cbn [app trim_start]. rewrite W. reflexivity.
  - cbn [app trim_start]. destruct (is_ws x); [exact IH |].
    cbn [app]. rewrite <- app_assoc. reflexivity.
Qed.

Fixpoint dropblank (L : list text) : list text :=
  match L with [] :: t => dropblank t | _ => L end.

Lemma trim_start_unlines L : head_ok (dropblank L) = true -> trim_start (unlines L) = unlines (dropblank L).
Proof.
  induction L as [|l L IH]; intros H; [reflexivity|]. destruct l as [|c l].
  - cbn [dropblank] in *. rewrite unlines_cons. cbn [app]. change (trim_start (NL :: unlines L)) with (trim_start (unlines L)). auto.
  - cbn [dropblank] in *. apply head_ok_trim_start. exact H.
Qed.

Lemma sm_lines_at m L X : marker_okb m = true -> Forall noNL L -> Forall (not_marker m) L -> shape X ->
  split_marker m (unlines L ++ m ++ X) = Some (unlines L, post_nl X).
Proof.
  intros Hm H1 H2 HX. unfold split_marker. rewrite sm_unlines, sm_at by auto. cbn [prep]. rewrite app_nil_r. reflexivity.
Qed.

Definition SI (ss : list text) : text := match ss with [] => [] | _ => NL :: M_STRING_INPUTS ++ NL :: unlines ss end.
Definition SIl (ss : list text) : list text := match ss with [] => [] | _ => [] :: M_STRING_INPUTS :: ss end.
Definition TA (ts : list text) : text := match ts with [] => [] | _ => NL :: M_TEST_ASSERTS ++ NL :: unlines ts end.

Lemma SI_unlines ss : SI ss = unlines (SIl ss).
Proof.
  destruct ss as [|s0 ss]; [reflexivity|]. unfold SI, SIl.
  rewrite (unlines_cons [] ), (unlines_cons M_STRING_INPUTS). reflexivity.
Qed.

(** the STRING INPUTS cut on a text [R] that trims like  "\n" exps [ "\nSTRING INPUTS\n" ss ] *)
Lemma si_step exps ss R :
  Forall (fun l => line_ok l = true) exps -> head_ok exps = true -> no_line_is M_STRING_INPUTS exps = true ->
  Forall (fun l => line_ok l = true) ss -> head_ok ss = true ->
  trim R = trim (NL :: unlines exps ++ SI ss) -> (ss = [] -> lines_ne R = exps) ->
  match (match split_marker M_STRING_INPUTS (trim R) with Some p => p | None => (R, []) end) with
  | (e, r') => lines_ne e = exps /\ lines (trim r') = ss end.
Proof.
  intros He Hhe Hoe Hs Hhs H1 H2. rewrite H1.
  assert (Hm : marker_okb M_STRING_INPUTS = true) by reflexivity.
  destruct ss as [|s0 ss].
  - cbn [SI]. rewrite app_nil_r, sm_none by auto. split; [auto | reflexivity].
  - unfold SI. rewrite trim_section by auto.
    rewrite sm_stepb; [| auto | auto | apply Forall_noNL; auto | apply shape_trim_end].
    split; [apply lines_ne_body'; auto|].
    rewrite trim_post_nl by apply shape_trim_end. rewrite trim_trim_end. apply lines_strings; auto.
Qed.

Lemma lines_ne_unlines ls : Forall (fun l => line_ok l = true) ls -> lines_ne (unlines ls) = ls.
Proof.
  intros H. apply (lines_ne_pieces _ [] [[]]); auto.
  rewrite <- (app_nil_r (unlines ls)). rewrite split_nl_unlines by (apply Forall_noNL; auto). reflexivity.
Qed.

Lemma dropblank_Forall {Q : text -> Prop} L : Forall Q L -> Forall Q (dropblank L).
Proof. induction 1 as [|l L Hl HL IH]; [constructor|]. destruct l; cbn [dropblank]; auto. Qed.

Lemma trim_end_marker m A Z : marker_okb m = true -> trim_end (A ++ m ++ Z) = A ++ m ++ trim_end Z.
Proof.
  intros Hm. destruct (marker_facts _ Hm) as (_ & _ & _ & (m0 & d & -> & Wd)).
  replace (A ++ (m0 ++ [d]) ++ Z) with ((A ++ m0) ++ d :: Z) by (rewrite <- !app_assoc; reflexivity).
  rewrite trim_end_nonws by auto. rewrite <- !app_assoc. reflexivity.
Qed.

(** the lines after MACRO EXPANSIONS (a blank line, the expansions, the STRING INPUTS part, and
    possibly one more blank line) once the leading blank lines are dropped *)
Lemma drop_LP exps ss tl : head_ok exps = true -> Forall (fun l => line_ok l = true) exps ->
  Forall (fun l => line_ok l = true) ss -> (tl = [] \/ tl = [[]]) ->
  exists Lx, dropblank (([] :: exps ++ SIl ss) ++ tl) = Lx /\ head_ok Lx = true /\
    (tl = [] -> Lx = [] \/ exists init l, Lx = init ++ [l] /\ line_ok l = true) /\
    (ss = [] -> lines_ne (unlines Lx) = exps).
Proof.
  intros Hh He Hs Htl. destruct exps as [|e0 es].
  - destruct ss as [|s0 ss'].
    + exists []. split; [destruct Htl as [-> | ->]; reflexivity|]. repeat split; auto.
    + exists ((M_STRING_INPUTS :: s0 :: ss') ++ tl). split; [reflexivity|]. split; [reflexivity|]. split.
      * intros ->. right. rewrite app_nil_r.
        apply (last_line_ok (s0 :: ss') ltac:(discriminate) Hs [M_STRING_INPUTS]).
      * discriminate.
  - exists ((e0 :: es ++ SIl ss) ++ tl). split.
    { destruct e0 as [|c e0]; [discriminate | reflexivity]. }
    split.
    { destruct e0 as [|c e0]; [discriminate | exact Hh]. }
    split.
    + intros ->. right. rewrite app_nil_r. destruct ss as [|s0 ss'].
      * cbn [SIl]. rewrite app_nil_r. apply (last_line_ok (e0 :: es) ltac:(discriminate) He []).
      * unfold SIl. change ([] :: M_STRING_INPUTS :: s0 :: ss') with ([[]; M_STRING_INPUTS] ++ (s0 :: ss')).
        change (e0 :: es ++ [[]; M_STRING_INPUTS] ++ s0 :: ss') with ((e0 :: es) ++ [[]; M_STRING_INPUTS] ++ (s0 :: ss')).
        rewrite app_assoc. apply (last_line_ok (s0 :: ss') ltac:(discriminate) Hs).
    + intros ->. cbn [SIl]. rewrite app_nil_r. destruct Htl as [-> | ->].
      * rewrite app_nil_r. apply lines_ne_unlines; auto.
      * rewrite unlines_app. apply lines_ne_root; auto.
Qed.

Lemma not_marker_nil m : m <> [] -> not_marker m [].
Proof. intros H. unfold not_marker. destruct m; [congruence | reflexivity]. Qed.

Theorem framing_roundtrip a :
  sections_wf a = true -> written_shape a = true -> from_uasm (to_uasm a) = inr (reread a).
Proof.
  intros Hwf Hsh. unfold from_uasm.
  assert (HSE := fun e st ta => head_sections_eq [] (or_introl eq_refl) a e st ta Hwf).
  pose proof Hwf as Hwf0.
  unfold sections_wf in Hwf. unfold written_shape in Hsh.
  repeat (match goal with H : _ && _ = true |- _ => apply andb_prop in H; destruct H end).
  repeat (match goal with H : forallb line_ok _ = true |- _ => rewrite forallb_forall in H; apply Forall_forall in H end).
  assert (Mc : forall m, In m markers -> forallb is_marker_char m = true).
  { apply forallb_forall. exact markers_chars. }
  assert (Hokh : okhead no_line_is a = true).
  { unfold okhead.
    repeat (apply andb_true_intro; split);
      first [ apply shape_no_line_is; [apply Mc; cbn; tauto | assumption | assumption]
            | apply span_shape_no_line_is; [apply Mc; cbn; tauto | discriminate | assumption] ]. }
  assert (Etext : to_uasm a = head_text a (unlines (s_expansions a) ++ SI (s_strings a) ++ TA (s_asserts a))).
  { unfold to_uasm, to_uasm_pre, head_text, mark, SI, TA.
    destruct (s_strings a), (s_asserts a); repeat (first [rewrite <- app_assoc | progress (cbn [app])]); rewrite ?app_nil_r; reflexivity. }
  set (exps := s_expansions a) in *. set (ss := s_strings a) in *. set (ts := s_asserts a) in *.
  assert (MTA : marker_okb M_TEST_ASSERTS = true) by reflexivity.
  assert (Hoe : no_line_is M_STRING_INPUTS exps = true) by (apply shape_no_line_is; [apply Mc; cbn; tauto | assumption | assumption]).
  assert (HeTA : Forall (not_marker M_TEST_ASSERTS) exps)
    by (apply no_line_is_Forall, shape_no_line_is; [apply Mc; cbn; tauto | assumption | assumption]).
  assert (HsTA : Forall (not_marker M_TEST_ASSERTS) ss)
    by (apply no_line_is_Forall, shape_no_line_is; [apply Mc; cbn; tauto | assumption | assumption]).
  assert (Hen : Forall noNL exps) by (apply Forall_noNL; auto).
  assert (Hsn : Forall noNL ss) by (apply Forall_noNL; auto).
  (* the text *)
  set (P := NL :: unlines exps ++ SI ss).
  rewrite Etext.
  rewrite (head_roundtrip split_marker [] post_nl no_line_is); auto;
    [| intros m ls X Hm Ho Hn HX; apply sm_step; auto
     | intros m ls X Hm Ho Hn HX; cbn [app]; apply sm_step; auto
     | intros; apply sm_stepb; auto ].
  replace (NL :: unlines exps ++ SI ss ++ TA ts) with (P ++ TA ts) by (unfold P; cbn [app]; rewrite <- app_assoc; reflexivity).
  (* the lines of P *)
  set (LP := [] :: exps ++ SIl ss).
  assert (EP : P = unlines LP).
  { unfold P, LP. rewrite unlines_cons, unlines_app, SI_unlines. reflexivity. }
  assert (HLPn : Forall noNL LP).
  { unfold LP. constructor; [intros []|]. apply Forall_app. split; [auto|].
    unfold SIl. destruct ss; [constructor|]. constructor; [intros []|]. constructor; [|auto].
    apply existsb_nl_false. reflexivity. }
  assert (HLPm : Forall (not_marker M_TEST_ASSERTS) LP).
  { unfold LP. constructor; [apply not_marker_nil; discriminate|]. apply Forall_app. split; [auto|].
    unfold SIl. destruct ss; [constructor|]. constructor; [apply not_marker_nil; discriminate|].
    constructor; [reflexivity | auto]. }
  rewrite trim_post_nl by (unfold P; apply shape_trim_end). rewrite trim_trim_end.
  destruct ts as [|t0 ts'] eqn:Ets.
  - (* no TEST ASSERTS section *)
    cbn [TA]. rewrite app_nil_r.
    destruct (drop_LP exps ss []) as (Lx & ELx & HhLx & HlastLx & HneLx); auto.
    rewrite app_nil_r in ELx. fold LP in ELx.
    assert (Enone : split_marker M_TEST_ASSERTS (trim P) = None).
    { unfold trim. rewrite EP, trim_start_unlines by (rewrite ELx; exact HhLx). rewrite ELx.
      apply sm_none_lines; auto; rewrite <- ELx; apply dropblank_Forall; auto. }
    rewrite Enone.
    pose proof (si_step exps ss (post_nl (trim_end P))) as Hsi.
    assert (Ht1 : trim (post_nl (trim_end P)) = trim (NL :: unlines exps ++ SI ss)).
    { rewrite trim_post_nl by (unfold P; apply shape_trim_end). rewrite trim_trim_end. reflexivity. }
    assert (Ht2 : ss = [] -> lines_ne (post_nl (trim_end P)) = exps).
    { intros Ess. unfold P. rewrite Ess. cbn [SI]. rewrite app_nil_r.
      destruct (lines_ne_trim_end_nl exps) as [E1 E2]; auto.
      destruct (shape_trim_end (unlines exps)) as [E | [Y E]].
      - rewrite E. rewrite E in E1. exact E1.
      - rewrite E. cbn [post_nl]. rewrite N.eqb_refl. exact (E2 _ (eq_sym E)). }
    specialize (Hsi ltac:(auto) ltac:(auto) Hoe ltac:(auto) ltac:(auto) Ht1 Ht2).
    destruct (match split_marker M_STRING_INPUTS (trim (post_nl (trim_end P))) with
              | Some p => p | None => (post_nl (trim_end P), []) end) as [e r'].
    destruct Hsi as [Hsi1 Hsi2]. rewrite HSE, Hsi1, Hsi2.
    unfold reread. fold exps ss ts. rewrite Ets. reflexivity.
  - (* a TEST ASSERTS section *)
    set (Z := NL :: unlines (t0 :: ts')).
    destruct (drop_LP exps ss [[]]) as (Lx & ELx & HhLx & _ & HneLx); auto.
    fold LP in ELx.
    assert (EPnl : trim_start (P ++ [NL]) = unlines Lx).
    { rewrite EP. change [NL] with (unlines [[]]). rewrite <- unlines_app.
      rewrite <- ELx. apply trim_start_unlines. rewrite ELx. exact HhLx. }
    assert (Etrim : trim (P ++ TA (t0 :: ts')) = unlines Lx ++ M_TEST_ASSERTS ++ trim_end Z).
    { unfold trim, TA. fold Z. rewrite trim_start_app_marker by (do 2 eexists; split; reflexivity).
      rewrite EPnl. apply trim_end_marker. reflexivity. }
    rewrite Etrim.
    rewrite sm_lines_at; [| auto | rewrite <- ELx; apply dropblank_Forall; apply Forall_app; split; [auto | constructor; [intros [] | constructor]]
                           | rewrite <- ELx; apply dropblank_Forall; apply Forall_app; split; [auto | constructor; [apply not_marker_nil; discriminate | constructor]]
                           | apply shape_trim_end ].
    pose proof (si_step exps ss (unlines Lx)) as Hsi.
    assert (Ht1 : trim (unlines Lx) = trim (NL :: unlines exps ++ SI ss)).
    { rewrite <- EPnl, trim_trim_start, trim_app_nl. reflexivity. }
    specialize (Hsi ltac:(auto) ltac:(auto) Hoe ltac:(auto) ltac:(auto) Ht1 HneLx).
    destruct (match split_marker M_STRING_INPUTS (trim (unlines Lx)) with
              | Some p => p | None => (unlines Lx, []) end) as [e r'].
    destruct Hsi as [Hsi1 Hsi2]. rewrite HSE, Hsi1, Hsi2.
    unfold Z. rewrite trim_post_nl by apply shape_trim_end. rewrite trim_trim_end.
    rewrite lines_strings by auto.
    unfold reread. fold exps ss ts. rewrite Ets. reflexivity.
Qed.

(** the refutation witness of the old reader is read back by the current one, and so is an
    assembly with test assertions *)
Example current_reads_witness : from_uasm (to_uasm refute_witness) = inr (reread refute_witness).
Proof. apply framing_roundtrip; reflexivity. Qed.

(** an assembly with one test assertion: the reader before 69a2f06 gives the count 0 back *)
Definition asserts_witness : sections :=
  Sections [[91;34;84;69;83;84;95;65;83;83;69;82;84;34;44;49;93]] [] [] [] [] [] [] [] [] [] [[34;97;34]] [[49]].
Theorem test_asserts_lost_pre : exists a, sections_wf a = true /\ written_shape a = true /\
  from_uasm_mid (to_uasm_pre a) <> inr (reread a).
Proof.
  exists asserts_witness. split; [reflexivity|]. split; [reflexivity|].
  rewrite framing_roundtrip_mid by reflexivity. discriminate.
Qed.
Example current_reads_asserts : from_uasm (to_uasm asserts_witness) = inr (reread asserts_witness).
Proof. apply framing_roundtrip; reflexivity. Qed.
