(** C13 — list helpers and the shape of a step of the model *)
From Coq Require Import List NArith Bool Arith Lia.
From UV Require Import Model.Pool.
Import ListNotations.

Lemma upd_length {A} n (x : A) l : length (upd n x l) = length l.
Proof. revert n; induction l; intros [|n]; simpl; auto. Qed.

Lemma nth_upd_eq {A} n (x : A) l : n < length l -> nth_error (upd n x l) n = Some x.
Proof. revert n; induction l; intros [|n] H; simpl in *; try lia; auto. apply IHl; lia. Qed.

Lemma nth_upd_neq {A} n m (x : A) l : n <> m -> nth_error (upd n x l) m = nth_error l m.
Proof. revert n m; induction l; intros [|n] [|m] H; simpl; auto; try congruence. Qed.

Lemma nth_some_lt {A} (l : list A) n x : nth_error l n = Some x -> n < length l.
Proof. intros H. apply nth_error_Some. congruence. Qed.

Lemma map_upd {A B} (f : A -> B) n x l : map f (upd n x l) = upd n (f x) (map f l).
Proof. revert n; induction l; intros [|n]; simpl; auto. f_equal; auto. Qed.

Lemma upd_same_fst {A B} n (k : A) (a b : B) l :
  nth_error l n = Some (k, a) -> map fst (upd n (k, b) l) = map fst l.
Proof. revert n; induction l; intros [|n] H; simpl in *; try discriminate; auto.
  - inversion H; subst; auto.
  - f_equal; auto. Qed.

Lemma nth_app_l {A : Type} (l r : list A) (n : nat) : n < length l -> nth_error (l ++ r) n = nth_error l n.
Proof. intros; apply nth_error_app1; auto. Qed.

Lemma nth_app_new {A} (l : list A) x : nth_error (l ++ [x]) (length l) = Some x.
Proof. rewrite nth_error_app2 by lia. rewrite Nat.sub_diag. reflexivity. Qed.

(** view of the children for the sequential evaluator *)
Definition kview (ts : list thread) (kids : list (nat * bool)) : list (option res) :=
  map (fun kw : nat * bool => if snd kw then (None : option res)
                 else match nth_error ts (fst kw) with Some kt => Some (t_spec kt) | None => None end) kids.

Definition same_meta (th th' : thread) : Prop :=
  t_poolk th' = t_poolk th /\ t_inpool th' = t_inpool th /\ t_spec th' = t_spec th /\ t_st th' = t_st th.

Definition residual (th th' : thread) : Prop :=
  exists i c, t_code th = i :: c /\
    (t_code th' = c \/ (exists n, t_code th' = Work n :: c) \/ (exists d t a, t_code th' = WaitAll d t a :: c)).

(** children that ended have the result their specification says *)
Definition kids_ok (ts : list thread) : Prop :=
  forall k kt r, nth_error ts k = Some kt -> t_st kt = Done r -> t_spec kt = r.

Definition dview (ts : list thread) (th : thread) : res := seqev (t_code th) (t_stack th) (kview ts (t_kids th)).

Definition nofork (th : thread) : Prop :=
  match t_code th with Fork _ _ _ :: _ => False | _ => True end.

Inductive shape (st : state) (t : nat) (th : thread) (st' : state) : Prop :=
| ShLocal th' : t_st th = Running -> st' = set_thr st t th' -> same_meta th th' ->
    map fst (t_kids th') = map fst (t_kids th) -> residual th th' ->
    (kids_ok (thr st) -> dview (thr st) th' = dview (thr st) th) -> nofork th -> shape st t th st'
| ShFin r : t_st th = Running -> st' = fin st t th r ->
    (kids_ok (thr st) -> pure (t_code th) = true -> dview (thr st) th = r) ->
    (forall p k b c, t_code th = Fork p k b :: c -> (length (t_stack th) <? k) = true) -> shape st t th st'
| ShChild p k b c : t_st th = Running -> t_code th = Fork p k b :: c ->
    (length (t_stack th) <? k) = false ->
    (p = false \/ (rep st = true /\ t_inpool th = true)) ->
    st' = add_child st t th c k b false Running (qu st) (lck st) -> shape st t th st'
| ShEnq k b c : t_st th = Running -> t_code th = Fork true k b :: c ->
    (length (t_stack th) <? k) = false ->
    (rep st && t_inpool th) = false -> lck st = Some t -> act st < mx st ->
    st' = add_child st t th c k b true Queued (qu st ++ [length (thr st)]) None -> shape st t th st'
| ShAcq k b c : t_st th = Running -> t_code th = Fork true k b :: c ->
    (length (t_stack th) <? k) = false ->
    (rep st && t_inpool th) = false -> lck st = None ->
    st' = set_lck st (Some t) -> shape st t th st'
| ShStart q' : t_st th = Queued -> qu st = t :: q' -> act st < mx st ->
    st' = mkS (upd t (set_st th Running) (thr st)) (chs st) q' (S (act st)) (lck st) (mx st) (rep st) ->
    shape st t th st'
| ShMsg th' x up dn c' : t_st th = Running -> same_meta th th' ->
    t_kids th' = t_kids th -> residual th th' -> pure (t_code th) = false ->
    nth_error (chs st) x = Some (up, dn) ->
    ((exists v, c' = (ch_send v up, dn)) \/ (exists v, c' = (up, ch_send v dn)) \/
     (exists v dn', ch_recv dn = Some (v, dn') /\ c' = (up, dn')) \/
     (exists v up', ch_recv up = Some (v, up') /\ c' = (up', dn))) ->
    st' = set_chs (set_thr st t th') (upd x c' (chs st)) -> shape st t th st'.

Lemma kview_upd ts kids j k :
  nth_error kids j = Some (k, false) ->
  kview ts (upd j (k, true) kids) = upd j None (kview ts kids).
Proof. intros H. unfold kview. rewrite map_upd. reflexivity. Qed.

Lemma kview_nth ts kids j k kt :
  nth_error kids j = Some (k, false) -> nth_error ts k = Some kt ->
  nth_error (kview ts kids) j = Some (Some (t_spec kt)).
Proof. intros H1 H2. unfold kview. erewrite map_nth_error by eauto. simpl. rewrite H2. reflexivity. Qed.

Lemma kview_nth_waited ts kids j k :
  nth_error kids j = Some (k, true) -> nth_error (kview ts kids) j = Some None.
Proof. intros H1. unfold kview. erewrite map_nth_error by eauto. reflexivity. Qed.

Lemma kview_nth_none ts kids j :
  nth_error kids j = None -> nth_error (kview ts kids) j = None.
Proof. intros H. apply nth_error_None. unfold kview. rewrite map_length. apply nth_error_None. auto. Qed.

Ltac smeta := unfold same_meta, with_cs, with_csk; simpl; auto.
Ltac nf := match goal with E : t_code ?th = _ |- nofork ?th => unfold nofork; rewrite E; exact I end.
Ltac fk := match goal with E : t_code ?th = _ |- forall p k b c, t_code ?th = Fork p k b :: c -> _ =>
  let EF := fresh in intros ? ? ? ? EF; rewrite E in EF; try discriminate EF; inversion EF; subst; assumption end.

Lemma kid_of_S th i k w : kid_of th i = Some (k, w) -> exists j, i = S j /\ nth_error (t_kids th) j = Some (k, w).
Proof. destruct i; simpl; intros H; try discriminate. eauto. Qed.

Lemma seqev_cons i c s kv : seqev (i :: c) s kv =
  match ev_i i s kv with Some (s', kv') => seqev c s' kv' | None => None end.
Proof. reflexivity. Qed.

Lemma take_kid_bad ts th i :
  (forall k, kid_of th i <> Some (k, false)) -> take_kid i (kview ts (t_kids th)) = None.
Proof.
  intros H. destruct i as [|j]; simpl; auto.
  destruct (nth_error (t_kids th) j) as [[k [|]]|] eqn:E.
  - erewrite kview_nth_waited by eauto. reflexivity.
  - exfalso. apply (H k). simpl. auto.
  - rewrite kview_nth_none by auto. reflexivity.
Qed.

Lemma pure_cons i c : pure (i :: c) = pure_i i && pure c.
Proof. reflexivity. Qed.

Lemma step_shape st t st' : step st t = Some st' ->
  exists th, nth_error (thr st) t = Some th /\ shape st t th st'.
Proof.
  unfold step. destruct (nth_error (thr st) t) as [th|] eqn:Eth; [|discriminate].
  intros H. exists th. split; auto.
  destruct (t_st th) eqn:Est; [| |discriminate].
  - (* queued *)
    destruct (qu st) as [|h q'] eqn:Eq; [discriminate|].
    destruct ((h =? t) && (act st <? mx st)) eqn:Ec; [|discriminate].
    apply andb_true_iff in Ec. destruct Ec as [E1 E2].
    apply Nat.eqb_eq in E1. apply Nat.ltb_lt in E2. subst h. inversion H; subst.
    eapply ShStart; eauto.
  - (* running *)
    destruct (t_code th) as [|ins c] eqn:Ecode.
    { inversion H; subst. eapply ShFin; eauto; [|fk]. intros _ _. unfold dview. rewrite Ecode. reflexivity. }
    assert (RES : forall th', t_code th' = c -> residual th th').
    { intros th' E. exists ins, c. split; auto. }
    destruct ins.
    + (* Push *) inversion H; subst. eapply ShLocal; eauto; try smeta; try nf.
      intros _. unfold dview. rewrite Ecode. reflexivity.
    + (* Pop *) destruct (t_stack th) eqn:Es; inversion H; subst.
      * eapply ShFin; eauto; [|fk]. intros _ _. unfold dview. rewrite Ecode, Es. reflexivity.
      * eapply ShLocal; eauto; try smeta; try nf. intros _. unfold dview. rewrite Ecode, Es. reflexivity.
    + (* Dup *) destruct (t_stack th) eqn:Es; inversion H; subst.
      * eapply ShFin; eauto; [|fk]. intros _ _. unfold dview. rewrite Ecode, Es. reflexivity.
      * eapply ShLocal; eauto; try smeta; try nf. intros _. unfold dview. rewrite Ecode, Es. reflexivity.
    + (* Work *) destruct n; inversion H; subst.
      * eapply ShLocal; eauto; try smeta; try nf. intros _. unfold dview. rewrite Ecode. reflexivity.
      * eapply ShLocal; eauto; try smeta; try nf.
        { exists (Work (S n)), c. split; auto. right. left. eexists. reflexivity. }
        intros _. unfold dview. rewrite Ecode. reflexivity.
    + (* AddAll *) inversion H; subst. eapply ShLocal; eauto; try smeta; try nf.
      intros _. unfold dview. rewrite Ecode. reflexivity.
    + (* Fork *)
      destruct (length (t_stack th) <? k) eqn:Ek.
      { inversion H; subst. eapply ShFin; eauto; [|fk]. intros _ _. unfold dview. rewrite Ecode.
        rewrite seqev_cons. simpl. rewrite Ek. reflexivity. }
      destruct (negb pool || (rep st && t_inpool th)) eqn:Ed.
      { inversion H; subst. eapply ShChild; eauto.
        apply orb_true_iff in Ed. destruct Ed as [Ed|Ed].
        - left. destruct pool; simpl in Ed; congruence.
        - right. apply andb_true_iff in Ed. auto. }
      apply orb_false_iff in Ed. destruct Ed as [Ep Er].
      destruct pool; simpl in Ep; [|discriminate].
      destruct (lck st) as [u|] eqn:El.
      * destruct (u =? t) eqn:Eu; [|discriminate]. apply Nat.eqb_eq in Eu. subst u.
        destruct (act st <? mx st) eqn:Ea; [|discriminate]. apply Nat.ltb_lt in Ea.
        inversion H; subst. eapply ShEnq; eauto.
      * inversion H; subst. eapply ShAcq; eauto.
    + (* Wait *)
      destruct (kid_of th i) as [[k [|]]|] eqn:Ek.
      * inversion H; subst. eapply ShFin; eauto; [|fk]. intros _ _. unfold dview. rewrite Ecode.
        rewrite seqev_cons. simpl. rewrite take_kid_bad; auto. intros k' E. congruence.
      * destruct (nth_error (thr st) k) as [kt|] eqn:Ekt; [|discriminate].
        destruct (kid_of_S _ _ _ _ Ek) as [j [-> Ej]].
        destruct (t_st kt) as [| |[r|]] eqn:Ekst; try discriminate; inversion H; subst.
        -- eapply ShLocal; eauto; try smeta; try nf.
           { simpl. eapply upd_same_fst; eauto. }
           intros KO. unfold dview. rewrite Ecode. simpl t_code. simpl t_stack. simpl t_kids.
           rewrite seqev_cons. simpl ev_i. unfold take_kid.
           erewrite kview_nth by eauto. rewrite (KO _ _ _ Ekt Ekst).
           rewrite kview_upd by auto. reflexivity.
        -- eapply ShFin; eauto; [|fk]. intros KO _. unfold dview. rewrite Ecode.
           rewrite seqev_cons. simpl ev_i. unfold take_kid.
           erewrite kview_nth by eauto. rewrite (KO _ _ _ Ekt Ekst). reflexivity.
      * inversion H; subst. eapply ShFin; eauto; [|fk]. intros _ _. unfold dview. rewrite Ecode.
        rewrite seqev_cons. simpl. rewrite take_kid_bad; auto. intros k' E. congruence.
    + (* WaitAll *)
      destruct todo as [|i todo'].
      { inversion H; subst. eapply ShLocal; eauto; try smeta; try nf.
        intros _. unfold dview. rewrite Ecode. reflexivity. }
      destruct (kid_of th i) as [[k [|]]|] eqn:Ek.
      * inversion H; subst. eapply ShFin; eauto; [|fk]. intros _ _. unfold dview. rewrite Ecode.
        rewrite seqev_cons. simpl. rewrite take_kid_bad; auto. intros k' E. congruence.
      * destruct (nth_error (thr st) k) as [kt|] eqn:Ekt; [|discriminate].
        destruct (kid_of_S _ _ _ _ Ek) as [j [-> Ej]].
        destruct (t_st kt) as [| |[r|]] eqn:Ekst; try discriminate; inversion H; subst.
        -- eapply ShLocal; eauto; try smeta; try nf.
           { simpl. eapply upd_same_fst; eauto. }
           { exists (WaitAll done (S j :: todo') acc), c. split; auto. right. right. do 3 eexists. reflexivity. }
           intros KO. unfold dview. rewrite Ecode. simpl t_code. simpl t_stack. simpl t_kids.
           rewrite !seqev_cons. simpl ev_i. unfold take_kid.
           erewrite kview_nth by eauto. rewrite (KO _ _ _ Ekt Ekst).
           rewrite kview_upd by auto. reflexivity.
        -- eapply ShFin; eauto; [|fk]. intros KO _. unfold dview. rewrite Ecode.
           rewrite seqev_cons. simpl ev_i. unfold take_kid.
           erewrite kview_nth by eauto. rewrite (KO _ _ _ Ekt Ekst). reflexivity.
      * inversion H; subst. eapply ShFin; eauto; [|fk]. intros _ _. unfold dview. rewrite Ecode.
        rewrite seqev_cons. simpl. rewrite take_kid_bad; auto. intros k' E. congruence.
    + (* Send *)
      assert (NP : pure (t_code th) = false) by (rewrite Ecode; reflexivity).
      assert (FIN : forall r, shape st t th (fin st t th r)).
      { intros r. eapply ShFin; eauto; [|fk]. intros _ P. congruence. }
      destruct (t_stack th) as [|v s'] eqn:Es; [inversion H; subst; apply FIN|].
      destruct i as [|i'].
      * destruct (t =? 0); [inversion H; subst; apply FIN|].
        destruct (nth_error (chs st) t) as [[up dn]|] eqn:Ech; [|discriminate].
        inversion H; subst.
        eapply ShMsg with (th' := with_cs th c s') (c' := (ch_send v up, dn)); eauto; try smeta.
      * destruct (kid_of th (S i')) as [[k [|]]|] eqn:Ek; try (inversion H; subst; apply FIN).
        destruct (nth_error (chs st) k) as [[up dn]|] eqn:Ech; [|discriminate].
        inversion H; subst.
        eapply ShMsg with (th' := with_cs th c s') (c' := (up, ch_send v dn)); eauto; try smeta.
    + (* Recv *)
      assert (NP : pure (t_code th) = false) by (rewrite Ecode; reflexivity).
      assert (FIN : forall r, shape st t th (fin st t th r)).
      { intros r. eapply ShFin; eauto; [|fk]. intros _ P. congruence. }
      destruct i as [|i'].
      * destruct (t =? 0); [inversion H; subst; apply FIN|].
        destruct (nth_error (chs st) t) as [[up dn]|] eqn:Ech; [|discriminate].
        destruct (ch_recv dn) as [[v dn']|] eqn:Er; [|discriminate].
        inversion H; subst.
        eapply ShMsg with (th' := with_cs th c (v :: t_stack th)) (c' := (up, dn')); eauto; try smeta.
        right. right. left. eauto.
      * destruct (kid_of th (S i')) as [[k [|]]|] eqn:Ek; try (inversion H; subst; apply FIN).
        destruct (nth_error (chs st) k) as [[up dn]|] eqn:Ech; [|discriminate].
        destruct (nth_error (thr st) k) as [kt|] eqn:Ekt; [|discriminate].
        destruct (ch_recv up) as [[v up']|] eqn:Er.
        -- inversion H; subst.
           eapply ShMsg with (th' := with_cs th c (v :: t_stack th)) (c' := (up', dn)); eauto; try smeta.
           right. right. right. eauto.
        -- destruct (t_st kt); try discriminate. inversion H; subst; apply FIN.
Qed.
