(** C20 - the compile-time state that the fill / try / code-macro arms save is restored, on the Ok
    and on the Err path: a reused compiler keeps the pre-evaluation mode its embedder chose. *)
From Coq Require Import List Arith NArith Bool String Lia.
From UV Require Import Model.Node Model.Gate.
Import ListNotations.

Lemma cstate_eta : forall s, CS (cs_mode s) (cs_in_fill s) (cs_in_try s) (cs_depth s) = s.
Proof. intros []; reflexivity. Qed.

Section Restore.
  Variable cc : cstate -> cword -> bool * cstate.
  Variable P : cword -> bool.
  Hypothesis Hcc : forall s w, P w = true -> snd (cc s w) = s.

  Lemma cseq_restores : forall ws s, forallb P ws = true -> snd (cseq cc s ws) = s.
  Proof.
    induction ws as [|x t IH]; intros s H; cbn; [reflexivity|].
    cbn in H. apply andb_true_iff in H. destruct H as [Hx Ht].
    pose proof (Hcc s x Hx) as E. destruct (cc s x) as [ok s1]. cbn in E. subst s1.
    destruct ok; [apply IH; assumption | reflexivity].
  Qed.
  Lemma clines_restores : forall ws s, forallb P ws = true -> clines cc s ws = s.
  Proof.
    unfold clines. induction ws as [|x t IH]; intros s H; cbn; [reflexivity|].
    cbn in H. apply andb_true_iff in H. destruct H as [Hx Ht].
    rewrite (Hcc s x Hx). apply IH. assumption.
  Qed.
End Restore.

(** The invariant: without code macros, compiling a word - whatever fails inside it, at whatever
    depth of fill and try - leaves mode, in_fill, in_try and comptime_depth exactly as they were. *)
Theorem compile_restores : forall fuel s w, no_macro w = true -> snd (ccompile true fuel s w) = s.
Proof.
  induction fuel as [|k IH]; intros s w H; [reflexivity|].
  destruct w; cbn [ccompile]; cbn [no_macro] in H.
  - reflexivity.
  - apply (cseq_restores (ccompile true k) no_macro IH). assumption.
  - cbn [snd]. apply (clines_restores (ccompile true k) no_macro IH). assumption.
  - apply andb_true_iff in H. destruct H as [Hf Hw].
    pose proof (IH (set_fill s Lsp true) w1 Hf) as E.
    destruct (ccompile true k (set_fill s Lsp true) w1) as [ok s2]. cbn in E. subst s2.
    rewrite andb_false_r.
    assert (Hs : set_fill (set_fill s Lsp true) (cs_mode s) (cs_in_fill s) = s) by (destruct s; reflexivity).
    rewrite Hs. destruct ok; [apply IH; assumption | reflexivity].
  - pose proof (cseq_restores (ccompile true k) no_macro IH branches (set_try s true) H) as E.
    destruct (cseq (ccompile true k) (set_try s true) branches) as [ok s2]. cbn in E. subst s2.
    cbn [snd]. destruct s; reflexivity.
  - discriminate.
Qed.

(** Seen from the embedder: a snippet is a list of lines; after it - accepted or rejected - the
    compiler is in the mode the embedder set, outside any fill or try, at depth 0. *)
Corollary snippet_restores : forall fuel mode ws, forallb no_macro ws = true ->
  clines (ccompile true fuel) (CS mode false false 0) ws = CS mode false false 0.
Proof.
  intros fuel mode ws H. apply (clines_restores (ccompile true fuel) no_macro); [|assumption].
  intros s w. apply compile_restores.
Qed.

(** in_fill and in_try are restored for every word, code macros included *)
Theorem compile_restores_flags : forall fuel s w,
  cs_in_fill (snd (ccompile true fuel s w)) = cs_in_fill s /\
  cs_in_try (snd (ccompile true fuel s w)) = cs_in_try s.
Proof.
  induction fuel as [|k IH]; intros s w; [split; reflexivity|].
  assert (Hseq : forall ws s0, cs_in_fill (snd (cseq (ccompile true k) s0 ws)) = cs_in_fill s0 /\
                               cs_in_try (snd (cseq (ccompile true k) s0 ws)) = cs_in_try s0).
  { induction ws as [|x t IHw]; intros s0; cbn; [split; reflexivity|].
    pose proof (IH s0 x) as E. destruct (ccompile true k s0 x) as [ok s1]. cbn in E.
    destruct ok; [|exact E]. destruct (IHw s1) as [A B]. destruct E as [E1 E2]. split; congruence. }
  assert (Hlines : forall ws s0, cs_in_fill (clines (ccompile true k) s0 ws) = cs_in_fill s0 /\
                                 cs_in_try (clines (ccompile true k) s0 ws) = cs_in_try s0).
  { unfold clines. induction ws as [|x t IHw]; intros s0; cbn; [split; reflexivity|].
    destruct (IHw (snd (ccompile true k s0 x))) as [A B]. destruct (IH s0 x) as [E1 E2]. split; congruence. }
  destruct w; cbn [ccompile].
  - split; reflexivity.
  - apply Hseq.
  - cbn [snd]. apply Hlines.
  - pose proof (IH (set_fill s Lsp true) w1) as E.
    destruct (ccompile true k (set_fill s Lsp true) w1) as [ok s2]. cbn in E. destruct E as [E1 E2].
    rewrite andb_false_r.
    destruct ok.
    + destruct (IH (set_fill s2 (cs_mode s) (cs_in_fill s)) w2) as [A B]. cbn in A, B. split; congruence.
    + cbn. split; [reflexivity | exact E2].
  - pose proof (Hseq branches (set_try s true)) as E.
    destruct (cseq (ccompile true k) (set_try s true) branches) as [ok s2]. cbn in E. cbn. tauto.
  - destruct (MAX_COMPTIME_DEPTH <? cs_depth (set_depth s (S (cs_depth s)))); [split; reflexivity|].
    destruct (negb parse_ok); [split; reflexivity|].
    match goal with |- context [if ?c then _ else _] => destruct c end; [split; reflexivity|].
    cbn.
    match goal with |- context [ccompile true k ?s2 w] => destruct (IH s2 w) as [A B] end.
    cbn in A, B. split; assumption.
Qed.

(** The defect in the code as it stands (confirmed on the implementation through the session
    check): an error inside the expansion of a code macro returns before comptime_depth is
    decremented; the rejected snippet leaves the compiler one level deeper for good. *)
Theorem codemacro_err_leaks_depth_refuted : exists s w,
  fst (ccompile true 200 s w) = false /\ cs_depth (snd (ccompile true 200 s w)) <> cs_depth s.
Proof.
  exists (CS Normal false false 0), (WCodeMacro false (WLeaf true)). vm_compute. split; [reflexivity | discriminate].
Qed.

(** The fill arm with the `?` before the restore (the shape of the seeded defect) breaks the
    invariant: one rejected snippet leaves the compiler in editor mode. *)
Theorem unfixed_fill_leaks_mode : exists s w, no_macro w = true /\
  fst (ccompile false 200 s w) = false /\ cs_mode (snd (ccompile false 200 s w)) = Lsp /\ cs_mode s = Normal.
Proof.
  exists (CS Normal false false 0), (WFill (WLeaf false) (WLeaf true)). vm_compute. repeat split; reflexivity.
Qed.

(** * The backend of compile-time evaluation *)
Theorem comptime_backend_never_native : forall m,
  (comptime_backend m = BSafe /\ m <> Lsp) \/ (comptime_backend m = BOwn /\ m = Lsp).
Proof. intros []; cbn; [left | left | left | right]; split; congruence. Qed.
(** RECORD (before fix 2bf92f0): editor mode evaluated on the native backend, whatever backend the
    compiler had been given *)
Theorem comptime_backend_refuted_pre : exists m, comptime_backend_pre m = BNative.
Proof. exists Lsp. reflexivity. Qed.

(** * The pre-evaluation cache *)
(** on a miss the calls are exactly those of evaluating on the compiler's own backend *)
Theorem cache_miss_own_backend : forall key keyb val eval c b k,
  clookup key keyb val k c = None ->
  snd (fst (comptime_cached key keyb val eval c b k)) = snd (eval b k).
Proof.
  intros key keyb val eval c b k H. unfold comptime_cached. rewrite H.
  destruct (eval b k); reflexivity.
Qed.
(** Finding (code as it stands, confirmed on the implementation with two compilers on one thread):
    a hit serves the value another backend produced, with no call on the asking compiler's backend.
    Backend 0 allows the read, backend 1 denies it. *)
Theorem cache_crosses_backends_refuted :
  exists (eval : nat -> nat -> option string * list event) c1 v1,
    comptime_cached nat Nat.eqb (option string) eval [] 0 7 = (Some v1, ["file_read_all"%string], c1) /\
    eval 1 7 = (None, ["file_read_all"%string]) /\
    comptime_cached nat Nat.eqb (option string) eval c1 1 7 = (Some v1, [], c1).
Proof.
  exists (fun b k => if Nat.eqb b 0 then (Some "contents"%string, ["file_read_all"%string])
                     else (None, ["file_read_all"%string])).
  eexists. eexists. vm_compute. repeat split; reflexivity.
Qed.
