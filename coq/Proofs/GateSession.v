(** C20 - the compile-time state that the fill / try / code-macro arms save is restored, on the Ok
    and on the Err path: a reused compiler keeps the pre-evaluation mode its embedder chose. *)
From Coq Require Import List Arith NArith Bool String Lia.
From UV Require Import Model.Node Model.Gate.
Import ListNotations.

Lemma cstate_eta : forall s, CS (cs_mode s) (cs_in_fill s) (cs_in_try s) (cs_depth s) = s.
Proof. intros []; reflexivity. Qed.

Section Restore.
  Variable cc : cstate -> cword -> bool * cstate.
  Variable P : cword -> bool.
  Hypothesis Hcc : forall s w, P w = true -> snd (cc s w) = s.

  Lemma cseq_restores : forall ws s, forallb P ws = true -> snd (cseq cc s ws) = s.
  Proof.
    induction ws as [|x t IH]; intros s H; cbn; [reflexivity|].
    cbn in H. apply andb_true_iff in H. destruct H as [Hx Ht].
    pose proof (Hcc s x Hx) as E. destruct (cc s x) as [ok s1]. cbn in E. subst s1.
    destruct ok; [apply IH; assumption | reflexivity].
  Qed.
  Lemma clines_restores : forall ws s, forallb P ws = true -> clines cc s ws = s.
  Proof.
    unfold clines. induction ws as [|x t IH]; intros s H; cbn; [reflexivity|].
    cbn in H. apply andb_true_iff in H. destruct H as [Hx Ht].
    rewrite (Hcc s x Hx). apply IH. assumption.
  Qed.
End Restore.

Lemma set_fill_back : forall s, set_fill (set_fill s Lsp true) (cs_mode s) (cs_in_fill s) = s.
Proof. intros []; reflexivity. Qed.
Lemma set_try_back : forall s, set_try (set_try s true) (cs_in_try s) = s.
Proof. intros []; reflexivity. Qed.
Lemma macro_back : forall s,
  set_depth (set_depth s (S (cs_depth s))) (pred (cs_depth (set_depth s (S (cs_depth s))))) = s.
Proof. intros []; reflexivity. Qed.
Lemma quote_back : forall s1,
  set_mode (set_depth (set_depth (set_mode s1 (mode_min_line (cs_mode s1))) (S (cs_depth s1)))
             (pred (cs_depth (set_depth (set_mode s1 (mode_min_line (cs_mode s1))) (S (cs_depth s1))))))
           (cs_mode s1) = s1.
Proof. intros []; reflexivity. Qed.

(** The invariant, for the code as it stands (fixes 501199d included) and EVERY word - fill, try and
    code macros nested in any way, whatever fails inside, parse errors and too-deep recursions of
    macros included: compiling it leaves mode, in_fill, in_try and comptime_depth exactly as they
    were, on the Ok path and on the Err path. *)
Theorem compile_restores : forall fuel s w, snd (ccompile true true fuel s w) = s.
Proof.
  induction fuel as [|k IH]; intros s w; [reflexivity|].
  assert (IHP : forall s0 w0, (fun _ : cword => true) w0 = true -> snd (ccompile true true k s0 w0) = s0)
    by (intros; apply IH).
  assert (Hall : forall ws : list cword, forallb (fun _ => true) ws = true)
    by (induction ws; cbn; auto).
  destruct w; cbn [ccompile].
  - reflexivity.
  - apply (cseq_restores (ccompile true true k) (fun _ => true) IHP). apply Hall.
  - cbn [snd]. apply (clines_restores (ccompile true true k) (fun _ => true) IHP). apply Hall.
  - pose proof (IH (set_fill s Lsp true) w1) as E.
    destruct (ccompile true true k (set_fill s Lsp true) w1) as [ok s2]. cbn in E. subst s2.
    rewrite andb_false_r. rewrite set_fill_back. destruct ok; [apply IH | reflexivity].
  - pose proof (cseq_restores (ccompile true true k) (fun _ => true) IHP branches (set_try s true) (Hall _)) as E.
    destruct (cseq (ccompile true true k) (set_try s true) branches) as [ok s2]. cbn in E. subst s2.
    cbn [snd]. apply set_try_back.
  - cbn [snd].
    destruct (MAX_COMPTIME_DEPTH <? cs_depth (set_depth s (S (cs_depth s)))); [apply macro_back|].
    destruct (negb parse_ok); [apply macro_back|].
    match goal with |- context [if ?c then _ else _] => destruct c end; [apply macro_back|].
    cbn [snd]. rewrite IH. rewrite quote_back. apply macro_back.
Qed.

(** Seen from the embedder: a snippet is a list of lines; after it - accepted or rejected - the
    compiler is in the mode the embedder set, outside any fill or try, at depth 0. *)
Corollary snippet_restores : forall fuel mode ws,
  clines (ccompile true true fuel) (CS mode false false 0) ws = CS mode false false 0.
Proof.
  intros fuel mode ws. apply (clines_restores (ccompile true true fuel) (fun _ => true)).
  - intros s w _. apply compile_restores.
  - induction ws; cbn; auto.
Qed.

(** RECORD (code before fix 501199d, confirmed on the implementation of that time through the
    session check): an error inside the expansion of a code macro returned before comptime_depth
    was decremented; the rejected snippet left the compiler one level deeper for good. *)
Theorem codemacro_err_leaks_depth_refuted_pre : exists s w,
  fst (ccompile true false 200 s w) = false /\ cs_depth (snd (ccompile true false 200 s w)) <> cs_depth s.
Proof.
  exists (CS Normal false false 0), (WCodeMacro false (WLeaf true)). vm_compute. split; [reflexivity | discriminate].
Qed.

(** The fill arm with the `?` before the restore (the shape of the seeded defect) breaks the
    invariant: one rejected snippet leaves the compiler in editor mode. *)
Theorem unfixed_fill_leaks_mode : exists s w, no_macro w = true /\
  fst (ccompile false true 200 s w) = false /\ cs_mode (snd (ccompile false true 200 s w)) = Lsp /\ cs_mode s = Normal.
Proof.
  exists (CS Normal false false 0), (WFill (WLeaf false) (WLeaf true)). vm_compute. repeat split; reflexivity.
Qed.

(** * The backend of compile-time evaluation *)
Theorem comptime_backend_never_native : forall m,
  (comptime_backend m = BSafe /\ m <> Lsp) \/ (comptime_backend m = BOwn /\ m = Lsp).
Proof. intros []; cbn; [left | left | left | right]; split; congruence. Qed.
(** RECORD (before fix 2bf92f0): editor mode evaluated on the native backend, whatever backend the
    compiler had been given *)
Theorem comptime_backend_refuted_pre : exists m, comptime_backend_pre m = BNative.
Proof. exists Lsp. reflexivity. Qed.

(** * The pre-evaluation cache *)
Section CacheSound.
  Variable key : Type.
  Variable keyb : key -> key -> bool.
  Variable val : Type.
  Variable eval : nat -> key -> val * list event.
  Variable cacheable : key -> bool.
  Hypothesis keyb_eq : forall a b, keyb a b = true -> a = b.
  (** what pure_no_effect gives for a node that is_pure: its evaluation calls no backend and so
      cannot depend on which backend the scratch runtime has *)
  Hypothesis pure_backend_free : forall k, cacheable k = true ->
    forall b b', eval b k = eval b' k /\ snd (eval b k) = [].

  (** every entry belongs to a pure node and holds the value any backend's evaluation gives *)
  Definition coherent (c : list (key * val)) : Prop :=
    forall k v, clookup key keyb val k c = Some v -> cacheable k = true /\ forall b, fst (eval b k) = v.

  Notation cached := (comptime_cached key keyb val eval cacheable).

  (** an impure node is never looked up nor stored: it is evaluated on the asking compiler's own
      backend, every time *)
  Theorem cache_skips_impure : forall c b k, cacheable k = false -> cached c b k = (fst (eval b k), snd (eval b k), c).
  Proof. intros c b k H. unfold comptime_cached. rewrite H. destruct (eval b k); reflexivity. Qed.

  (** whatever the history of compilers and backends on the thread: the value a compiler gets is the
      value its own backend's evaluation gives, the calls it makes are made on its own backend, and
      the cache stays coherent - no value obtained from a backend is ever served *)
  Theorem cache_sound : forall c b k, coherent c ->
    fst (fst (cached c b k)) = fst (eval b k) /\
    (snd (fst (cached c b k)) = [] \/ snd (fst (cached c b k)) = snd (eval b k)) /\
    coherent (snd (cached c b k)).
  Proof.
    intros c b k Hc. unfold comptime_cached.
    destruct (cacheable k) eqn:Ek.
    - unfold comptime_cached_pre. destruct (clookup key keyb val k c) as [v|] eqn:El.
      + cbn. destruct (Hc k v El) as [_ Hv]. rewrite Hv. auto.
      + destruct (eval b k) as [v t] eqn:Ee. cbn. split; [reflexivity|]. split; [right; reflexivity|].
        intros k' v' H. cbn in H. destruct (keyb k' k) eqn:Ekk.
        * apply keyb_eq in Ekk. subst k'. inversion H; subst v'. split; [assumption|].
          intros b'. destruct (pure_backend_free k Ek b' b) as [E _]. rewrite E, Ee. reflexivity.
        * apply Hc. assumption.
    - destruct (eval b k) as [v t]. cbn. auto.
  Qed.
End CacheSound.

(** RECORD (code before fix 49da69f, confirmed on the implementation of that time with two compilers
    on one thread): a hit served the value another backend produced, with no call on the asking
    compiler's backend.  Backend 0 allows the read, backend 1 denies it. *)
Theorem cache_crosses_backends_refuted_pre :
  exists (eval : nat -> nat -> option string * list event) c1 v1,
    comptime_cached_pre nat Nat.eqb (option string) eval [] 0 7 = (Some v1, ["file_read_all"%string], c1) /\
    eval 1 7 = (None, ["file_read_all"%string]) /\
    comptime_cached_pre nat Nat.eqb (option string) eval c1 1 7 = (Some v1, [], c1).
Proof.
  exists (fun b k => if Nat.eqb b 0 then (Some "contents"%string, ["file_read_all"%string])
                     else (None, ["file_read_all"%string])).
  eexists. eexists. vm_compute. repeat split; reflexivity.
Qed.
(** the same history on the code as it stands: the read is impure, so the second compiler's call
    goes to its own (denying) backend *)
Theorem cache_same_history_repaired :
  let eval := fun (b k : nat) => if Nat.eqb b 0 then (Some "contents"%string, ["file_read_all"%string])
                                 else (None, ["file_read_all"%string]) in
  let c1 := snd (comptime_cached nat Nat.eqb (option string) eval (fun _ => false) [] 0 7) in
  comptime_cached nat Nat.eqb (option string) eval (fun _ => false) c1 1 7 = (None, ["file_read_all"%string], []).
Proof. vm_compute. reflexivity. Qed.
