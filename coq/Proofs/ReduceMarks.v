(** C06: the sorted-mark shortcuts of min/max reduction agree with the generic path. *)
From Coq Require Import List NArith Bool Lia.
From UV Require Import Model.ReduceMarks.
Import ListNotations.
Local Open Scope N_scope.

Definition lastd (t : list N) (x : N) : N := fold_left (fun _ y => y) t x.

Lemma hd_rev t : forall x, hd_error (rev (x :: t)) = Some (lastd t x).
Proof.
  induction t as [|y t IH]; intros x; [reflexivity|].
  change (rev (x :: y :: t)) with (rev (y :: t) ++ [x]).
  specialize (IH y). destruct (rev (y :: t)) as [|z A]; simpl in *; [discriminate|].
  exact IH.
Qed.

Lemma sorted_up_cons x y t : sorted_up (x :: y :: t) = true -> x <= y /\ sorted_up (y :: t) = true.
Proof. simpl. intros H. apply andb_true_iff in H. destruct H as [H1 H2]. apply N.leb_le in H1. auto. Qed.
Lemma sorted_down_cons x y t : sorted_down (x :: y :: t) = true -> y <= x /\ sorted_down (y :: t) = true.
Proof. simpl. intros H. apply andb_true_iff in H. destruct H as [H1 H2]. apply N.leb_le in H1. auto. Qed.

Lemma sorted_up_all t : forall x, sorted_up (x :: t) = true -> forall y, In y t -> x <= y.
Proof.
  induction t as [|z t IH]; intros x Hs y Hy; [destruct Hy|].
  apply sorted_up_cons in Hs. destruct Hs as [Hxz Hs]. destruct Hy as [->|Hy]; auto.
  specialize (IH z Hs y Hy). lia.
Qed.
Lemma sorted_down_all t : forall x, sorted_down (x :: t) = true -> forall y, In y t -> y <= x.
Proof.
  induction t as [|z t IH]; intros x Hs y Hy; [destruct Hy|].
  apply sorted_down_cons in Hs. destruct Hs as [Hxz Hs]. destruct Hy as [->|Hy]; auto.
  specialize (IH z Hs y Hy). lia.
Qed.

Lemma fold_min_first t : forall x, (forall y, In y t -> x <= y) -> fold_left N.min t x = x.
Proof.
  induction t as [|z t IH]; intros x Hx; simpl; auto.
  rewrite N.min_l by (apply Hx; left; auto). apply IH. intros y Hy. apply Hx. right; auto.
Qed.
Lemma fold_max_first t : forall x, (forall y, In y t -> y <= x) -> fold_left N.max t x = x.
Proof.
  induction t as [|z t IH]; intros x Hx; simpl; auto.
  rewrite N.max_l by (apply Hx; left; auto). apply IH. intros y Hy. apply Hx. right; auto.
Qed.
Lemma fold_max_last t : forall x, sorted_up (x :: t) = true -> fold_left N.max t x = lastd t x.
Proof.
  induction t as [|z t IH]; intros x Hs; simpl; auto.
  apply sorted_up_cons in Hs. destruct Hs as [Hxz Hs]. rewrite N.max_r by lia. apply IH; auto.
Qed.
Lemma fold_min_last t : forall x, sorted_down (x :: t) = true -> fold_left N.min t x = lastd t x.
Proof.
  induction t as [|z t IH]; intros x Hs; simpl; auto.
  apply sorted_down_cons in Hs. destruct Hs as [Hxz Hs]. rewrite N.min_r by lia. apply IH; auto.
Qed.

Lemma rev_head_case (l : list N) (d : ext) :
  match rev l with [] => d | x :: _ => Fin x end
  = match l with [] => d | x :: t => Fin (lastd t x) end.
Proof.
  destruct l as [|x t]; [reflexivity|]. pose proof (hd_rev t x) as H.
  destruct (rev (x :: t)); simpl in H; [discriminate|]. inversion H; subst. reflexivity.
Qed.

(** truthful sortedness marks do not change the result of /↧ and /↥ on a byte list *)
Theorem reduce_min_marks_invisible up down l :
  (up = true -> sorted_up l = true) -> (down = true -> sorted_down l = true) ->
  reduce_min_c up down l = reduce_min_generic l.
Proof.
  intros Hu Hd. unfold reduce_min_c. destruct up.
  - specialize (Hu eq_refl). destruct l as [|x t]; [reflexivity|]. simpl.
    rewrite fold_min_first; auto. apply sorted_up_all; auto.
  - destruct down; [|reflexivity]. specialize (Hd eq_refl). rewrite rev_head_case.
    destruct l as [|x t]; [reflexivity|]. simpl. rewrite fold_min_last; auto.
Qed.

Theorem reduce_max_marks_invisible up down l :
  (up = true -> sorted_up l = true) -> (down = true -> sorted_down l = true) ->
  reduce_max_c up down l = reduce_max_generic l.
Proof.
  intros Hu Hd. unfold reduce_max_c. destruct up.
  - specialize (Hu eq_refl). rewrite rev_head_case.
    destruct l as [|x t]; [reflexivity|]. simpl. rewrite fold_max_last; auto.
  - destruct down; [|reflexivity]. specialize (Hd eq_refl).
    destruct l as [|x t]; [reflexivity|]. simpl. rewrite fold_max_first; auto. apply sorted_down_all; auto.
Qed.
