(** C16 — the insertion sort by row index used by normalized() / present_indices():
    on a list whose indices are exactly 0..n-1 it returns the entries in index order. *)
From Coq Require Import List Arith Lia Bool Sorting.Permutation Sorting.Sorted.
From UV Require Import Model.Map.
Import ListNotations.

Lemma ins_sorted_perm : forall A (x : A * nat) l, Permutation (ins_sorted x l) (x :: l).
Proof.
  intros A x l. induction l as [|y t IH]; simpl; auto.
  destruct (snd x <=? snd y); auto.
  apply perm_trans with (y :: x :: t); [apply perm_skip; exact IH|apply perm_swap].
Qed.

Lemma sort_by_snd_perm : forall A (l : list (A * nat)), Permutation (sort_by_snd l) l.
Proof.
  intros A l. unfold sort_by_snd. induction l as [|x t IH]; simpl; auto.
  apply perm_trans with (x :: fold_right ins_sorted [] t); [apply ins_sorted_perm|apply perm_skip; exact IH].
Qed.

Lemma ins_sorted_sorted : forall A (x : A * nat) l,
  StronglySorted le (map snd l) -> StronglySorted le (map snd (ins_sorted x l)).
Proof.
  intros A x l. induction l as [|y t IH]; intros H; simpl.
  - constructor; constructor.
  - simpl in H. apply StronglySorted_inv in H. destruct H as [Ht Hy].
    destruct (Nat.leb_spec (snd x) (snd y)) as [Hle|Hgt]; simpl.
    + constructor.
      * constructor; assumption.
      * constructor; [exact Hle|]. eapply Forall_impl; [|exact Hy]. intros z Hz. simpl in Hz. lia.
    + constructor; [apply IH; exact Ht|].
      apply Forall_forall. intros z Hz. apply in_map_iff in Hz. destruct Hz as [w [<- Hw]].
      apply (Permutation_in _ (ins_sorted_perm A x t)) in Hw. destruct Hw as [<-|Hw]; [lia|].
      rewrite Forall_forall in Hy. apply Hy. apply in_map. exact Hw.
Qed.

Lemma sort_by_snd_sorted : forall A (l : list (A * nat)), StronglySorted le (map snd (sort_by_snd l)).
Proof.
  intros A l. unfold sort_by_snd. induction l as [|x t IH]; simpl; [constructor|].
  apply ins_sorted_sorted. exact IH.
Qed.

Lemma sorted_perm_eq : forall l1 l2 : list nat,
  StronglySorted le l1 -> StronglySorted le l2 -> Permutation l1 l2 -> l1 = l2.
Proof.
  induction l1 as [|a t1 IH]; intros l2 H1 H2 HP.
  - apply Permutation_nil in HP. auto.
  - destruct l2 as [|b t2]; [apply Permutation_sym, Permutation_nil in HP; discriminate|].
    apply StronglySorted_inv in H1. destruct H1 as [S1 F1].
    apply StronglySorted_inv in H2. destruct H2 as [S2 F2].
    rewrite Forall_forall in F1, F2.
    assert (Hab : a = b).
    { assert (Ha : In a (b :: t2)) by (apply (Permutation_in _ HP); left; reflexivity).
      assert (Hb : In b (a :: t1)) by (apply (Permutation_in _ (Permutation_sym HP)); left; reflexivity).
      destruct Ha as [->|Ha]; auto. destruct Hb as [->|Hb]; auto.
      specialize (F1 b Hb). specialize (F2 a Ha). lia. }
    subst b. f_equal. apply IH; auto. eapply Permutation_cons_inv. exact HP.
Qed.

Lemma seq_sorted : forall n s, StronglySorted le (seq s n).
Proof.
  induction n; intros s; simpl; constructor; auto.
  apply Forall_forall. intros z Hz. apply in_seq in Hz. lia.
Qed.

(** a list of n entries whose indices cover 0..n-1 is sorted into index order *)
Lemma sort_by_snd_seq : forall A (l : list (A * nat)) n,
  length l = n -> (forall i, i < n -> In i (map snd l)) ->
  map snd (sort_by_snd l) = seq 0 n.
Proof.
  intros A l n Hlen Hall.
  apply sorted_perm_eq; [apply sort_by_snd_sorted|apply seq_sorted|].
  apply perm_trans with (map snd l); [apply Permutation_map; apply sort_by_snd_perm|].
  apply Permutation_sym. apply NoDup_Permutation_bis.
  - apply seq_NoDup.
  - rewrite map_length, seq_length. lia.
  - intros i Hi. apply in_seq in Hi. apply Hall. lia.
Qed.

(** ... and its first components are then determined by what is bound to each index *)
Lemma firsts_by_index : forall A B (a : list (A * B)) (s : list (A * nat)) o,
  map snd s = seq o (length a) ->
  (forall k i, In (k, i) s -> exists x, nth_error a (i - o) = Some (k, x)) ->
  map fst s = map fst a.
Proof.
  intros A B. induction a as [|[k0 x0] t IH]; intros s o Hs Hin.
  - destruct s; [reflexivity|discriminate].
  - destruct s as [|[k i] s']; [discriminate|]. simpl in Hs. inversion Hs as [[Hi Hs']]. subst i.
    simpl. f_equal.
    + destruct (Hin k o (or_introl eq_refl)) as [x Hx]. rewrite Nat.sub_diag in Hx. simpl in Hx. congruence.
    + apply (IH s' (S o) Hs'). intros k' i' Hk.
      assert (Hge : S o <= i').
      { assert (Hm : In i' (map snd s')) by (apply in_map_iff; exists (k', i'); auto).
        rewrite Hs' in Hm. apply in_seq in Hm. lia. }
      destruct (Hin k' i' (or_intror Hk)) as [x Hx]. exists x.
      replace (i' - o) with (S (i' - S o)) in Hx by lia. exact Hx.
Qed.
