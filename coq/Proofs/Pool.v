(** C13 — the theorems: progress, determinism, FIFO channels *)
From Coq Require Import List NArith Bool Arith Lia.
From UV Require Import Model.Pool Proofs.PoolShape Proofs.PoolProgress Proofs.PoolInv.
Import ListNotations.

(** * Progress *)
(** the code (admission rule of run.rs:1427-1430, rep = true): every side-effect-free program,
    whatever its nesting depth and task count *)
Theorem pool_progress m prog sched :
  1 <= m -> pure prog = true ->
  let st := run sched (init m true prog) in
  final st = false -> exists t, step st t <> None.
Proof.
  intros M P st NF. apply inv_progress; auto. apply inv_run. apply inv_init; auto.
Qed.

(** under either admission rule: programs whose pool tasks do not pool (nesting depth 1) ... *)
Theorem pool_progress_flat m rp prog sched :
  1 <= m -> pure prog = true -> flat prog = true ->
  let st := run sched (init m rp prog) in
  final st = false -> exists t, step st t <> None.
Proof.
  intros M P F st NF. apply inv_progress; auto. apply inv_run. apply inv_init; auto. right. left. auto.
Qed.

(** ... and programs that only spawn *)
Theorem spawn_progress m rp prog sched :
  1 <= m -> pure prog = true -> nopool prog = true ->
  let st := run sched (init m rp prog) in
  final st = false -> exists t, step st t <> None.
Proof.
  intros M P F st NF. apply inv_progress; auto. apply inv_run. apply inv_init; auto. right. right. auto.
Qed.

(** * Determinism: a finished thread holds the sequential result of its body *)
Record DInv (st : state) : Prop := mkDInv {
  D_kids : forall t th k, nth_error (thr st) t = Some th -> In k (map fst (t_kids th)) -> k < length (thr st);
  D_pure : forall t th, nth_error (thr st) t = Some th -> pure (t_code th) = true;
  D_view : forall t th, nth_error (thr st) t = Some th ->
             match t_st th with Done r => r = t_spec th | _ => dview (thr st) th = t_spec th end
}.

Lemma dinv_kids_ok st : DInv st -> kids_ok (thr st).
Proof. intros D k kt r H E. pose proof (D_view st D k kt H) as V. rewrite E in V. auto. Qed.

Lemma kview_ext ts ts' kids :
  (forall k, In k (map fst kids) ->
     match nth_error ts' k with Some x => Some (t_spec x) | None => None end =
     match nth_error ts k with Some x => Some (t_spec x) | None => None end) ->
  kview ts' kids = kview ts kids.
Proof.
  intros H. unfold kview. apply map_ext_in. intros [k w] I. simpl. destruct w; auto.
  apply H. apply in_map_iff. exists (k, false). auto.
Qed.

Lemma kview_upd_spec ts t th th' kids :
  nth_error ts t = Some th -> t_spec th' = t_spec th -> kview (upd t th' ts) kids = kview ts kids.
Proof.
  intros H S. apply kview_ext. intros k _. destruct (Nat.eq_dec t k) as [->|N].
  - rewrite nth_upd_eq by (eapply nth_some_lt; eauto). rewrite H, S. reflexivity.
  - rewrite nth_upd_neq by auto. reflexivity.
Qed.

Lemma kview_app_new ts x kids :
  (forall k, In k (map fst kids) -> k < length ts) -> kview (ts ++ [x]) kids = kview ts kids.
Proof.
  intros H. apply kview_ext. intros k I. rewrite nth_app_l by auto. reflexivity.
Qed.

Lemma dinv_init m rp prog : pure prog = true -> DInv (init m rp prog).
Proof.
  intros P. constructor; simpl.
  - intros [|t] th k H I; simpl in H; [inversion H; subst; simpl in I; contradiction|destruct t; discriminate].
  - intros [|t] th H; simpl in H; [inversion H; subst; auto|destruct t; discriminate].
  - intros [|t] th H; simpl in H; [inversion H; subst; reflexivity|destruct t; discriminate].
Qed.

Lemma dview_set_st ts th x : dview ts (set_st th x) = dview ts th.
Proof. reflexivity. Qed.

(** replacing thread t by a thread with the same specification and children, and the same view *)
Lemma dinv_upd st t th th' :
  DInv st -> nth_error (thr st) t = Some th -> t_spec th' = t_spec th ->
  map fst (t_kids th') = map fst (t_kids th) -> pure (t_code th') = true ->
  match t_st th' with Done r => r = t_spec th | _ => dview (thr st) th' = t_spec th end ->
  forall c q a l, DInv (mkS (upd t th' (thr st)) c q a l (mx st) (rep st)).
Proof.
  intros D H S K P V c q a l.
  constructor; cbn [thr]; rewrite ?upd_length.
  - intros u y k Hy I. apply nth_upd_cases in Hy. destruct Hy as [[-> ->]|[N Hy]].
    + rewrite K in I. eapply (D_kids st D); eauto.
    + eapply (D_kids st D); eauto.
  - intros u y Hy. apply nth_upd_cases in Hy. destruct Hy as [[-> ->]|[N Hy]]; auto.
    eapply (D_pure st D); eauto.
  - intros u y Hy. apply nth_upd_cases in Hy. destruct Hy as [[-> ->]|[N Hy]].
    + rewrite S. destruct (t_st th'); auto; unfold dview in *; erewrite kview_upd_spec; eauto.
    + pose proof (D_view st D u y Hy) as V'. destruct (t_st y); auto;
        unfold dview in *; erewrite kview_upd_spec; eauto.
Qed.

Lemma residual_pure th th' : residual th th' -> pure (t_code th) = true -> pure (t_code th') = true.
Proof.
  intros [i [c [E R]]] P. rewrite E in P. apply pure_tl in P. destruct P as [_ P].
  destruct R as [->|[[n ->]|[d [t [a ->]]]]]; auto.
Qed.

Lemma dinv_child st t th c k b p pk x q l :
  DInv st -> nth_error (thr st) t = Some th -> t_st th = Running -> t_code th = Fork p k b :: c ->
  (length (t_stack th) <? k) = false -> x <> Done None -> (forall r, x <> Done r) ->
  DInv (add_child st t th c k b pk x q l).
Proof.
  intros D H R Ec Ek _ XD.
  assert (TL : t < length (thr st)) by (eapply nth_some_lt; eauto).
  unfold add_child.
  set (n := length (thr st)).
  set (th' := with_csk th c (skipn k (t_stack th)) (t_kids th ++ [(n, false)])).
  set (ch := mkT b (firstn k (t_stack th)) [] pk (t_inpool th || pk) (seqev b (firstn k (t_stack th)) []) x).
  pose proof (D_pure st D t th H) as PU. rewrite Ec in PU. apply pure_tl in PU. destruct PU as [PB PC].
  assert (KV : forall kids, (forall k, In k (map fst kids) -> k < n) ->
                            kview (upd t th' (thr st) ++ [ch]) kids = kview (thr st) kids).
  { intros kids B. rewrite kview_app_new by (rewrite upd_length; auto).
    eapply kview_upd_spec; eauto. }
  constructor; cbn [thr]; rewrite ?app_length, ?upd_length; simpl length; fold n.
  - intros u y kk Hy I. apply nth_updapp_cases in Hy. destruct Hy as [[-> [-> _]]|[[N [L Hy]]|[-> ->]]].
    + simpl in I. rewrite map_app in I. apply in_app_or in I. destruct I as [I|[I|[]]].
      * pose proof (D_kids st D t th kk H I). fold n in H0. lia.
      * simpl in I. lia.
    + pose proof (D_kids st D u y kk Hy I). fold n in H0. lia.
    + simpl in I. contradiction.
  - intros u y Hy. apply nth_updapp_cases in Hy. destruct Hy as [[-> [-> _]]|[[N [L Hy]]|[-> ->]]]; auto.
    eapply (D_pure st D); eauto.
  - intros u y Hy. apply nth_updapp_cases in Hy. destruct Hy as [[-> [-> _]]|[[N [L Hy]]|[-> ->]]].
    + simpl t_st. rewrite R. simpl t_spec. pose proof (D_view st D t th H) as V. rewrite R in V.
      rewrite <- V. unfold dview. simpl t_code. simpl t_stack. simpl t_kids.
      rewrite Ec. rewrite seqev_cons. simpl ev_i. rewrite Ek.
      unfold kview at 1. rewrite map_app. fold (kview (upd t th' (thr st) ++ [ch]) (t_kids th)).
      rewrite KV by (intros kk I; eapply (D_kids st D); eauto).
      simpl map. unfold n at 1. rewrite <- (upd_length t th' (thr st)). rewrite nth_app_new.
      reflexivity.
    + pose proof (D_view st D u y Hy) as V. destruct (t_st y); auto;
        unfold dview in *; rewrite KV; auto; intros kk I; eapply (D_kids st D); eauto.
    + simpl t_st. simpl t_spec. destruct x; try reflexivity. exfalso. eapply XD; eauto.
Qed.

Theorem dinv_step st t st' : DInv st -> step st t = Some st' -> DInv st'.
Proof.
  intros D S. apply step_shape in S. destruct S as [th [H SH]].
  pose proof (dinv_kids_ok st D) as KO.
  pose proof (D_view st D t th H) as V.
  pose proof (D_pure st D t th H) as P.
  destruct SH.
  - subst. destruct H2 as [MP [MI [MS MT]]]. unfold set_thr. eapply dinv_upd; eauto.
    + eapply residual_pure; eauto.
    + rewrite MT, H0. rewrite H0 in V. rewrite H5; auto.
  - subst. unfold fin. eapply dinv_upd; eauto. simpl. rewrite H0 in V. rewrite <- V. symmetry. auto.
  - subst. eapply dinv_child; eauto; discriminate.
  - subst. eapply dinv_child; eauto; discriminate.
  - subst. destruct D. constructor; auto.
  - subst. eapply dinv_upd; eauto. simpl. rewrite H0 in V. auto.
  - congruence.
Qed.

Lemma dinv_run sched : forall st, DInv st -> DInv (run sched st).
Proof.
  induction sched as [|t r IH]; intros st D; simpl; auto.
  destruct (step st t) eqn:E; auto. apply IH. eapply dinv_step; eauto.
Qed.

Lemma spec_stable st t st' : step st t = Some st' ->
  forall u x, nth_error (thr st) u = Some x -> exists y, nth_error (thr st') u = Some y /\ t_spec y = t_spec x.
Proof.
  intros S u x Hx. apply step_shape in S. destruct S as [th [H SH]].
  assert (TL : t < length (thr st)) by (eapply nth_some_lt; eauto).
  assert (UL : u < length (thr st)) by (eapply nth_some_lt; eauto).
  assert (G : forall th' rest, t_spec th' = t_spec th ->
            exists y, nth_error (upd t th' (thr st) ++ rest) u = Some y /\ t_spec y = t_spec x).
  { intros th' rest E. rewrite nth_app_l by (rewrite upd_length; auto). destruct (Nat.eq_dec t u) as [->|N].
    - rewrite nth_upd_eq by auto. exists th'. split; auto. congruence.
    - rewrite nth_upd_neq by auto. eauto. }
  assert (G0 : forall th', t_spec th' = t_spec th ->
            exists y, nth_error (upd t th' (thr st)) u = Some y /\ t_spec y = t_spec x).
  { intros th' E. destruct (G th' [] E) as [y Y]. rewrite app_nil_r in Y. eauto. }
  destruct SH; subst; cbn [thr set_thr fin set_lck set_chs add_child]; eauto.
  - apply G0. destruct H2 as [_ [_ [E _]]]; auto.
  - apply G0. destruct H1 as [_ [_ [E _]]]; auto.
Qed.

(** every schedule: if the program ends, its result is the sequential one *)
Theorem determinism m rp prog sched r :
  pure prog = true ->
  root_res (run sched (init m rp prog)) = Some r -> r = seqev prog [] [].
Proof.
  intros P R.
  pose proof (dinv_run sched _ (dinv_init m rp prog P)) as D.
  assert (GEN : forall sched st x, nth_error (thr st) 0 = Some x ->
                 exists y, nth_error (thr (run sched st)) 0 = Some y /\ t_spec y = t_spec x).
  { clear. induction sched as [|t r IH]; intros st x H; simpl; eauto.
    destruct (step st t) eqn:E; eauto.
    destruct (spec_stable _ _ _ E 0 x H) as [y [Hy Sy]].
    destruct (IH s y Hy) as [z [Hz Sz]]. exists z. split; auto. congruence. }
  assert (SP : exists y, nth_error (thr (run sched (init m rp prog))) 0 = Some y /\ t_spec y = seqev prog [] []).
  { destruct (GEN sched (init m rp prog) _ eq_refl) as [y [Hy Sy]]. exists y. split; auto. }
  destruct SP as [y [Hy Sy]]. unfold root_res in R. rewrite Hy in R.
  pose proof (D_view _ D 0 y Hy) as V. destruct (t_st y); try discriminate.
  inversion R; subst. congruence.
Qed.

(** * FIFO: on every channel, what was received is a prefix of what was sent, in order *)
Definition ch_ok (c : chan) : Prop := csent c = crcvd c ++ cq c.
Definition chs_ok (st : state) : Prop :=
  forall x up dn, nth_error (chs st) x = Some (up, dn) -> ch_ok up /\ ch_ok dn.

Lemma ch_send_ok v c : ch_ok c -> ch_ok (ch_send v c).
Proof. unfold ch_ok, ch_send. simpl. intros ->. rewrite app_assoc. reflexivity. Qed.

Lemma ch_recv_ok c v c' : ch_ok c -> ch_recv c = Some (v, c') -> ch_ok c'.
Proof.
  unfold ch_ok, ch_recv. destruct (cq c) eqn:E; [discriminate|]. intros H R. inversion R; subst. simpl.
  rewrite H. rewrite <- app_assoc. reflexivity.
Qed.

Lemma chs_ok_step st t st' : chs_ok st -> step st t = Some st' -> chs_ok st'.
Proof.
  intros C S. apply step_shape in S. destruct S as [th [H SH]].
  assert (NEW : chs_ok (mkS (thr st) (chs st ++ [(ech, ech)]) (qu st) (act st) (lck st) (mx st) (rep st))).
  { intros x up dn E. cbn [chs] in E. destruct (lt_dec x (length (chs st))).
    - rewrite nth_app_l in E by auto. eapply C; eauto.
    - assert (x = length (chs st)) by (apply nth_some_lt in E; rewrite app_length in E; simpl in E; lia).
      subst x. rewrite nth_app_new in E. inversion E; subst. split; reflexivity. }
  destruct SH; subst; try (intros x up dn E; cbn [chs set_thr fin set_lck add_child] in E; solve [eapply C; eauto | eapply NEW; eauto]).
  intros y up' dn' E. cbn [chs set_chs] in E. apply nth_upd_cases in E. destruct E as [[-> E]|[N E]].
  - destruct (C _ _ _ H5) as [U D].
    destruct H6 as [[v ->]|[[v ->]|[[v [d' [R ->]]]|[v [u' [R ->]]]]]]; inversion E; subst; split; auto;
      try (apply ch_send_ok; auto); try (eapply ch_recv_ok; [|exact R]; auto).
  - eapply C; eauto.
Qed.

Theorem fifo m rp prog sched x up dn :
  nth_error (chs (run sched (init m rp prog))) x = Some (up, dn) ->
  (exists rest, csent up = crcvd up ++ rest) /\ (exists rest, csent dn = crcvd dn ++ rest).
Proof.
  assert (G : forall sched st, chs_ok st -> chs_ok (run sched st)).
  { clear. induction sched as [|t r IH]; intros st C; simpl; auto.
    destruct (step st t) eqn:E; auto. apply IH. eapply chs_ok_step; eauto. }
  intros H. assert (C0 : chs_ok (init m rp prog)).
  { intros [|y] u d E; simpl in E; [inversion E; subst; split; reflexivity|destruct y; discriminate]. }
  destruct (G sched _ C0 _ _ _ H) as [U D]. unfold ch_ok in *. eauto.
Qed.
