(** C20 - soundness of the purity gate with respect to the effect trace of the interpreter.
    For every semantics of the primitives and modifiers that respects its purity label, a tree
    accepted by is_min_purity / matches_nodes emits only what its level allows. *)
From Coq Require Import List Arith NArith Bool String Lia.
From UV Require Import Model.Node Model.Gate.
Import ListNotations.

Lemma allowed_mono : forall q p e, pge q p = true -> allowed q e -> allowed p e.
Proof. intros [] [] e H; cbn in *; try discriminate; tauto. Qed.

Lemma forall_false_nil : forall (l : list event), Forall (fun _ => False) l -> l = [].
Proof. intros [|x l] H; [reflexivity | inversion H; contradiction]. Qed.

Section Sound.
  Variable lprim : N -> pinfo.
  Variable lmod : modk -> purity.
  Variable asm : list node.
  Variable fext : list bool.
  Variable binds : list bkind.
  Variable big : sval -> bool.

  Variable St : Type.
  Variable psem : N -> St -> option St * list event.
  Variable msem : modk -> list sig -> St -> strat St.
  Variable nsem : node -> St -> option St.
  Variable win : node -> St -> option St.
  Variable wout : node -> St -> option St -> option St.
  Variable swsel : list sig -> sig -> bool -> St -> option (nat * St).
  Variable dynsem : sig -> St -> option St * list event.

  Notation runf := (run St psem msem nsem win wout swsel dynsem asm binds).

  (** every emission a modifier makes by itself, on every path *)
  Inductive strat_all (P : event -> Prop) : strat St -> Prop :=
  | sa_ret : forall r, strat_all P (SRet r)
  | sa_emit : forall e k, P e -> strat_all P k -> strat_all P (SEmit e k)
  | sa_run : forall i s k, (forall r, strat_all P (k r)) -> strat_all P (SRun i s k).

  (** The premise validated by the recording backend: primitives and modifiers emit only what
      their own label allows (Pure: nothing; Impure: read-only calls). *)
  Definition prims_respect : Prop := forall id s, Forall (allowed (pi_pur (lprim id))) (snd (psem id s)).
  Definition mods_respect : Prop := forall m sigs s, strat_all (allowed (lmod m)) (msem m sigs s).

  Variable p : purity.

  (** what membership of a node in a certified set [C] must imply *)
  Definition closed_at (C : node -> Prop) (n : node) : Prop :=
    match n with
    | Prim id _ _ | PrimIndet id => pge (pi_pur (lprim id)) p = true
    | Run ns => Forall C ns
    | Mod m args => pge (lmod m) p = true /\ Forall (fun a => C (snd a)) args
    | Call f _ => forall b, nth_error asm f = Some b -> C b
    | CallGlobal i _ | CallMacro i _ =>
        forall f b, nth_error binds i = Some (BFunc f) -> nth_error asm f = Some b -> C b
    | Arr _ i _ | NoInline i | TrackCaller _ i => C i
    | CustomInv _ has _ nm => has = true -> C nm
    | Switch brs _ _ => Forall (fun a => C (snd a)) brs
    | Dynamic _ => False
    | _ => True
    end.

  Section Core.
    Variable C : node -> Prop.
    Hypothesis Hclosed : forall n, C n -> closed_at C n.
    Hypothesis Hprims : prims_respect.
    Hypothesis Hmods : mods_respect.

    Lemma seq_allowed : forall (P : event -> Prop) (r : out St) (k : St -> out St),
      Forall P (snd r) -> (forall s, Forall P (snd (k s))) -> Forall P (snd (seq St r k)).
    Proof.
      intros P [[s|] t] k Hr Hk; cbn in *; auto.
      specialize (Hk s). destruct (k s) as [r' t']. cbn in *. apply Forall_app; split; assumption.
    Qed.

    Lemma fold_allowed : forall (P : event -> Prop) (f : node -> St -> out St) ns acc,
      Forall P (snd acc) -> (forall x, In x ns -> forall s, Forall P (snd (f x s))) ->
      Forall P (snd (fold_left (fun r x => seq St r (f x)) ns acc)).
    Proof.
      intros P f ns. induction ns as [|x ns IH]; intros acc Ha Hf; cbn; auto.
      apply IH.
      - apply seq_allowed; auto. intros s. apply Hf. left; reflexivity.
      - intros y Hy. apply Hf. right; assumption.
    Qed.

    Lemma wrapd_allowed : forall (P : event -> Prop) n s (r : St -> out St),
      (forall s1, Forall P (snd (r s1))) -> Forall P (snd (wrapd St win wout n s r)).
    Proof.
      intros P n s r Hr. unfold wrapd. destruct (win n s) as [s1|]; cbn; auto.
      specialize (Hr s1). destruct (r s1) as [r' t]. cbn in *. assumption.
    Qed.

    Lemma strat_allowed : forall (P : event -> Prop) (runk : node -> St -> out St) args,
      (forall a, In a args -> forall s, Forall P (snd (runk (snd a) s))) ->
      forall t, strat_all P t -> Forall P (snd (run_strat St runk args t)).
    Proof.
      intros P runk args Hargs t Ht. induction Ht as [r | e k He Hk IH | i s k Hk IH]; cbn.
      - constructor.
      - destruct (run_strat St runk args k) as [r tr]. cbn in *. constructor; assumption.
      - destruct (nth_error args i) as [[sg f]|] eqn:E; cbn; auto.
        pose proof (Hargs (sg, f) (nth_error_In _ _ E) s) as Hf. cbn in Hf.
        destruct (runk f s) as [r tr]. cbn in Hf.
        specialize (IH r). destruct (run_strat St runk args (k r)) as [r2 tr2]. cbn in *.
        apply Forall_app; split; assumption.
    Qed.

    Lemma strat_all_mono : forall (P Q : event -> Prop), (forall e, P e -> Q e) ->
      forall t, strat_all P t -> strat_all Q t.
    Proof. intros P Q H t Ht. induction Ht; constructor; auto. Qed.

    (** The core theorem: a node of a closed certified set emits only allowed calls, whatever the
        fuel, the state and the semantics of primitives and modifiers (within their labels). *)
    Theorem run_allowed : forall fuel n s, C n -> Forall (allowed p) (snd (runf fuel n s)).
    Proof.
      induction fuel as [|k IH]; intros n s Hn; [constructor|].
      pose proof (Hclosed n Hn) as Hc.
      assert (Hcall : forall f, (forall b, nth_error asm f = Some b -> C b) ->
                Forall (allowed p) (snd (match nth_error asm f with
                   | None => (None, [])
                   | Some body => wrapd St win wout n s (runf k body) end))).
      { intros f Hf. destruct (nth_error asm f) as [b|] eqn:E; cbn; auto.
        apply wrapd_allowed. intros s1. apply IH. apply Hf. reflexivity. }
      destruct n; cbn [run]; cbn in Hc; try (constructor; fail).
      - (* Prim *)
        eapply Forall_impl; [|apply Hprims]. intros e. apply allowed_mono. assumption.
      - (* PrimIndet *)
        eapply Forall_impl; [|apply Hprims]. intros e. apply allowed_mono. assumption.
      - (* Run *)
        apply fold_allowed; [constructor|]. intros x Hx s'. apply IH.
        rewrite Forall_forall in Hc. auto.
      - (* Mod *)
        destruct Hc as [Hm Hargs]. apply strat_allowed.
        + intros a Ha s'. apply IH. rewrite Forall_forall in Hargs. auto.
        + eapply strat_all_mono; [|apply Hmods]. intros e. apply allowed_mono. assumption.
      - (* Call *)
        apply Hcall. assumption.
      - (* CallGlobal *)
        destruct (nth_error binds i) as [[h|f|]|] eqn:E; try (constructor; fail).
        apply Hcall. intros b Hb. eapply Hc; eauto.
      - (* CallMacro *)
        destruct (nth_error binds i) as [[h|f|]|] eqn:E; try (constructor; fail).
        apply Hcall. intros b Hb. eapply Hc; eauto.
      - (* Arr *)
        apply wrapd_allowed. intros s1. apply IH. assumption.
      - (* Switch *)
        destruct (swsel (map fst brs) s0 under_cond s) as [[i s1]|]; [|constructor].
        destruct (nth_error brs i) as [[sg f]|] eqn:E; [|constructor].
        apply wrapd_allowed. intros s2. apply IH. rewrite Forall_forall in Hc.
        apply (Hc (sg, f)). eapply nth_error_In; eauto.
      - (* NoInline *)
        apply wrapd_allowed. intros s1. apply IH. assumption.
      - (* TrackCaller *)
        apply wrapd_allowed. intros s1. apply IH. assumption.
      - (* CustomInv *)
        destruct has_normal; [|constructor].
        apply wrapd_allowed. intros s1. apply IH. auto.
      - (* Dynamic *)
        contradiction.
    Qed.
  End Core.

  (** * The gate functions certify a closed set *)

  Notation imp := (is_min_purity lprim lmod asm fext binds).
  Notation mnd := (mnode lprim lmod asm fext binds big).

  Variable mode : pmode.
  Hypothesis Hmode : p = mode_min mode.
  Variable mt : list nat.

  (** accepted by is_min_purity at level p, for some fuel and some set of visited functions *)
  Definition P1 (n : node) : Prop := exists k vis, imp k p vis n = true.
  (** accepted by matches_nodes' recursion as a node / as a slice *)
  Definition A1 (n : node) : Prop := exists k, mnd k mode n = true.
  Definition S1 (n : node) : Prop := exists k, forallb (mnd k mode) (as_slice n) = true.
  Definition Cg (n : node) : Prop := mac_in mt n = true /\ (P1 n \/ A1 n \/ S1 n).

  (** premise on recursive index macros: their calls (Node::CallMacro, which is_min_purity accepts
      without looking at the target) occur only with targets in [mt], in every function of the
      assembly, and the functions those bindings hold are themselves accepted at level p *)
  Hypothesis Hmac_asm : forallb (mac_in mt) asm = true.
  Hypothesis Hmac_targets : forall i f b, In i mt -> nth_error binds i = Some (BFunc f) ->
    nth_error asm f = Some b -> exists k, imp k p [] b = true.

  Lemma mac_in_asm : forall f b, nth_error asm f = Some b -> mac_in mt b = true.
  Proof.
    intros f b H. rewrite forallb_forall in Hmac_asm. apply Hmac_asm. eapply nth_error_In; eauto.
  Qed.

  Lemma pge_pure_eq : forall q, purity_eqb q Pure = true -> pge q p = true.
  Proof. intros [] H; cbn in H; try discriminate. destruct p; reflexivity. Qed.

  Lemma P1_closed : forall n, mac_in mt n = true -> P1 n -> closed_at Cg n.
  Proof.
    intros n Hm [k [vis H]]. destruct k as [|k]; [discriminate|].
    destruct n; cbn in H; cbn [closed_at]; cbn [mac_in] in Hm; auto.
    - (* Run *)
      rewrite forallb_forall in H, Hm. apply Forall_forall. intros x Hx.
      split; [auto|]. left. exists k, vis. auto.
    - (* Mod *)
      apply andb_true_iff in H. destruct H as [H1 H2]. split; [assumption|].
      rewrite forallb_forall in H2, Hm. apply Forall_forall. intros a Ha.
      split; [auto|]. left. exists k, vis. auto.
    - (* Call *)
      intros b Hb. split; [eapply mac_in_asm; eauto|].
      destruct (nth f fext false); [discriminate|].
      apply andb_true_iff in H. destruct H as [_ H]. rewrite Hb in H.
      left. exists k, (f :: vis). assumption.
    - (* CallGlobal *)
      intros f b Hi Hb. rewrite Hi in H. split; [eapply mac_in_asm; eauto|].
      apply andb_true_iff in H. destruct H as [_ H]. rewrite Hb in H.
      left. exists k, (f :: vis). assumption.
    - (* CallMacro *)
      intros f b Hi Hb. split; [eapply mac_in_asm; eauto|].
      apply existsb_exists in Hm. destruct Hm as [j [Hj Hij]]. apply Nat.eqb_eq in Hij. subst j.
      destruct (Hmac_targets i f b Hj Hi Hb) as [k' Hk']. left. exists k', []. assumption.
    - (* Arr *)
      split; [assumption|]. left. exists k, vis. assumption.
    - (* Switch *)
      rewrite forallb_forall in H, Hm. apply Forall_forall. intros a Ha.
      split; [auto|]. left. exists k, vis. auto.
    - (* NoInline *)
      split; [assumption|]. left. exists k, vis. assumption.
    - (* TrackCaller *)
      split; [assumption|]. left. exists k, vis. assumption.
    - (* CustomInv *)
      intros Hh. subst has_normal. split; [assumption|]. left. exists k, vis. assumption.
    - (* Dynamic *)
      discriminate.
  Qed.

  Lemma sl_S1 : forall k x,
    negb (existsb (is_big_push big) (as_slice x)) && forallb (mnd k mode) (as_slice x) = true -> S1 x.
  Proof. intros k x H. apply andb_true_iff in H. destruct H as [_ H]. exists k. assumption. Qed.

  Lemma default_P1 : forall k x,
    is_limit_bounded lprim asm binds k [] x && imp k (mode_min mode) [] x = true -> P1 x.
  Proof.
    intros k x H. apply andb_true_iff in H. destruct H as [_ H]. exists k, []. rewrite Hmode. assumption.
  Qed.

  Lemma A1_closed : forall n, mac_in mt n = true -> A1 n -> closed_at Cg n.
  Proof.
    intros n Hm [k H]. destruct k as [|k]; [discriminate|].
    destruct n; cbn [mnode] in H;
      try (apply P1_closed; [assumption | eapply default_P1; eassumption]);
      cbn [closed_at]; cbn [mac_in] in Hm.
    - (* Run *)
      rewrite forallb_forall in H, Hm. apply Forall_forall. intros x Hx.
      split; [auto|]. right; right. eapply sl_S1. apply H. assumption.
    - (* Mod *)
      apply andb_true_iff in H. destruct H as [H1 H2]. split; [apply pge_pure_eq; assumption|].
      rewrite forallb_forall in H2, Hm. apply Forall_forall. intros a Ha.
      split; [auto|]. right; right. eapply sl_S1. apply H2. assumption.
    - (* Call *)
      intros b Hb. rewrite Hb in H. split; [eapply mac_in_asm; eauto|].
      right; right. eapply sl_S1. eassumption.
    - (* Arr *)
      split; [assumption|]. right; right. eapply sl_S1. eassumption.
    - (* NoInline *)
      discriminate.
    - (* CustomInv *)
      destruct has_normal; [|discriminate].
      apply (P1_closed (CustomInv s true nsig n) Hm). eapply default_P1. eassumption.
  Qed.

  Lemma S1_closed : forall n, mac_in mt n = true -> S1 n -> closed_at Cg n.
  Proof.
    intros n Hm [k H].
    assert (Hsingle : as_slice n = [n] -> closed_at Cg n).
    { intros E. rewrite E in H. cbn in H. rewrite andb_true_r in H.
      apply A1_closed; [assumption|]. exists k. assumption. }
    destruct n; try (apply Hsingle; reflexivity).
    (* Run *)
    cbn [as_slice] in H. cbn [closed_at]. cbn [mac_in] in Hm.
    rewrite forallb_forall in H, Hm. apply Forall_forall. intros x Hx.
    split; [auto|]. right; left. exists k. auto.
  Qed.

  Lemma Cg_closed : forall n, Cg n -> closed_at Cg n.
  Proof.
    intros n [Hm [H | [H | H]]].
    - apply P1_closed; assumption.
    - apply A1_closed; assumption.
    - apply S1_closed; assumption.
  Qed.

  Hypothesis Hprims : prims_respect.
  Hypothesis Hmods : mods_respect.

  Theorem gate_allowed : forall n, Cg n -> forall fuel s, Forall (allowed p) (snd (runf fuel n s)).
  Proof. intros n Hn fuel s. apply (run_allowed Cg Cg_closed Hprims Hmods). assumption. Qed.

  (** a tree accepted by is_min_purity *)
  Theorem min_purity_allowed : forall k vis n, mac_in mt n = true -> imp k p vis n = true ->
    forall fuel s, Forall (allowed p) (snd (runf fuel n s)).
  Proof.
    intros k vis n Hm H. apply gate_allowed. split; [assumption|]. left. exists k, vis. assumption.
  Qed.

  (** a section accepted by matches_nodes, run as a whole *)
  Theorem matches_allowed : forall k sec, forallb (mac_in mt) sec = true ->
    matches_nodes lprim lmod asm fext binds big k mode sec = true ->
    forall fuel s, Forall (allowed p) (snd (runf fuel (Run sec) s)).
  Proof.
    intros k sec Hm H. apply gate_allowed. split; [exact Hm|]. right; right. exists k.
    unfold matches_nodes in H. destruct (forallb is_push sec); [discriminate|].
    destruct (is_lazy mode); [discriminate|]. unfold mrec in H.
    apply andb_true_iff in H. destruct H as [_ H]. exact H.
  Qed.
End Sound.

(** * The section scan *)
Lemma longest_ok : forall ok ns len l, longest ok ns len = Some l -> ok (firstn l ns) = true.
Proof.
  intros ok ns len. induction len as [|len IH]; intros l H; cbn [longest] in H; [discriminate|].
  destruct (ok (firstn (S len) ns)) eqn:E.
  - inversion H; subst. assumption.
  - apply IH. assumption.
Qed.

Lemma scan_ok : forall ok sfuel ns sec, In sec (scan sfuel ok ns) -> ok sec = true.
Proof.
  intros ok sfuel. induction sfuel as [|k IH]; intros ns sec H; cbn [scan] in H; [contradiction|].
  destruct ns as [|x tl]; [contradiction|].
  destruct (longest ok (x :: tl) (List.length (x :: tl))) as [l|] eqn:E.
  - destruct H as [H | H].
    + subst sec. eapply longest_ok; eassumption.
    + eapply IH; eassumption.
  - eapply IH; eassumption.
Qed.

Lemma firstn_forallb : forall (f : node -> bool) l ns, forallb f ns = true -> forallb f (firstn l ns) = true.
Proof.
  intros f l. induction l as [|l IH]; intros [|x ns] H; cbn in *; auto.
  apply andb_true_iff in H. destruct H as [H1 H2]. rewrite H1. cbn. auto.
Qed.
Lemma skipn_forallb : forall (f : node -> bool) l ns, forallb f ns = true -> forallb f (skipn l ns) = true.
Proof.
  intros f l. induction l as [|l IH]; intros [|x ns] H; cbn in *; auto.
  apply andb_true_iff in H. destruct H as [_ H2]. auto.
Qed.
Lemma scan_sub : forall (f : node -> bool) ok sfuel ns sec, forallb f ns = true ->
  In sec (scan sfuel ok ns) -> forallb f sec = true.
Proof.
  intros f ok sfuel. induction sfuel as [|k IH]; intros ns sec Hf H; cbn [scan] in H; [contradiction|].
  destruct ns as [|x tl]; [contradiction|].
  destruct (longest ok (x :: tl) (List.length (x :: tl))) as [l|] eqn:E.
  - destruct H as [H | H].
    + subst sec. apply firstn_forallb. assumption.
    + eapply IH; [|eassumption]. apply skipn_forallb. assumption.
  - eapply IH; [|eassumption]. cbn in Hf. apply andb_true_iff in Hf. tauto.
Qed.

Lemma pre_eval_sections_matches : forall lprim lmod asm fext binds big sigok fuel mode root sec,
  In sec (pre_eval_sections lprim lmod asm fext binds big sigok fuel mode root) ->
  matches_nodes lprim lmod asm fext binds big fuel mode sec = true.
Proof.
  intros until sec. unfold pre_eval_sections. intros H.
  destruct (is_lazy mode || forallb is_push root); [contradiction|].
  apply filter_In in H. destruct H as [_ H]. unfold evaluated in H.
  apply andb_true_iff in H. tauto.
Qed.

Lemma pre_eval_sections_sub : forall (f : node -> bool) lprim lmod asm fext binds big sigok fuel mode root sec,
  forallb f root = true ->
  In sec (pre_eval_sections lprim lmod asm fext binds big sigok fuel mode root) -> forallb f sec = true.
Proof.
  intros until sec. intros Hf. unfold pre_eval_sections. intros H.
  destruct (is_lazy mode || forallb is_push root); [contradiction|].
  apply filter_In in H. destruct H as [H _]. eapply scan_sub; eassumption.
Qed.

(** * The theorems of the property *)
Section Theorems.
  Variable lprim : N -> pinfo.
  Variable lmod : modk -> purity.
  Variable asm : list node.
  Variable fext : list bool.
  Variable binds : list bkind.
  Variable big : sval -> bool.
  Variable sigok : list node -> bool.
  Variable St : Type.
  Variable psem : N -> St -> option St * list event.
  Variable msem : modk -> list sig -> St -> strat St.
  Variable nsem : node -> St -> option St.
  Variable win : node -> St -> option St.
  Variable wout : node -> St -> option St -> option St.
  Variable swsel : list sig -> sig -> bool -> St -> option (nat * St).
  Variable dynsem : sig -> St -> option St * list event.
  Notation runf := (run St psem msem nsem win wout swsel dynsem asm binds).
  Notation imp := (is_min_purity lprim lmod asm fext binds).

  Hypothesis Hprims : prims_respect lprim St psem.
  Hypothesis Hmods : mods_respect lmod St msem.

  Definition macros_ok (p : purity) (mt : list nat) : Prop :=
    forallb (mac_in mt) asm = true /\
    forall i f b, In i mt -> nth_error binds i = Some (BFunc f) -> nth_error asm f = Some b ->
      exists k, imp k p [] b = true.

  Theorem pure_no_effect : forall mt, macros_ok Pure mt ->
    forall k vis n, mac_in mt n = true -> imp k Pure vis n = true ->
    forall fuel s, snd (runf fuel n s) = [].
  Proof.
    intros mt [H1 H2] k vis n Hm H fuel s. apply forall_false_nil.
    exact (min_purity_allowed lprim lmod asm fext binds big St psem msem nsem win wout swsel dynsem
             Pure Normal eq_refl mt H1 H2 Hprims Hmods k vis n Hm H fuel s).
  Qed.

  Theorem impure_no_mutation : forall mt, macros_ok Impure mt ->
    forall k vis n, mac_in mt n = true -> imp k Impure vis n = true ->
    forall fuel s, Forall (fun e => read_only e = true) (snd (runf fuel n s)).
  Proof.
    intros mt [H1 H2] k vis n Hm H fuel s.
    exact (min_purity_allowed lprim lmod asm fext binds big St psem msem nsem win wout swsel dynsem
             Impure Lsp eq_refl mt H1 H2 Hprims Hmods k vis n Hm H fuel s).
  Qed.

  (** every section the scan of pre_eval hands to run-time evaluation, in a mode other than the
      editor's, runs without a single backend call - and it runs on the safe backend *)
  Theorem compile_effect_free : forall mode mt, mode <> Lsp -> macros_ok Pure mt ->
    forall k root sec, forallb (mac_in mt) root = true ->
    In sec (pre_eval_sections lprim lmod asm fext binds big sigok k mode root) ->
    comptime_backend mode = BSafe /\ forall fuel s, snd (runf fuel (Run sec) s) = [].
  Proof.
    intros mode mt Hl [H1 H2] k root sec Hr Hin. split.
    - destruct mode; try reflexivity. contradiction.
    - intros fuel s. apply forall_false_nil.
      assert (Hp : Pure = mode_min mode) by (destruct mode; try reflexivity; contradiction).
      exact (matches_allowed lprim lmod asm fext binds big St psem msem nsem win wout swsel dynsem
               Pure mode Hp mt H1 H2 Hprims Hmods k sec
               (pre_eval_sections_sub (mac_in mt) _ _ _ _ _ _ _ _ _ _ _ Hr Hin)
               (pre_eval_sections_matches _ _ _ _ _ _ _ _ _ _ _ Hin) fuel s).
  Qed.

  (** the same for any section comptime_node evaluates (constant bindings, binding.rs:498) *)
  Theorem comptime_node_effect_free : forall mode mt, mode <> Lsp -> macros_ok Pure mt ->
    forall k sec, forallb (mac_in mt) sec = true ->
    evaluated lprim lmod asm fext binds big k mode sec = true ->
    forall fuel s, snd (runf fuel (Run sec) s) = [].
  Proof.
    intros mode mt Hl [H1 H2] k sec Hs He fuel s. apply forall_false_nil.
    assert (Hp : Pure = mode_min mode) by (destruct mode; try reflexivity; contradiction).
    unfold evaluated in He. apply andb_true_iff in He. destruct He as [_ He].
    exact (matches_allowed lprim lmod asm fext binds big St psem msem nsem win wout swsel dynsem
             Pure mode Hp mt H1 H2 Hprims Hmods k sec Hs He fuel s).
  Qed.

  Theorem lsp_mode_readonly : forall mt, macros_ok Impure mt ->
    forall k root sec, forallb (mac_in mt) root = true ->
    In sec (pre_eval_sections lprim lmod asm fext binds big sigok k Lsp root) ->
    forall fuel s, Forall (fun e => read_only e = true) (snd (runf fuel (Run sec) s)).
  Proof.
    intros mt [H1 H2] k root sec Hr Hin fuel s.
    exact (matches_allowed lprim lmod asm fext binds big St psem msem nsem win wout swsel dynsem
             Impure Lsp eq_refl mt H1 H2 Hprims Hmods k sec
             (pre_eval_sections_sub (mac_in mt) _ _ _ _ _ _ _ _ _ _ _ Hr Hin)
             (pre_eval_sections_matches _ _ _ _ _ _ _ _ _ _ _ Hin) fuel s).
  Qed.

  (** nothing is evaluated in lazy mode *)
  Theorem lazy_evaluates_nothing : forall k root,
    pre_eval_sections lprim lmod asm fext binds big sigok k Lazy root = [] /\
    forall sec, evaluated lprim lmod asm fext binds big k Lazy sec = false.
  Proof.
    intros k root. split; [reflexivity|]. intros sec. unfold evaluated, matches_nodes.
    destruct (forallb is_push sec); reflexivity.
  Qed.

  (** sub-trees of an accepted tree are accepted; a tree pure at a level is pure at every lower one *)
  Theorem purity_monotone_subtree : forall k p vis n, imp k p vis n = true ->
    match n with
    | Run ns => forall x, In x ns -> exists k', imp k' p vis x = true
    | Mod _ args | Switch args _ _ => forall a, In a args -> exists k', imp k' p vis (snd a) = true
    | Arr _ i _ | NoInline i | TrackCaller _ i => exists k', imp k' p vis i = true
    | Call f _ => forall b, nth_error asm f = Some b -> exists k', imp k' p (f :: vis) b = true
    | _ => True end.
  Proof.
    intros k p vis n H. destruct k as [|k]; [discriminate|]. destruct n; cbn in H; auto.
    - intros x Hx. exists k. rewrite forallb_forall in H. auto.
    - intros a Ha. exists k. apply andb_true_iff in H. destruct H as [_ H].
      rewrite forallb_forall in H. auto.
    - intros b Hb. exists k. destruct (nth f fext false); [discriminate|].
      apply andb_true_iff in H. destruct H as [_ H]. rewrite Hb in H. assumption.
    - exists k. assumption.
    - intros a Ha. exists k. rewrite forallb_forall in H. auto.
    - exists k. assumption.
    - exists k. assumption.
  Qed.

  Lemma pge_trans : forall a b c, pge a b = true -> pge b c = true -> pge a c = true.
  Proof. intros [] [] []; cbn; auto. Qed.

  Theorem purity_monotone_level : forall p q, pge p q = true ->
    forall k vis n, imp k p vis n = true -> imp k q vis n = true.
  Proof.
    intros p q Hpq k. induction k as [|k IH]; intros vis n H; [discriminate|].
    destruct n; cbn in *; auto.
    - eapply pge_trans; eassumption.
    - eapply pge_trans; eassumption.
    - rewrite forallb_forall in *. auto.
    - apply andb_true_iff in H. destruct H as [H1 H2]. apply andb_true_iff. split.
      + eapply pge_trans; eassumption.
      + rewrite forallb_forall in *. auto.
    - destruct (nth f fext false); [discriminate|].
      apply andb_true_iff in H. destruct H as [H1 H2]. rewrite H1. cbn.
      destruct (nth_error asm f); [auto|discriminate].
    - destruct (nth_error binds i) as [[h|f|]|]; auto.
      apply andb_true_iff in H. destruct H as [H1 H2]. rewrite H1. cbn.
      destruct (nth_error asm f); [auto|discriminate].
    - rewrite forallb_forall in *. auto.
    - destruct has_normal; auto.
  Qed.
End Theorems.

(** * Non-vacuity: a concrete instance in which a Pure tree runs silently and an unlabelled
    system function would be caught *)
Definition ex_lprim (id : N) : pinfo :=
  if N.eqb id 2000 then PI Mutating true false (* &p *)
  else if N.eqb id 2001 then PI Impure true false   (* &fras *)
  else PI Pure false false.
Definition ex_psem (id : N) (s : nat) : option nat * list event :=
  if N.eqb id 2000 then (Some s, ["print_str_stdout"%string])
  else if N.eqb id 2001 then (Some (S s), ["file_read_all"%string])
  else (Some (S s), []).
Definition ex_msem (m : modk) (sg : list sig) (s : nat) : strat nat :=
  SRun 0 s (fun r => match r with Some s' => SRun 0 s' (fun r2 => SRet r2) | None => SRet None end).
Definition ex_lmod : modk -> purity := modk_purity (fun _ => Pure).
Definition ex_run := run nat ex_psem ex_msem (fun _ s => Some s) (fun _ s => Some s) (fun _ _ r => r)
  (fun _ _ _ s => Some (0, s)) (fun _ s => (Some s, ["ffi"%string])).

Lemma ex_prims_respect : prims_respect ex_lprim nat ex_psem.
Proof.
  intros id s. unfold ex_psem, ex_lprim.
  destruct (N.eqb id 2000); [repeat constructor|].
  destruct (N.eqb id 2001); [repeat constructor|]. constructor.
Qed.
Lemma ex_mods_respect : mods_respect ex_lmod nat ex_msem.
Proof.
  intros m sg s. unfold ex_msem. constructor. intros [s'|]; constructor. intros r; constructor.
Qed.
