(** C20 - what a whole compile may call: every item of the modelled fragment (top-level lines,
    constant bindings, other bindings, index macros, the pass over the function bodies) makes no
    backend call outside editor mode and only read-only ones in it; whatever a compile calls comes
    from one of the explicit exceptions (comptime, code macro, import). *)
From Coq Require Import List Arith NArith Bool String Lia.
From UV Require Import Model.Node Model.Gate Proofs.Gate.
Import ListNotations.

Lemma flat_map_nil : forall {A B} (f : A -> list B) l, (forall x, In x l -> f x = []) -> flat_map f l = [].
Proof.
  intros A B f l. induction l as [|x t IH]; intros H; cbn; [reflexivity|].
  rewrite (H x (or_introl eq_refl)). cbn. apply IH. intros y Hy. apply H. right; assumption.
Qed.
Lemma flat_map_Forall : forall {A B} (P : B -> Prop) (f : A -> list B) l,
  (forall x, In x l -> Forall P (f x)) -> Forall P (flat_map f l).
Proof.
  intros A B P f l. induction l as [|x t IH]; intros H; cbn; [constructor|].
  apply Forall_app. split; [apply H; left; reflexivity | apply IH; intros y Hy; apply H; right; assumption].
Qed.
Lemma mac_in_slice : forall mt b, mac_in mt b = true -> forallb (mac_in mt) (as_slice b) = true.
Proof. intros mt b H. destruct b; cbn [as_slice]; try (cbn [forallb]; rewrite H; reflexivity). cbn [mac_in] in H. exact H. Qed.

Section CompileSound.
  Variable lprim : N -> pinfo.
  Variable lmod : modk -> purity.
  Variable asm : list node.
  Variable fext : list bool.
  Variable binds : list bkind.
  Variable big : sval -> bool.
  Variable sigok : list node -> bool.
  Variable gfuel : nat.
  Variable St : Type.
  Variable psem : N -> St -> option St * list event.
  Variable msem : modk -> list sig -> St -> strat St.
  Variable nsem : node -> St -> option St.
  Variable win : node -> St -> option St.
  Variable wout : node -> St -> option St -> option St.
  Variable swsel : list sig -> sig -> bool -> St -> option (nat * St).
  Variable dynsem : sig -> St -> option St * list event.
  Variable rfuel : nat.
  Variable s0 : St.
  Variable import_events : list event.

  Hypothesis Hprims : prims_respect lprim St psem.
  Hypothesis Hmods : mods_respect lmod St msem.
  Variable mt : list nat.
  Hypothesis Hmac : macros_ok lprim lmod asm fext binds Pure mt.

  Notation ctr := (ctrace lprim lmod asm fext binds big sigok gfuel St psem msem nsem win wout swsel dynsem rfuel s0 import_events).
  Notation etr := (eval_trace asm binds St psem msem nsem win wout swsel dynsem rfuel s0).

  Lemma macros_ok_impure : macros_ok lprim lmod asm fext binds Impure mt.
  Proof.
    destruct Hmac as [H1 H2]. split; [assumption|]. intros i f b Hi Hb Ha.
    destruct (H2 i f b Hi Hb Ha) as [k Hk]. exists k.
    eapply purity_monotone_level; [|eassumption]. reflexivity.
  Qed.

  (** a constant binding calls nothing in ANY mode, the editor's included: its gate is is_pure *)
  Theorem const_binding_silent : forall mode ns, forallb (mac_in mt) ns = true -> ctr mode (IConstBind ns) = [].
  Proof.
    intros mode ns Hn. cbn [ctrace]. destruct (const_evaluated _ _ _ _ _ _ _ _ _) eqn:E; [|reflexivity].
    unfold const_evaluated in E. apply andb_true_iff in E. destruct E as [E _].
    apply andb_true_iff in E. destruct E as [_ E]. unfold eval_trace.
    exact (pure_no_effect lprim lmod asm fext binds big St psem msem nsem win wout swsel dynsem Hprims Hmods
             mt Hmac gfuel [] (Run ns) Hn E rfuel s0).
  Qed.

  Lemma asm_slices_mac : forall b, In b asm -> forallb (mac_in mt) (as_slice b) = true.
  Proof.
    intros b Hb. apply mac_in_slice. destruct Hmac as [H1 _]. rewrite forallb_forall in H1. auto.
  Qed.

  (** a gated item is silent outside editor mode *)
  Theorem gated_item_silent : forall mode it, mode <> Lsp -> gated_item it = true ->
    forallb (mac_in mt) (item_nodes it) = true -> ctr mode it = [].
  Proof.
    intros mode it Hl Hg Hn. destruct it; cbn [gated_item] in Hg; try discriminate; cbn [item_nodes] in Hn.
    - (* ILine *)
      cbn [ctrace]. unfold line_sections. destruct (mode_rank mode <=? 1); [reflexivity|].
      apply flat_map_nil. intros sec Hs. unfold eval_trace.
      exact (proj2 (compile_effect_free lprim lmod asm fext binds big sigok St psem msem nsem win wout swsel dynsem
               Hprims Hmods mode mt Hl Hmac gfuel ns sec Hn Hs) rfuel s0).
    - apply const_binding_silent. assumption.
    - reflexivity.
    - reflexivity.
    - (* IFuncBodies *)
      cbn [ctrace]. apply flat_map_nil. intros sec Hs. unfold body_sections in Hs.
      apply in_flat_map in Hs. destruct Hs as [b [Hb Hs]]. unfold eval_trace.
      exact (proj2 (compile_effect_free lprim lmod asm fext binds big sigok St psem msem nsem win wout swsel dynsem
               Hprims Hmods mode mt Hl Hmac gfuel (as_slice b) sec (asm_slices_mac b Hb) Hs) rfuel s0).
  Qed.

  (** in editor mode a gated item makes only read-only calls *)
  Theorem gated_item_lsp_readonly : forall it, gated_item it = true ->
    forallb (mac_in mt) (item_nodes it) = true -> Forall (fun e => read_only e = true) (ctr Lsp it).
  Proof.
    intros it Hg Hn. destruct it; cbn [gated_item] in Hg; try discriminate; cbn [item_nodes] in Hn.
    - cbn [ctrace]. unfold line_sections. cbn. apply flat_map_Forall. intros sec Hs. unfold eval_trace.
      exact (lsp_mode_readonly lprim lmod asm fext binds big sigok St psem msem nsem win wout swsel dynsem
               Hprims Hmods mt macros_ok_impure gfuel ns sec Hn Hs rfuel s0).
    - rewrite const_binding_silent by assumption. constructor.
    - constructor.
    - constructor.
    - cbn [ctrace]. apply flat_map_Forall. intros sec Hs. unfold body_sections in Hs.
      apply in_flat_map in Hs. destruct Hs as [b [Hb Hs]]. unfold eval_trace.
      exact (lsp_mode_readonly lprim lmod asm fext binds big sigok St psem msem nsem win wout swsel dynsem
               Hprims Hmods mt macros_ok_impure gfuel (as_slice b) sec (asm_slices_mac b Hb) Hs rfuel s0).
  Qed.

  Notation ctrs := (compile_trace lprim lmod asm fext binds big sigok gfuel St psem msem nsem win wout swsel dynsem rfuel s0 import_events).

  (** a whole compile of gated items *)
  Theorem gated_compile_silent : forall mode items, mode <> Lsp ->
    (forall it, In it items -> gated_item it = true /\ forallb (mac_in mt) (item_nodes it) = true) ->
    ctrs mode items = [].
  Proof.
    intros mode items Hl H. unfold compile_trace. apply flat_map_nil. intros it Hi.
    destruct (H it Hi). apply gated_item_silent; assumption.
  Qed.
  Theorem gated_compile_lsp_readonly : forall items,
    (forall it, In it items -> gated_item it = true /\ forallb (mac_in mt) (item_nodes it) = true) ->
    Forall (fun e => read_only e = true) (ctrs Lsp items).
  Proof.
    intros items H. unfold compile_trace. apply flat_map_Forall. intros it Hi.
    destruct (H it Hi). apply gated_item_lsp_readonly; assumption.
  Qed.

  (** any compile outside editor mode: every backend call comes from an explicit exception item *)
  Theorem compile_calls_from_exceptions : forall mode items e, mode <> Lsp ->
    (forall it, In it items -> forallb (mac_in mt) (item_nodes it) = true) ->
    In e (ctrs mode items) ->
    exists it, In it items /\ gated_item it = false /\ In e (ctr mode it).
  Proof.
    intros mode items e Hl Hn He. unfold compile_trace in He. apply in_flat_map in He.
    destruct He as [it [Hi He]]. exists it. split; [assumption|]. split; [|assumption].
    destruct (gated_item it) eqn:G; [|reflexivity].
    rewrite (gated_item_silent mode it Hl G (Hn it Hi)) in He. contradiction.
  Qed.
End CompileSound.
