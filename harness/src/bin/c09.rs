//! C09: no input can crash, abort or wedge the toolchain.
//!   c09 worker            isolated worker: reads `<mask-hex> <argseed> <nargs> <src-hex>` lines on stdin, runs the
//!                         requested stages of the toolchain on the text (fresh 8 MiB thread per input, or the
//!                         persistent "history" thread), prints one `R {json}` verdict line per input
//!   c09 search N          parent: generates N inputs (+ the fixed deep-nesting and known-crash corpora), farms them
//!                         out to worker processes, observes verdicts and worker deaths (exit status / signal),
//!                         shrinks each distinct crash, prints JSON lines
//!   c09 tie               boundary inputs for each resource guard with the implementation's verdict
//!   c09 probe [ARGSEED NARGS]   one input from stdin through a worker, full verdict (replay / debugging)
//!
//! Stages per input: lex, parse, format_str (default config), Spans::from_input, compile in the four
//! PreEvalModes, run under Uiua::with_safe_sys() + 2 s execution limit + a low recursion limit.
//! The worker installs a panic hook that records `Location` and message of EVERY panic, including those that
//! uiua's own catching_crash turns into "The interpreter/compiler has crashed" errors.
#![allow(clippy::all)]
use std::collections::{BTreeMap, BTreeSet};
use std::fmt::Write as _;
use std::io::{BufRead, BufReader, Read, Write};
use std::process::{Child, ChildStdin, ChildStdout, Command, Stdio};
use std::sync::atomic::{AtomicUsize, Ordering};
use std::sync::{mpsc, Arc, Mutex};
use std::time::{Duration, Instant};

use uiua::format::{format_str, FormatConfig};
use uiua::{Compiler, Inputs, PreEvalMode, Primitive, SafeSys, Spans, Uiua};
use uvh::*;

// ---------------------------------------------------------------- stages

const ST_LEX: u32 = 1;
const ST_PARSE: u32 = 2;
const ST_FORMAT: u32 = 4;
const ST_SPANS: u32 = 8;
const ST_C_LAZY: u32 = 16;
const ST_C_LINE: u32 = 32;
const ST_C_NORMAL: u32 = 64;
const ST_C_LSP: u32 = 128;
const ST_RUN: u32 = 256;
const ST_ALL: u32 = 511;
/// run on the worker's persistent thread (thread-local caches survive between inputs)
const FL_HISTORY: u32 = 1 << 16;
/// run stage with the default recursion limit instead of the low one
const FL_DEFAULT_RECURSION: u32 = 1 << 17;
/// run stage with this recursion limit: bits 20.. (0 = not set)
const RECUR_SHIFT: u32 = 20;
/// report the top of the stack of a successful run in the verdict
const FL_SHOW: u32 = 1 << 18;

const LOW_RECURSION: usize = 40;
const EXEC_LIMIT_S: u64 = 2;
fn hang_s() -> u64 {
    std::env::var("C09_HANG_S").ok().and_then(|s| s.parse().ok()).unwrap_or(25)
}
const STACK_BYTES: usize = 8 << 20;

const STAGES: [(u32, &str); 9] = [
    (ST_LEX, "lex"),
    (ST_PARSE, "parse"),
    (ST_FORMAT, "format"),
    (ST_SPANS, "spans"),
    (ST_C_LAZY, "compile-lazy"),
    (ST_C_LINE, "compile-line"),
    (ST_C_NORMAL, "compile-normal"),
    (ST_C_LSP, "compile-lsp"),
    (ST_RUN, "run"),
];

fn stage_class(s: &str) -> &str {
    if s.starts_with("compile") { "compile" } else { s }
}

// ---------------------------------------------------------------- worker

static PANICS: Mutex<Vec<(String, String)>> = Mutex::new(Vec::new());
static CUR_STAGE: AtomicUsize = AtomicUsize::new(0);
/// time spent executing (not compiling) in the last run stage; u64::MAX = execution was not reached
static EXEC_MS: std::sync::atomic::AtomicU64 = std::sync::atomic::AtomicU64::new(u64::MAX);

fn norm_loc(file: &str, line: u32) -> String {
    let f = if let Some(i) = file.find("/repo/") {
        &file[i + 6..]
    } else if let Some(i) = file.find("/registry/src/") {
        let rest = &file[i + 14..];
        rest.split_once('/').map(|x| x.1).unwrap_or(rest)
    } else if let Some(i) = file.find("/library/") {
        &file[i + 1..]
    } else {
        file
    };
    format!("{f}:{line}")
}

fn install_hook() {
    std::panic::set_hook(Box::new(|info| {
        let loc = info.location().map(|l| norm_loc(l.file(), l.line())).unwrap_or_else(|| "?".into());
        let p = info.payload();
        let msg = if let Some(s) = p.downcast_ref::<String>() {
            s.clone()
        } else if let Some(s) = p.downcast_ref::<&str>() {
            s.to_string()
        } else {
            "panic".to_string()
        };
        if let Ok(mut g) = PANICS.lock() {
            if g.len() < 8 {
                g.push((loc, msg.chars().take(240).collect()));
            }
        }
    }));
}

fn quiet<T>(f: impl FnOnce() -> T) -> Result<T, ()> {
    std::panic::catch_unwind(std::panic::AssertUnwindSafe(f)).map_err(|_| ())
}

struct StageRes {
    stage: &'static str,
    /// ok | err | panic (escaped the API) | crashed (reported as "has crashed") | bug ("bug in the interpreter" text)
    kind: &'static str,
    loc: String,
    msg: String,
    ms: u128,
    /// run stage only: milliseconds spent executing the compiled program
    exec_ms: u64,
}

fn scan(text: &str) -> Option<&'static str> {
    if text.contains("has crashed") {
        Some("crashed")
    } else if text.contains("bug in the interpreter") {
        Some("bug")
    } else {
        None
    }
}

fn one_line(s: &str, n: usize) -> String {
    s.chars().map(|c| if c == '\n' { ' ' } else { c }).take(n).collect()
}

fn run_stage(stage: &'static str, f: impl FnOnce() -> Result<String, String>) -> StageRes {
    PANICS.lock().map(|mut g| g.clear()).ok();
    let t = Instant::now();
    let r = quiet(f);
    let ms = t.elapsed().as_millis();
    let first = PANICS.lock().ok().and_then(|g| g.first().cloned());
    let (kind, loc, msg) = match r {
        Err(()) => {
            let (l, m) = first.unwrap_or_else(|| ("?".into(), "panic".into()));
            ("panic", l, m)
        }
        Ok(Ok(info)) => match first {
            // a panic that something inside swallowed without reporting it at all
            Some((l, m)) => ("swallowed", l, m),
            None => ("ok", String::new(), info),
        },
        Ok(Err(text)) => match scan(&text) {
            Some(k) => {
                let (l, m) = first.unwrap_or_else(|| ("?".into(), one_line(&text, 200)));
                (k, l, m)
            }
            None => match first {
                Some((l, m)) => ("swallowed", l, m),
                None => ("err", String::new(), one_line(&text, 80)),
            },
        },
    };
    StageRes { stage, kind, loc, msg, ms, exec_ms: 0 }
}

fn compile_stage(src: &str, mode: PreEvalMode) -> Result<String, String> {
    let mut c = Compiler::with_backend(SafeSys::default());
    c.pre_eval_mode(mode);
    let r = c.load_str(src).map(|_| ()).map_err(|e| e.to_string());
    let mut text = String::new();
    for d in c.take_diagnostics() {
        let s = d.to_string();
        if scan(&s).is_some() {
            text.push_str(&s);
        }
    }
    match r {
        Err(e) => Err(e),
        Ok(()) if !text.is_empty() => Err(text),
        Ok(()) => Ok(String::new()),
    }
}

fn run_all(src: &str, mask: u32, argseed: u64, nargs: usize) -> Vec<StageRes> {
    let mut out = Vec::new();
    for (i, (bit, name)) in STAGES.iter().enumerate() {
        if mask & bit == 0 {
            continue;
        }
        CUR_STAGE.store(i, Ordering::SeqCst);
        let name: &'static str = name;
        let r = match *bit {
            ST_LEX => run_stage(name, || {
                let (_t, errs, _) = uiua::lex(src, (), &mut Inputs::default());
                if errs.is_empty() { Ok(String::new()) } else { Err(errs.iter().map(|e| e.value.to_string()).collect::<Vec<_>>().join("; ")) }
            }),
            ST_PARSE => run_stage(name, || {
                let (_items, errs, _d) = uiua::parse(src, (), &mut Inputs::default());
                if errs.is_empty() { Ok(String::new()) } else { Err(errs.iter().map(|e| e.value.to_string()).collect::<Vec<_>>().join("; ")) }
            }),
            ST_FORMAT => run_stage(name, || format_str(src, &FormatConfig::default()).map(|_| String::new()).map_err(|e| e.to_string())),
            ST_SPANS => run_stage(name, || {
                let _ = Spans::from_input(src);
                Ok(String::new())
            }),
            ST_C_LAZY => run_stage(name, || compile_stage(src, PreEvalMode::Lazy)),
            ST_C_LINE => run_stage(name, || compile_stage(src, PreEvalMode::Line)),
            ST_C_NORMAL => run_stage(name, || compile_stage(src, PreEvalMode::Normal)),
            ST_C_LSP => run_stage(name, || compile_stage(src, PreEvalMode::Lsp)),
            _ => run_stage(name, || {
                let mut env = Uiua::with_safe_sys().with_execution_limit(Duration::from_secs(EXEC_LIMIT_S));
                let lim = (mask >> RECUR_SHIFT) as usize;
                if lim > 0 {
                    env = env.with_recursion_limit(lim);
                } else if mask & FL_DEFAULT_RECURSION == 0 {
                    env = env.with_recursion_limit(LOW_RECURSION);
                }
                if nargs > 0 {
                    let mut r = Rng::new(argseed);
                    let cfg = GenCfg::default();
                    for _ in 0..nargs {
                        env.push(gen_value(&mut r, &cfg, 0));
                    }
                }
                // as Uiua::run_str (compile_run): compile with the safe backend, then run the assembly; only the
                // execution is under the execution limit, so it is timed separately
                EXEC_MS.store(u64::MAX, Ordering::SeqCst);
                let mut comp = Compiler::with_backend(SafeSys::default());
                let res = match comp.load_str(src).map(|c| c.finish()) {
                    Err(e) => Err(e.to_string()),
                    Ok(asm) => {
                        let t = Instant::now();
                        let r = env.run_asm(asm).map_err(|e| e.to_string());
                        EXEC_MS.store(t.elapsed().as_millis() as u64, Ordering::SeqCst);
                        r
                    }
                };
                // showing the results is part of what a user does with them
                let stack = env.take_stack();
                let mut info = String::new();
                if res.is_ok() {
                    for v in stack.iter().rev().take(4) {
                        if v.shape.elements() <= 4096 {
                            let s = v.show();
                            if mask & FL_SHOW != 0 && info.is_empty() {
                                info = one_line(&s, 60);
                            }
                        }
                    }
                }
                res.map(|_| info)
            }),
        };
        let mut r = r;
        if *bit == ST_RUN {
            let e = EXEC_MS.load(Ordering::SeqCst);
            r.exec_ms = if e == u64::MAX { 0 } else { e };
        }
        out.push(r);
    }
    out
}

fn verdict_json(rs: &[StageRes]) -> String {
    let mut s = String::from("{\"st\":[");
    for (i, r) in rs.iter().enumerate() {
        if i > 0 {
            s.push(',');
        }
        if r.kind == "ok" && r.msg.is_empty() {
            write!(s, "[{},\"ok\",{}]", jstr(r.stage), r.ms).unwrap();
        } else {
            write!(s, "[{},{},{},{},{}]", jstr(r.stage), jstr(r.kind), r.ms, jstr(&r.loc), jstr(&r.msg)).unwrap();
        }
    }
    let exec: u64 = rs.iter().map(|r| r.exec_ms).max().unwrap_or(0);
    write!(s, "],\"exec_ms\":{exec}}}").unwrap();
    s
}

fn unhex(h: &str) -> Option<String> {
    let b = h.as_bytes();
    if b.len() % 2 != 0 {
        return None;
    }
    let mut out = Vec::with_capacity(b.len() / 2);
    for ch in b.chunks(2) {
        out.push(u8::from_str_radix(std::str::from_utf8(ch).ok()?, 16).ok()?);
    }
    String::from_utf8(out).ok()
}

fn hex(s: &str) -> String {
    let mut o = String::with_capacity(s.len() * 2);
    for b in s.bytes() {
        write!(o, "{b:02x}").unwrap();
    }
    o
}

type Job = (String, u32, u64, usize);

fn worker_main() {
    install_hook();
    // persistent thread for the history family
    let mut hist: Option<(mpsc::Sender<Job>, mpsc::Receiver<Vec<StageRes>>)> = None;
    let stdin = std::io::stdin();
    let stdout = std::io::stdout();
    for line in stdin.lock().lines() {
        let Ok(line) = line else { break };
        let mut it = line.split(' ');
        let mask = it.next().and_then(|m| u32::from_str_radix(m, 16).ok()).unwrap_or(ST_ALL);
        let argseed: u64 = it.next().and_then(|m| m.parse().ok()).unwrap_or(0);
        let nargs: usize = it.next().and_then(|m| m.parse().ok()).unwrap_or(0);
        let Some(src) = it.next().and_then(unhex) else {
            let mut o = stdout.lock();
            writeln!(o, "R {{\"bad\":true}}").ok();
            o.flush().ok();
            continue;
        };
        let rx_res: Result<Vec<StageRes>, mpsc::RecvTimeoutError> = if mask & FL_HISTORY != 0 {
            if hist.is_none() {
                let (tx, rx) = mpsc::channel::<Job>();
                let (tx2, rx2) = mpsc::channel();
                std::thread::Builder::new()
                    .stack_size(STACK_BYTES)
                    .spawn(move || {
                        for (s, m, a, n) in rx {
                            if tx2.send(run_all(&s, m, a, n)).is_err() {
                                break;
                            }
                        }
                    })
                    .unwrap();
                hist = Some((tx, rx2));
            }
            let (tx, rx2) = hist.as_ref().unwrap();
            tx.send((src.clone(), mask, argseed, nargs)).ok();
            rx2.recv_timeout(Duration::from_secs(hang_s()))
        } else {
            let (tx, rx) = mpsc::channel();
            let s2 = src.clone();
            std::thread::Builder::new()
                .stack_size(STACK_BYTES)
                .spawn(move || {
                    tx.send(run_all(&s2, mask, argseed, nargs)).ok();
                })
                .unwrap();
            rx.recv_timeout(Duration::from_secs(hang_s()))
        };
        let mut o = stdout.lock();
        match rx_res {
            Ok(rs) => {
                writeln!(o, "R {}", verdict_json(&rs)).ok();
                o.flush().ok();
            }
            Err(mpsc::RecvTimeoutError::Timeout) => {
                let st = STAGES[CUR_STAGE.load(Ordering::SeqCst).min(8)].1;
                writeln!(o, "R {{\"hang\":{}}}", jstr(st)).ok();
                o.flush().ok();
                std::process::exit(3);
            }
            Err(mpsc::RecvTimeoutError::Disconnected) => {
                // the thread died without sending: a panic outside every catch (should not happen)
                writeln!(o, "R {{\"lost\":true}}").ok();
                o.flush().ok();
            }
        }
    }
}

// ---------------------------------------------------------------- parent side: worker handle

/// time after which the pool declares an input hung (confirmed afterwards with CONFIRM_HANG_S)
fn pool_hang_s() -> u64 {
    std::env::var("C09_POOL_HANG_S").ok().and_then(|s| s.parse().ok()).unwrap_or(10)
}
/// a stage is a wedge when it gives no result within this time when re-run alone (40 s quick, 150 s thorough:
/// super-linear stages on 10^5-sized inputs finish in 10-60 s and are reported as slow, not hung)
fn confirm_hang_s() -> u64 {
    std::env::var("C09_CONFIRM_HANG_S").ok().and_then(|s| s.parse().ok()).unwrap_or(40)
}
/// a run that returns later than this under the 2 s execution limit did not respect the limit
const RUN_OVERRUN_MS: u64 = 10000;

#[derive(Clone, Debug)]
struct Finding {
    /// key without the input signature
    base: String,
    stage: String,
    kind: String,
    loc: String,
    msg: String,
}

#[derive(Clone, Debug, Default)]
struct Verdict {
    stages: Vec<(String, String, u64, String)>, // (stage, kind, ms, message)
    findings: Vec<Finding>,
    died: bool,
    /// milliseconds the run stage spent executing (compilation excluded)
    exec_ms: u64,
}

struct Worker {
    child: Child,
    sin: ChildStdin,
    sout: BufReader<ChildStdout>,
    errtail: Arc<Mutex<String>>,
    spawned: usize,
    max_mb: String,
    hang_s: u64,
}

fn spawn_child(max_mb: &str, hang_s: u64) -> (Child, ChildStdin, BufReader<ChildStdout>, Arc<Mutex<String>>) {
    let exe = std::env::current_exe().unwrap();
    // address-space cap: an unguarded giant allocation aborts instead of thrashing the machine
    let mut child = Command::new("sh")
        .arg("-c")
        .arg("ulimit -v 12000000 2>/dev/null; ulimit -c 0 2>/dev/null; exec \"$0\" worker")
        .arg(&exe)
        .env("UIUA_MAX_MB", max_mb)
        .env("C09_HANG_S", hang_s.to_string())
        .env_remove("UIUA_RECURSION_LIMIT")
        .stdin(Stdio::piped())
        .stdout(Stdio::piped())
        .stderr(Stdio::piped())
        .spawn()
        .expect("spawn worker");
    let sin = child.stdin.take().unwrap();
    let sout = BufReader::new(child.stdout.take().unwrap());
    let mut serr = child.stderr.take().unwrap();
    let tail = Arc::new(Mutex::new(String::new()));
    let t2 = tail.clone();
    std::thread::spawn(move || {
        let mut buf = [0u8; 4096];
        loop {
            match serr.read(&mut buf) {
                Ok(0) | Err(_) => break,
                Ok(n) => {
                    let mut g = t2.lock().unwrap();
                    g.push_str(&String::from_utf8_lossy(&buf[..n]));
                    if g.len() > 6000 {
                        let cut = g.len() - 3000;
                        let mut k = cut;
                        while !g.is_char_boundary(k) {
                            k += 1;
                        }
                        *g = g[k..].to_string();
                    }
                }
            }
        }
    });
    (child, sin, sout, tail)
}

impl Worker {
    fn new(max_mb: &str) -> Self {
        Self::with_hang(max_mb, pool_hang_s())
    }
    fn with_hang(max_mb: &str, hang_s: u64) -> Self {
        let (child, sin, sout, errtail) = spawn_child(max_mb, hang_s);
        Worker { child, sin, sout, errtail, spawned: 1, max_mb: max_mb.to_string(), hang_s }
    }
    fn respawn(&mut self) {
        let _ = self.child.kill();
        let _ = self.child.wait();
        let (child, sin, sout, errtail) = spawn_child(&self.max_mb, self.hang_s);
        self.child = child;
        self.sin = sin;
        self.sout = sout;
        self.errtail = errtail;
        self.spawned += 1;
    }
    /// low level: one request; None = the worker died (status text returned separately)
    fn request(&mut self, src: &str, mask: u32, argseed: u64, nargs: usize) -> Result<serde_json::Value, String> {
        let line = format!("{mask:x} {argseed} {nargs} {}\n", hex(src));
        let sent = self.sin.write_all(line.as_bytes()).and_then(|_| self.sin.flush());
        let mut got: Option<serde_json::Value> = None;
        if sent.is_ok() {
            loop {
                let mut l = String::new();
                match self.sout.read_line(&mut l) {
                    Ok(0) | Err(_) => break,
                    Ok(_) => {
                        if let Some(rest) = l.strip_prefix("R ") {
                            got = serde_json::from_str(rest.trim()).ok();
                            break;
                        }
                    }
                }
            }
        }
        match got {
            Some(v) if v.get("hang").is_some() => {
                let _ = self.child.wait();
                self.respawn();
                Ok(v)
            }
            Some(v) => Ok(v),
            None => {
                use std::os::unix::process::ExitStatusExt;
                let st = self.child.wait().ok();
                // the reader thread may not have delivered the abort message yet (seen under load): wait for it
                let mut tail = String::new();
                for _ in 0..100 {
                    std::thread::sleep(Duration::from_millis(20));
                    tail = self.errtail.lock().map(|g| g.clone()).unwrap_or_default();
                    if !tail.trim().is_empty() {
                        std::thread::sleep(Duration::from_millis(20));
                        tail = self.errtail.lock().map(|g| g.clone()).unwrap_or_default();
                        break;
                    }
                }
                let how = match st {
                    Some(s) => match s.signal() {
                        Some(6) => "SIGABRT".to_string(),
                        Some(11) => "SIGSEGV".to_string(),
                        Some(9) => "SIGKILL".to_string(),
                        Some(n) => format!("SIG{n}"),
                        None => format!("exit{}", s.code().unwrap_or(-1)),
                    },
                    None => "unknown".into(),
                };
                let hint = if tail.contains("overflowed its stack") {
                    "stack-overflow"
                } else if tail.contains("memory allocation of") {
                    "alloc-failed"
                } else if tail.contains("capacity overflow") {
                    "capacity-overflow"
                } else if how == "SIGSEGV" {
                    "segv"
                } else {
                    "other"
                };
                let last = tail
                    .lines()
                    .rev()
                    .find(|l| l.contains("memory allocation of") || l.contains("overflowed its stack") || l.contains("stack overflow") || l.contains("capacity overflow") || l.contains("panicked at"))
                    .or_else(|| tail.lines().rev().find(|l| !l.trim().is_empty() && !l.starts_with("note:")))
                    .unwrap_or("")
                    .to_string();
                self.respawn();
                Err(format!("{how}:{hint}|{}", one_line(&last, 160)))
            }
        }
    }

    /// full evaluation: on a worker death the stages are re-run one by one to attribute it
    fn eval(&mut self, src: &str, mask: u32, argseed: u64, nargs: usize) -> Verdict {
        let mut v = Verdict::default();
        match self.request(src, mask, argseed, nargs) {
            Ok(j) => self.absorb(&j, &mut v),
            Err(how) => {
                v.died = true;
                let flags = mask & !ST_ALL;
                let stage_bits: Vec<u32> = STAGES.iter().map(|s| s.0).filter(|b| mask & b != 0).collect();
                let mut attributed = false;
                if stage_bits.len() > 1 && mask & FL_HISTORY == 0 {
                    for b in stage_bits {
                        match self.request(src, b | flags, argseed, nargs) {
                            Ok(j) => self.absorb(&j, &mut v),
                            Err(how2) => {
                                let st = STAGES.iter().find(|s| s.0 == b).unwrap().1;
                                v.findings.push(death_finding(&how2, st));
                                v.stages.push((st.to_string(), "died".into(), 0, how_msg(&v)));
                                attributed = true;
                            }
                        }
                    }
                }
                if !attributed {
                    let st = if mask.count_ones() == 1 || (mask & ST_ALL).count_ones() == 1 {
                        STAGES.iter().find(|s| mask & s.0 != 0).map(|s| s.1).unwrap_or("?")
                    } else {
                        "unattributed"
                    };
                    v.findings.push(death_finding(&how, st));
                    v.stages.push((st.to_string(), "died".into(), 0, how_msg(&v)));
                }
            }
        }
        v
    }

    fn absorb(&self, j: &serde_json::Value, v: &mut Verdict) {
        if let Some(st) = j.get("hang").and_then(|x| x.as_str()) {
            v.findings.push(Finding { base: "hang".to_string(), stage: st.into(), kind: "hang".into(), loc: String::new(), msg: format!("no result within {} s", self.hang_s) });
            v.stages.push((st.to_string(), "hang".into(), self.hang_s * 1000, String::new()));
            return;
        }
        if j.get("lost").is_some() {
            v.findings.push(Finding { base: "lost-thread".into(), stage: "?".into(), kind: "lost".into(), loc: String::new(), msg: "worker thread ended without a verdict".into() });
            return;
        }
        if let Some(e) = j.get("exec_ms").and_then(|x| x.as_u64()) {
            v.exec_ms = v.exec_ms.max(e);
        }
        let Some(arr) = j.get("st").and_then(|x| x.as_array()) else { return };
        for e in arr {
            let Some(a) = e.as_array() else { continue };
            let stage = a[0].as_str().unwrap_or("").to_string();
            let kind = a[1].as_str().unwrap_or("").to_string();
            let ms = a[2].as_u64().unwrap_or(0);
            let loc = a.get(3).and_then(|x| x.as_str()).unwrap_or("").to_string();
            let msg = a.get(4).and_then(|x| x.as_str()).unwrap_or("").to_string();
            if kind != "ok" && kind != "err" && kind != "swallowed" {
                let (loc, msg) = (loc.clone(), msg.clone());
                let overflow = msg.contains("with overflow") || msg.contains("attempt to negate") || msg.contains("attempt to shift");
                let base = if kind == "bug" && loc == "?" {
                    let m: String = msg.chars().filter(|c| !c.is_ascii_digit()).take(70).collect();
                    format!("bugmsg:{}", m.trim())
                } else {
                    format!("{}{}", if overflow { "overflow:" } else { "" }, loc)
                };
                v.findings.push(Finding { base, stage: stage.clone(), kind: kind.clone(), loc, msg });
            }
            v.stages.push((stage, kind, ms, msg));
        }
    }
}

fn how_msg(v: &Verdict) -> String {
    v.findings.last().map(|f| f.base.clone()).unwrap_or_default()
}

fn death_finding(how: &str, stage: &str) -> Finding {
    let (h, last) = how.split_once('|').unwrap_or((how, ""));
    Finding { base: format!("abort:{h}"), stage: stage.into(), kind: "abort".into(), loc: String::new(), msg: last.to_string() }
}

impl Drop for Worker {
    fn drop(&mut self) {
        let _ = self.child.kill();
        let _ = self.child.wait();
    }
}

// ---------------------------------------------------------------- input signature for abort/hang keys

/// run-length form of a text with counts rounded to a power of ten: "(×~10^4 +"
fn rle_sig(s: &str) -> String {
    let cs: Vec<char> = s.chars().collect();
    let mut out = String::new();
    // try period 1..=6 repetitions greedily
    let mut i = 0;
    while i < cs.len() && out.chars().count() < 48 {
        let mut best = (1usize, 1usize); // (period, count)
        for p in 1..=8usize {
            if i + p > cs.len() {
                break;
            }
            let mut c = 1;
            while i + (c + 1) * p <= cs.len() && cs[i + c * p..i + (c + 1) * p] == cs[i..i + p] {
                c += 1;
            }
            if c >= 4 && c * p > best.0 * best.1 {
                best = (p, c);
            }
        }
        let (p, c) = best;
        let unit: String = cs[i..i + p].iter().map(|&ch| if ch == '\n' { '⏎' } else { ch }).collect();
        if c >= 4 {
            let mag = (c as f64).log10().round() as u32;
            write!(out, "⟦{unit}⟧×~10^{mag}").unwrap();
        } else {
            out.push_str(&unit);
        }
        i += p * c;
    }
    if i < cs.len() {
        out.push('…');
    }
    out
}

/// coarse signature for hangs: only the repeated units of the text ("⟦≡⟧×~10^1"), else its first chars
fn rep_sig(s: &str) -> String {
    let full = rle_sig(s);
    let mut out = String::new();
    let mut rest = full.as_str();
    while let Some(a) = rest.find('⟦') {
        let tail = &rest[a..];
        let Some(b) = tail.find("×~10^") else { break };
        out.push_str(&tail[..b]);
        rest = &tail[b + "×~10^".len()..];
    }
    if out.is_empty() { s.chars().take(24).collect() } else { out }
}

// ---------------------------------------------------------------- generators

struct Gen {
    pieces: Vec<String>,
    nfixed: usize,
    corpus: Vec<String>,
    mon: Vec<String>,
    dya: Vec<String>,
    other_fn: Vec<String>,
    mod1: Vec<String>,
    mod2: Vec<String>,
}

const FIXED: &[&str] = &[
    "(", ")", "[", "]", "{", "}", "⟨", "⟩", "|", "_", "__12", "__", ",3", "₁₂", "₋", "⌞", "⌟", "₂", "₃", "₀", "ₙ", "₁", "₋₁",
    "←", "=", "=~", "←~", "↚", "┌─╴", "└─╴", "┌─╴M", "---", "---~", "~~~", "~", "~ \"x\" ~ A", "≁", "≈",
    "!", "‼", "^0", "^1", "^!", "^", "F!", "G‼", "M!", "F", "G", "X", "a", "Ab",
    "\"str\"", "\"", "\"a\\nb\"", "\"\\x41\"", "\"\\u{1F600}\"", "\"\\q\"", "$\"fmt_\"", "$\"_ _\"", "$\"", "$ line", "$$ f_", "$", "$Label", "$_",
    "@a", "@\\n", "@\\x", "@", "@\\u{41}", "@ ", "@\\", "@\\\\",
    "# comment", "#", "## out", "##", "#?", "# Experimental!", "# Deprecated! x",
    "1", "0", "2", "3", "¯1", "¯", "`2", "1.5", "1e5", "1e308", "1e-320", "1e", "e", "π", "η", "τ", "∞", "¯∞", "π/2", "1/2", "1/0", "0/0", "¯π/3", "e/π", "τ/∞", "∞/∞", "1e3/1e3", "255", "256", "4294967296", "1e19", "9007199254740993", "i", "1i", "ℂ1 2", "NaN",
    "\n", "\n", "\r\n", "\t", " ", " ", "  ",
    "[1 2 3]", "[]", "{}", "{1 \"a\"}", "[[1 2][3 4]]", "1_2_3", "1_2", "_", "□", "□□1", "°□", "◇", "⍚",
    "+", "-", "×", "÷", "=", "<", "⊂", "⊏", "⊡", "↯", "↙", "↘", "⇡", "△", "⧻", "⍉", "⇌", "♭", "¤", "⊢", "⊣", "∩", "⊃", "⊓", "⊙", "⋅", "⟜", "⊸", "⤙", "⤚", "◡", "∘", "◌", ".", ":", "˙", "˜",
    "/", "\\", "≡", "∵", "⊞", "⍥", "⍢", "⍜", "°", "⌝", "⬚", "⨬", "⍣", "⍩", "⊕", "⊜", "⧅", "⧈", "∧", "⍤", "memo", "comptime", "quote", "path", "recur", "dump",
    "binary", "°binary", "json", "°json", "csv", "°csv", "xlsx", "utf₈", "°utf₈", "parse", "°parse", "repr", "pretty", "datetime", "fft", "regex", "type", "map", "insert", "get", "has", "remove", "stringify", "tag", "now", "rand", "gen", "bits", "°bits", "base", "⊥", "⋯", "°⋯", "⍆", "⍏", "⍖", "◴", "◰", "⊛", "⦷", "⌕", "∊", "⨂", "⊗", "⍘",
    "&p", "&pf", "&s", "&sc", "&fras", "&exit", "&sl", "&var", "&cd", "&args", "&runc", "&ffi", "&memcpy", "&tcpl", "&rs", "&rb", "&ru", "&w", "&cl", "&b", "&ims", "&ap", "&asr", "&clget", "&invk", "&raw",
    "F ← +1", "F ← |1 F", "F ← F", "G ← |1.1 G", "M! ← ^0", "M! ← M!^0", "M‼ ← ^0^1", "A ← 5", "F = |2 +", "X ↚ 1", "E! ←^ ∘", "E! ←^ ⇌", "C! ←^ $\"_\"",
    "(+|-)", "⨬(+|-)", "⊃(+|-)", "⍜⊢", "/+", "≡⊂", "⍥(+1)", "⍥+∞", "⍢(+1|<10)", "⬚0+", "⬚@x¯", "⬚0↯", "°⊂", "°⊟", "°△", "°⊚", "⊚", "°⍉", "⌝⊡", "⌝↘", "⌝⊏",
];

fn read_corpus() -> Vec<String> {
    let mut corpus = Vec::new();
    for dir in ["/repo/tests", "/repo/examples"] {
        let mut files: Vec<_> = std::fs::read_dir(dir).map(|d| d.filter_map(|e| e.ok()).map(|e| e.path()).collect()).unwrap_or_default();
        files.sort();
        for f in files {
            if f.extension().and_then(|e| e.to_str()) == Some("ua") {
                if let Ok(s) = std::fs::read_to_string(&f) {
                    for l in s.lines() {
                        if !l.trim().is_empty() && l.len() < 200 {
                            corpus.push(l.to_string());
                        }
                    }
                }
            }
        }
    }
    corpus
}

impl Gen {
    fn new() -> Self {
        let mut pieces: Vec<String> = FIXED.iter().map(|s| s.to_string()).collect();
        let nfixed = pieces.len();
        let (mut mon, mut dya, mut other_fn, mut mod1, mut mod2) = (vec![], vec![], vec![], vec![], vec![]);
        for p in Primitive::all() {
            let text = match p.glyph() {
                Some(g) => g.to_string(),
                None => p.name().to_string(),
            };
            if text.is_empty() {
                continue;
            }
            pieces.push(text.clone());
            match (p.modifier_args(), p.args()) {
                (Some(1), _) => mod1.push(text),
                (Some(2), _) => mod2.push(text),
                (Some(_), _) => {}
                (None, Some(1)) => mon.push(text),
                (None, Some(2)) => dya.push(text),
                (None, _) => other_fn.push(text),
            }
        }
        Gen { pieces, nfixed, corpus: read_corpus(), mon, dya, other_fn, mod1, mod2 }
    }
    fn piece(&self, r: &mut Rng) -> &str {
        if r.chance(1, 2) { &self.pieces[r.below(self.nfixed)] } else { &self.pieces[r.below(self.pieces.len())] }
    }
    fn soup(&self, r: &mut Rng, max: usize) -> String {
        let n = 1 + r.below(max);
        let mut s = String::new();
        for _ in 0..n {
            s.push_str(self.piece(r));
            if r.chance(1, 3) {
                s.push(' ');
            }
        }
        s
    }
    fn bytes(&self, r: &mut Rng) -> String {
        let n = 1 + r.below(48);
        let mut b = Vec::with_capacity(n);
        for _ in 0..n {
            let x = match r.below(6) {
                0 => r.below(128) as u8,
                1 => *r.pick(b"()[]{}|_\"@$#~!^\\\n ,.;:'`=-+*/<>0123456789eE"),
                2 => 0xC0 + r.below(64) as u8,
                3 => 0x80 + r.below(64) as u8,
                4 => *r.pick(&[0xE2u8, 0x86, 0x90, 0x8A, 0x82, 0x96, 0xA1, 0xF0, 0x9D, 0x84]),
                _ => r.below(256) as u8,
            };
            b.push(x);
        }
        String::from_utf8_lossy(&b).into_owned()
    }
    /// split a line into rough tokens (glyph-wise; words and numbers kept together)
    fn tokens(line: &str) -> Vec<String> {
        let mut out: Vec<String> = Vec::new();
        let mut cur = String::new();
        for c in line.chars() {
            if c.is_ascii_alphanumeric() || c == '&' || c == '.' && cur.chars().all(|d| d.is_ascii_digit()) && !cur.is_empty() {
                cur.push(c);
            } else {
                if !cur.is_empty() {
                    out.push(std::mem::take(&mut cur));
                }
                out.push(c.to_string());
            }
        }
        if !cur.is_empty() {
            out.push(cur);
        }
        out
    }
    fn mutant(&self, r: &mut Rng) -> String {
        if self.corpus.is_empty() {
            return self.soup(r, 10);
        }
        let k = 1 + r.below(3);
        let at = r.below(self.corpus.len());
        let mut toks: Vec<String> = Vec::new();
        for j in 0..k {
            if j > 0 {
                toks.push("\n".into());
            }
            toks.extend(Self::tokens(&self.corpus[(at + j) % self.corpus.len()]));
        }
        for _ in 0..1 + r.below(4) {
            if toks.is_empty() {
                break;
            }
            let i = r.below(toks.len());
            match r.below(8) {
                0 => {
                    toks.remove(i);
                }
                1 => {
                    let t = toks[i].clone();
                    toks.insert(i, t);
                }
                2 => {
                    let j = r.below(toks.len());
                    toks.swap(i, j);
                }
                3 => {
                    // unbalance: drop the first bracket at or after i
                    if let Some(j) = (i..toks.len()).find(|&j| matches!(toks[j].as_str(), "(" | ")" | "[" | "]" | "{" | "}" | "\"")) {
                        toks.remove(j);
                    }
                }
                4 => toks.insert(i, (*r.pick(&["(", ")", "[", "]", "{", "}", "\"", "|", "_", "←", "!", "^", "~", "⬚", "°", "⌝", "⍜", "∞", "¯", "0", "□", "⍚"])).to_string()),
                5 => toks.insert(i, self.piece(r).to_string()),
                6 => {
                    // replace a number by an extreme one
                    if let Some(j) = (i..toks.len()).find(|&j| toks[j].chars().next().is_some_and(|c| c.is_ascii_digit())) {
                        toks[j] = (*r.pick(&["0", "∞", "¯1", "1e10", "1e19", "0.5", "NaN", "4294967296", "¯∞", "1e-9", "255", "256", "65536"])).to_string();
                    }
                }
                _ => toks.truncate(i),
            }
        }
        toks.concat()
    }
    fn lit(&self, r: &mut Rng) -> String {
        match r.below(14) {
            0 => "[]".into(),
            1 => "↯3_0 0".into(),
            2 => "↯0_3 0".into(),
            3 => "↯2_0_2 @a".into(),
            4 => format!("[{}]", (0..1 + r.below(4)).map(|_| r.range(-2, 5).to_string().replace('-', "¯")).collect::<Vec<_>>().join(" ")),
            5 => format!("↯{}_{} ⇡{}", 1 + r.below(3), r.below(4), 1 + r.below(12)),
            6 => "\"abc\"".into(),
            7 => "{1 \"ab\" [2 3]}".into(),
            8 => (*r.pick(&["∞", "¯∞", "NaN", "1e19", "4294967296", "0.5", "¯1", "1e308", "65536", "256"])).to_string(),
            9 => "□□[1 2]".into(),
            10 => "ℂ1 2".into(),
            11 => "°△2_2".into(),
            12 => "map [1 2] [3 4]".into(),
            _ => r.range(0, 9).to_string(),
        }
    }
    fn fterm(&self, r: &mut Rng, depth: usize) -> String {
        let k = r.below(100);
        if depth == 0 || k < 45 {
            let pool = match r.below(10) {
                0..=3 => &self.mon,
                4..=8 => &self.dya,
                _ => &self.other_fn,
            };
            let t = r.pick(pool).clone();
            if r.chance(1, 10) {
                format!("{t}{}", r.pick(&["₀", "₁", "₂", "₃", "₋₁", "₁₀", "⌞", "⌟"]))
            } else {
                t
            }
        } else if k < 55 {
            format!("°{}", self.fterm(r, depth - 1))
        } else if k < 62 {
            format!("⌝{}", self.fterm(r, depth - 1))
        } else if k < 70 {
            format!("⬚{}{}", r.pick(&["0", "@x", "[]", "∞", "□1", "(1 2)", "\"ab\""]), self.fterm(r, depth - 1))
        } else if k < 90 {
            let m = r.pick(&self.mod1).clone();
            let sub = if r.chance(1, 8) { (*r.pick(&["₀", "₁", "₂", "₃", "₋₁", "⌞", "⌟"])).to_string() } else { String::new() };
            format!("{m}{sub}({})", self.fbody(r, depth - 1))
        } else {
            let m = r.pick(&self.mod2).clone();
            format!("{m}({})({})", self.fbody(r, depth - 1), self.fbody(r, depth - 1))
        }
    }
    fn fbody(&self, r: &mut Rng, depth: usize) -> String {
        let n = 1 + r.below(2);
        (0..n).map(|_| self.fterm(r, depth)).collect::<Vec<_>>().join(" ")
    }
    /// a well-formed program built from Primitive::all() by arity, applied to literal arrays (and pushed values)
    fn arrprog(&self, r: &mut Rng) -> String {
        let body = self.fbody(r, 2);
        let nl = r.below(4);
        let lits: Vec<String> = (0..nl).map(|_| self.lit(r)).collect();
        format!("{} {}", body, lits.join(" "))
    }
}

/// deep nesting / resource bombs; n = nesting size
fn deep_inputs(ns: &[usize]) -> Vec<(String, String)> {
    let mut v: Vec<(String, String)> = Vec::new();
    for &n in ns {
        let rep = |s: &str| s.repeat(n);
        let mut add = |name: &str, s: String| v.push((format!("{name}:{n}"), wrap_lines(s)));
        add("open-paren", rep("("));
        add("open-bracket", rep("["));
        add("open-brace", rep("{"));
        add("close-paren", rep(")"));
        add("balanced-paren", format!("{}1{}", rep("("), rep(")")));
        add("balanced-bracket", format!("{}1{}", rep("["), rep("]")));
        add("balanced-brace", format!("{}1{}", rep("{"), rep("}")));
        add("switch-nest", format!("{}1{}", rep("(|"), rep(")")));
        add("box-chain", format!("{}1", rep("□")));
        add("box-chain-show", format!("&p {}1", rep("□")));
        add("inventory-chain", format!("{}+1 □1", rep("⍚")));
        add("rows-chain", format!("{}+1 [1]", rep("≡")));
        add("dip-chain", format!("{}+ 1 2", rep("⊙")));
        add("dip-paren-chain", format!("{}+{} 1 2", rep("⊙("), rep(")")));
        add("un-chain", format!("{}+ 1 2", rep("°")));
        add("under-chain", format!("{}+ 1 2", rep("⍜⊢")));
        add("neg-chain", format!("{}1", rep("¯")));
        add("strand-chain", format!("1{}", rep("_1")));
        add("subscript-chain", format!("⊟{} 1 2", rep("₁")));
        add("fill-chain", format!("{}+ 1 2", rep("⬚0")));
        add("string-open", format!("\"{}", rep("a")));
        add("format-string", format!("$\"{}\"", rep("_")));
        add("comment-lines", rep("# x\n"));
        add("multiline-string", rep("$ a\n"));
        add("bang-chain", format!("F{} ← ^0\nF{}+", rep("!"), rep("!")));
        add("ident-long", format!("{} ← 1", rep("Ab")));
        add("binding-chain", (0..n.min(20000)).map(|i| format!("A{} ← {}\n", to_alpha(i), if i == 0 { "1".to_string() } else { format!("A{}", to_alpha(i - 1)) })).collect::<String>());
        add("func-chain", (0..n.min(20000)).map(|i| format!("F{} ← {}\n", to_alpha(i), if i == 0 { "+1".to_string() } else { format!("F{}", to_alpha(i - 1)) })).collect::<String>() + &format!("F{} 1", to_alpha(n.min(20000) - 1)));
        add("module-nest", format!("{}{}", rep("┌─╴M\n"), rep("└─╴\n")));
        add("array-literal-wide", format!("[{}]", rep("1 ")));
        add("number-long", rep("9"));
        add("number-frac-long", format!("0.{}", rep("9")));
        add("number-exp-long", format!("1e{}", rep("9")));
        add("semicolon-chain", rep("+;"));
        add("pipe-chain", format!("({})", rep("|")));
        add("sig-chain", format!("({})", rep("|1 ")));
        add("at-chain", rep("@"));
        add("dollar-chain", rep("$"));
        add("caret-chain", format!("M! ←^ {}\nM!+", rep("^")));
        add("backslash-chain", rep("\\"));
        add("question-chain", rep("?"));
    }
    // value-level bombs (size independent of n)
    let fixed: &[(&str, &str)] = &[
        ("recursion-no-base", "F ← |1 F\nF 1"),
        ("recursion-no-base-dip", "F ← |2 ⊙F\nF 1 2"),
        ("recursion-grow", "F ← |1 F⊂.\nF [1]"),
        ("recursion-macro", "F! ← F!^0\nF!+"),
        ("recursion-macro2", "F! ← G!^0\nG! ← F!^0\nF!+"),
        ("recursion-macro-mutual", "G! ← ^0\nF! ← G!F!^0\nF!+"),
        ("recursion-code-macro", "F! ←^ $\"F!_\"\nF!+"),
        ("recursion-code-macro-loop", "F! ←^ ⍢(⊂.)(1)\nF!+"),
        ("comptime-loop", "comptime(⍢(+1)(1) 0)"),
        ("const-loop", "A ← ⍢(+1)(1) 0"),
        ("toplevel-loop", "⍢(+1)(1) 0"),
        ("toplevel-loop-grow", "⍢(⊂.)(1) [1]"),
        ("repeat-inf", "⍥(+1)∞ 0"),
        ("repeat-inf-grow", "⍥(⊂.)∞ [1]"),
        ("repeat-huge", "⍥(+1)1e18 0"),
        ("repeat-neg-inf", "⍥(+1)¯∞ 0"),
        ("do-box-grow", "⍢(□|1) 1"),
        ("reshape-huge", "↯1e10 0"),
        ("reshape-huge2", "↯1e5_1e5_1e5 0"),
        ("reshape-huge-f", "↯1e9_5 0.5"),
        ("reshape-usize-wrap", "↯4294967296_4294967296 0"),
        ("reshape-zero-huge", "↯0_4294967296_4294967296 0"),
        ("reshape-zero-huge2", "△↯0_1e19_1e19 0"),
        ("reshape-zero-huge-rows", "≡⊂ 1 ↯0_1e19_1e19 0"),
        ("reshape-zero-huge-join", "⊂ ↯0_1e19_1e19 0 ↯0_1e19_1e19 0"),
        ("reshape-zero-huge-transpose", "⍉↯0_1e19_1e19 0"),
        ("reshape-zero-huge-fix", "♭↯0_1e10_1e10 0"),
        ("reshape-zero-huge-rerank", "☇1↯0_1e10_1e10 0"),
        ("reshape-zero-huge-first", "⊢⍉↯1e10_0_1e10 0"),
        ("reshape-zero-huge-fill-take", "⬚0↙3 ↯0_1e10_1e10 0"),
        ("reshape-zero-huge-show", "&p ↯0_1e19_1e19 0"),
        ("reshape-neg", "↯¯1e19 [1 2 3]"),
        ("reshape-inf", "↯∞_∞ [1 2 3]"),
        ("reshape-nan", "↯NaN [1 2 3]"),
        ("range-huge", "⇡1e10"),
        ("range-huge2", "⇡1e5_1e5"),
        ("range-huge3", "⇡[1e3 1e3 1e3 1e3]"),
        ("range-inf", "⇡∞"),
        ("range-neg-huge", "⇡¯1e10"),
        ("range-many-dims", "⇡↯40 2"),
        ("range-many-dims-zero", "⇡⊂0↯63 1e19"),
        ("transpose-rank-bomb", "⍉↯↯30 1 0"),
        ("transpose-rank-bomb2", "△⍉↯↯200 1 0"),
        ("rank-bomb-fix", "△⍥¤1e4 0"),
        ("rank-bomb-fix2", "⍥¤1e6 0"),
        ("rank-bomb-show", "&p ⍥¤1e4 0"),
        ("table-large", "⊞+ ⇡1e5 ⇡1e5"),
        ("table-large2", "⊞⊂ ⇡1e4 ⇡1e4"),
        ("table-large3", "⊞(⊂⊂) ⇡3e3 ⇡3e3"),
        ("table-strings", "⊞⊂.↯1e5@a"),
        ("tuples-large", "⧅<30 ⇡60"),
        ("tuples-large2", "⧅≠20 ⇡20"),
        ("perms-large", "⧅≠∞ ⇡15"),
        ("stencil-large", "⧈∘ 1e9 ⇡10"),
        ("keep-huge", "▽1e12 [1 2 3]"),
        ("keep-inf", "▽∞ [1 2 3]"),
        ("take-huge", "⬚0↙1e12 [1 2 3]"),
        ("take-inf", "⬚0↙∞ [1 2 3]"),
        ("take-neg-huge", "⬚0↙¯1e12 [1 2 3]"),
        ("rotate-huge", "↻1e300 ⇡5"),
        ("rotate-inf", "↻∞ ⇡5"),
        ("where-huge", "⊚[1e12]"),
        ("un-where-huge", "°⊚[1e12]"),
        ("un-where-huge2", "°⊚[1e6_1e6]"),
        ("un-shape-huge", "°△1e6_1e6"),
        ("un-shape-zero-huge", "°△0_1e19_1e19"),
        ("bits-huge", "⋯1e308"),
        ("un-bits-long", "°⋯↯2000 1"),
        ("base-huge", "⊥2 1e308"),
        ("pow-huge", "ⁿ1e308 1e308"),
        ("factorial-huge", "/×+1⇡1e5"),
        ("choose", "⧅<50 100"),
        ("choose-2", "⧅<∞ 1e10"),
        ("join-self-grow", "⍥(⊂.)40 [1]"),
        ("box-self-grow", "⍥(□⊟.)40 1"),
        ("couple-self-grow", "⍥(⊟.)40 1"),
        ("couple-self-grow-show", "&p ⍥(⊟.)20 1"),
        ("deep-box-binary", "binary ⍥□1e5 1"),
        ("deep-box-binary33", "binary ⍥□33 1"),
        ("deep-box-binary-rt", "°binary binary ⍥□32 1"),
        ("deep-box-json", "json ⍥□1e5 1"),
        ("deep-box-json2", "json ⍥(□¤)1e4 1"),
        ("deep-box-repr", "repr ⍥□1e5 1"),
        ("deep-box-show", "&p ⍥□1e5 1"),
        ("deep-box-pretty", "pretty ⍥□1e4 1"),
        ("deep-box-eq", "≍. ⍥□1e5 1"),
        ("deep-box-eq2", "≍ ⍥□1e5 1 ⍥□1e5 1"),
        ("deep-box-sort", "⍆ [⍥□1e5 1 ⍥□1e5 2]"),
        ("deep-box-classify", "⊛ [⍥□1e5 1 ⍥□1e5 2 ⍥□1e5 1]"),
        ("deep-box-hash-map", "map [⍥□1e5 1] [1]"),
        ("deep-box-drop", "◌ ⍥□1e6 1"),
        ("deep-box-drop7", "◌ ⍥□1e7 1"),
        ("deep-box-unbox-all", "⍥°□1e5 ⍥□1e5 1"),
        ("deep-box-content", "◇+1 ⍥□1e5 1"),
        ("deep-box-stringify", "$\"_\" ⍥□1e5 1"),
        ("deep-box-type", "type ⍥□1e5 1"),
        ("deep-box-parse", "⋕ ⍥□1e5 \"1\""),
        ("deep-box-add", "+1 ⍥□1e5 1"),
        ("deep-box-add2", "+. ⍥□1e5 1"),
        ("deep-box-neg", "¯ ⍥□1e5 1"),
        ("deep-box-abs", "⌵ ⍥□1e5 1"),
        ("deep-box-deshape", "♭ ⍥□1e5 1"),
        ("deep-box-fix-join", "⊂. ⍥□1e5 1"),
        ("deep-box-csv", "csv ⍥□1e4 1"),
        ("deep-box-compress", "gz ⍥□1e4 1"),
        ("deep-json-in", "°json ⊂⊂ ↯1e5@[ \"1\" ↯1e5@]"),
        ("deep-json-in-obj", "°json /◇⊂ ↯1e4 □\"{\\\"a\\\":\""),
        ("deep-json5", "°json $\"_1_\" ↯3e4@[ ↯3e4@]"),
        ("un-binary-random", "°binary ⇡256"),
        ("un-binary-huge-shape", "°binary [0 1 255 255 255 255 255 255 255 255 1 2 3]"),
        ("un-binary-box-deep", "°binary ↯1e5 4"),
        ("un-binary-alloc", "°binary [1 2 255 255 255 255 255 255 255 127 255 255 255 255 255 255 255 127]"),
        ("un-csv-wide", "°csv ↯1e6@,"),
        ("un-csv-quotes", "°csv ↯1e5@\""),
        ("regex-bomb", "regex \"(a*)*b\" ↯30@a"),
        ("regex-nest", "regex /⊂↯1e4\"(\" \"a\""),
        ("regex-huge-rep", "regex \"a{1000000000}\" \"a\""),
        ("parse-long", "⋕ ↯1e5@9"),
        ("parse-exp", "⋕ \"1e999999999\""),
        ("datetime-huge", "datetime 1e300"),
        ("datetime-neg", "datetime ¯1e18"),
        ("un-datetime", "°datetime [1e10 13 32 25 61 61]"),
        ("fft-large", "fft ⇡1e6"),
        ("fft-nonpow", "fft ⇡99991"),
        ("sort-large", "⍆ ⇌⇡3e6"),
        ("group-huge-index", "⊕□ [1e12] [1]"),
        ("partition-huge", "⊜□ [1e12] [1]"),
        ("select-huge", "⊏1e18 ⇡5"),
        ("pick-huge", "⊡1e18 ⇡5"),
        ("un-select", "°⊏ [1e12]"),
        ("windows-huge", "⧈∘1e18 ⇡5"),
        ("windows-neg", "⧈∘¯1e18 ⇡5"),
        ("windows-multi", "⧈∘[3_1e10] ⇡10"),
        ("orient-huge", "⤸1e18 ↯2_2 0"),
        ("anti-orient", "⌝⤸[5 4 3 2 1 0] 0"),
        ("rerank-huge", "☇1e18 ⇡5"),
        ("rerank-neg-huge", "☇¯1e18 ⇡5"),
        ("chunks", "⧈⌟∘ 0 ⇡5"),
        ("geometric", "⍥(×.)1e4 2"),
        ("string-repeat", "▽1e10 \"ab\""),
        ("gen-huge", "gen 1e10 0"),
        ("gen-dims", "gen [1e5 1e5] 0"),
        ("rand-table", "⊞⋅⋅⚂ ⇡1e5 ⇡1e5"),
        ("memo-recursion", "F ← |1 memo(F+1)\nF 1"),
        ("under-recursion", "F ← |1 ⍜⊢F\nF [1]"),
        ("each-recursion", "F ← |1 ∵F ⊟.\nF 1"),
        ("fold-grow", "∧(⊂⊂.) ⇡40 [1]"),
        ("scan-grow", "\\(⊂.)↯40 □[1]"),
        ("path-inf", "path(+1|0) 0"),
        ("path-grow", "path(⊂⊸+1|0) 0"),
        ("astar-inf", "astar(+1|0|0) 0"),
        ("try-recursion", "F ← |1 ⍣F F\nF 1"),
        ("try-recursion2", "F ← |1 ⍣(F|F)\nF 1"),
        ("do-recursion", "F ← |1 ⍢F 1\nF 1"),
        ("quote-recursion", "F! ←^ ⊂\"F!\"\nF!+"),
        ("long-line-code", "+1 +1 +1 +1 +1 +1 +1 +1 +1 +1 +1 +1 +1 +1 +1 +1 +1 +1 +1 +1 +1 +1 +1 +1 +1 +1 +1 +1 +1 +1 +1 +1 +1 +1 +1 +1 +1 +1 +1 +1 +1 +1 +1 +1 +1 +1 +1 +1 +1 +1 +1 +1 +1 +1 +1 +1 +1 +1 +1 +1 +1 +1 +1 +1 +1 0"),
    ];
    for (n, s) in fixed {
        v.push((n.to_string(), format!("# Experimental!\n{s}")));
    }
    v
}

/// the lexer refuses lines of more than 65535 chars: longer texts are broken every 60000 chars
fn wrap_lines(s: String) -> String {
    if s.lines().all(|l| l.len() < 60000) {
        return s;
    }
    let mut out = String::with_capacity(s.len() + 8);
    let mut k = 0;
    for c in s.chars() {
        if c == '\n' {
            k = 0;
        } else {
            k += 1;
            if k > 60000 {
                out.push('\n');
                k = 1;
            }
        }
        out.push(c);
    }
    out
}

fn to_alpha(mut i: usize) -> String {
    let mut s = String::new();
    loop {
        s.push((b'a' + (i % 26) as u8) as char);
        i /= 26;
        if i == 0 {
            break;
        }
    }
    s
}

/// crashes found by other properties' checks: listed here so that their keys are stable and so that
/// a fix shows up as "no longer reproduces"
fn known_inputs() -> Vec<(String, String)> {
    let v: Vec<(&str, String)> = vec![
        ("c19:guard-off-by-one-line", format!("{} 1", "a".repeat(65535))),
        ("c19:guard-line2", format!("a\n{}", "x".repeat(65536))),
        ("c19:guard-file-too-long", format!("{}2", "1\n".repeat(65536))),
        ("c19:guard-empty-line-unwrap", "\n".repeat(65537)),
        ("c19:split-ident-col-overflow", format!("{}rev", " ".repeat(65532))),
        ("c19:line-saturation-assert", format!("{}a\n", "\n".repeat(65534))),
        ("c19:col-saturation", format!("{}1", " ".repeat(65534))),
        ("c19:line-saturation", format!("{}1", "\n".repeat(65535))),
        ("c12:unbinary-alloc-abort", "# Experimental!\n°binary [1 1 255 255 255 255 255 255 255 31 0]".to_string()),
        ("c12:unbinary-shape-overflow", "# Experimental!\n°binary [1 2 255 255 255 255 255 255 255 127 4 0 0 0 0 0 0 0]".to_string()),
        ("c05:fill-pervade-empty-axis", "⬚0+ ↯3_0 0 ↯2_4 1".to_string()),
        ("c05:fill-pervade-empty-axis2", "⬚0+ ↯2_4 1 ↯3_0 0".to_string()),
        ("c05:fill-neg-empty-div-zero", "⬚@x¯ ↯3_3_0_0 @a".to_string()),
        ("c02:with-zero-arg-operand", "⤙1".to_string()),
        ("c02:with-zero-arg-operand2", "⤙(1) 2".to_string()),
        ("c02:with-zero-arg-operand3", "F ← 5\n⤙F 2".to_string()),
        ("c02:off-zero-arg-operand", "⤚1 2".to_string()),
        ("c02:with-sub-zero", "⤙₂1 2 3".to_string()),
        ("zip-cache-single", "≡⊢ ↯2_0 0".to_string()),
        // repaired in round 2 (A1-A9, C1): must stay quiet
        ("r2:A1-pervade-fill", "⬚@a+ ↯1_4 1 ↯3_0 @b".to_string()),
        ("r2:A2-row-slices", "⬚@x⌵ ↯0_0 @a".to_string()),
        ("r2:A3-all-same-empty-rows", "=1⧻◴ ↯0_3 0\n/≍ ↯3_0 0\n≍⊸⊢ ↯3_0 0".to_string()),
        ("r2:A4-switch-unwrap", "⨬(&fif)(())↯2_1⇡9↯2_0@5".to_string()),
        ("r2:A5-each-empty", "∵(++) [] 1 2\n(type)∵((+)()()↧)□[]↯2_0⇡7".to_string()),
        ("r2:A6-zero-dim-overflow", "↙3↯0_1e10_1e10 0".to_string()),
        ("r2:A6-zero-dim-overflow2", "↯4294967296_4294967296_0 0".to_string()),
        ("r2:A7-validate-neg", "# Experimental!\n⊨.[¯4]".to_string()),
        ("r2:A7-validate-neg2", "#Experimental!\n()⊨[¯3][][]".to_string()),
        ("r2:A7-validate-nan", "# Experimental!\n⊨ NaN ↯0_3 0".to_string()),
        ("r2:A8-take-huge", "⬚0↙1e12[]".to_string()),
        ("r2:A8-take-huge2", "↙1e12_1 [1_2 3_4]".to_string()),
        ("r2:A8-group-huge", "⊕□[1e12][1]".to_string()),
        ("r2:A8-unshape-huge", "[]⬚∞°⊸△1e10[]".to_string()),
        ("r2:A8-unshape-huge2", "⬚0°⊸△ [1e10 1e10] [1]".to_string()),
        ("r2:A9-tcp-timeout", "(()&tcpswt)()1e38[]\n&tcpsrt 1e38 0\n&tcpsrt NaN 0".to_string()),
        ("r2:C1-try-timeout", "F ← |1 ⍣F F\nF 1".to_string()),
        ("r2:C1-try-timeout2", "F ← |1 ⍣(F|F)\nF 1".to_string()),
        // repaired in round 3: must stay quiet
        ("r3:ecow-capacity", "\"\"⬚@-°⟜⊏[4 2 1e19]\"abc\"".to_string()),
        ("r3:rows-reduce-min-huge", "≡/↧↯4294967296_0e\n≡/↧ ↯4294967296_0 0".to_string()),
        ("r3:anti-select-huge", "⬚0⌝⊏1e10 [1 2]".to_string()),
        ("r3:anti-select-huge-scalar", "⬚0⌝⊏ 1e10 5".to_string()),
        ("r3:anti-select-index-overflow", "⬚0⌝⊏1e19 ⇡9".to_string()),
        ("r3:keep-list-huge", "▽ [¯1e10 1e10] [1 2]".to_string()),
        ("r3:fill-pervade-new-array", "⬚0+ ↯2_3_0 π ↯2_2_4 π".to_string()),
        ("r3:recursive-index-macro", "# Experimental!\nF! ← |1 F!^0\nF!(+1) 1".to_string()),
        ("r3:un-json-deep", "# Experimental!\n°json⊂⊂ ↯1e5@[ \"1\" ↯1e5@]".to_string()),
        ("r3:un-json5-deep", "# Experimental!\n°json $\"_1_\" ↯3e4@[ ↯3e4@]".to_string()),
        // repaired in round 4: must stay quiet
        ("r4:anti-drop-huge", "⌝↘1e10 ↯3_3⇡9\n⌝↘ 1e10 [1 2 3 4 5]".to_string()),
        ("r4:bare-bangs", "!".repeat(40000)),
        ("r4:bangs-two-lines", format!("{}\nF{}", "!".repeat(60000), "!".repeat(60000))),
        ("r4:undo-keep-empty-rows", "⍜(▽1_1_7)⇌↯2_0_2 0".to_string()),
        ("r4:undo-select-rank-underflow", "⬚0⍜(⊏¯4)⇌↯3_0 0".to_string()),
        ("r4:range-zero-dim-overflow", "⇡1e10_4e10_0".to_string()),
        ("r4:reshape-empty-huge", "↯ 1e10 []\n⍜(↯ 1e10)⇌ []".to_string()),
        ("r4:keep-scalar-empty-rows", "▽ 1e10 ↯3_0 0\n⬚∞⍜(▽ 1e16)⇌ ↯3_0 0".to_string()),
        ("r4:rerank-huge", "☇ 1e10 [1 2 3 4 5]".to_string()),
        ("r4:rerank-huge2", "☇1e18 ⇡5".to_string()),
        ("r4:rerank-under-huge", "⍜(☇ 1e10)⇌ [1 2 3 4 5]".to_string()),
        ("r4:stencil-huge", "⬚0⧈□ 1e10 [1 2 3 4 5]\n⬚∞⧈□ 1e16 ↯3_0 0".to_string()),
        // found by the thorough tier after round 4, repaired in round 5: must stay quiet
        ("r5:tuples-general-huge", "⧅(∘≤)1e10 4".to_string()),
        ("r5:join-fill-range-huge", "⬚0⊂ ⇡1e10_0 ↯3_0 0".to_string()),
        ("r5:anti-pick-overflow", "⬚0⌝⊡1e19 ↯3_0 0".to_string()),
        ("r5:reshape-inf-overflow", "↯1e10_1e10_∞ 9".to_string()),
        ("r5:reshape-inf-overflow2", "↯1e10_∞_1e10 []".to_string()),
        ("r5:table-sided-sub", "⊞₋₁(°+) 1 2".to_string()),
        ("r5:constant-bad-apple", "Bad".to_string()),
        ("r5:couple-fill-range-huge", "⬚0⊟ ⇡1e10_0 ↯3_0 0".to_string()),
        ("r5:table-neg-sub-list", "⊞₋₂⊟ [1 2] [3 4]".to_string()),
        ("r5:nested-rows-26", format!("{}+1 [1]", "≡".repeat(26))),
        ("r5:nested-fill-40", format!("{}+1 [1]", "⬚0".repeat(40))),
        // still open after the last round
        // repaired in round 7: must stay quiet
        ("r7:stencil-fill-empty-rows", "⬚0⧈□ 65536 ↯3_0 0\n⬚0⧈∘ 65536 ↯3_0 0".to_string()),
        ("r7:try-three-functions", "F ← ⍣(⨬(0 3 ⍤\"x\"|1)|⍤\"mid\"0 ¯ ⍤\"x\" +|3 ×)\nF 0 5 6 7".to_string()),
        // repaired in round 8: must stay quiet
        ("r8:validate-box-string", "# Experimental!\n⊨ {\"ab\"} 5".to_string()),
        ("r8:noise-octaves", "# Experimental!\nnoise 1 1e10 [[0]]".to_string()),
        ("r8:tuples-inf-size", "⧅≠ ∞ 1e10".to_string()),
        ("r8:validate-box-string-arg", "# Experimental!\n⊨ [□{3 \"ab\"}] 5".to_string()),
        ("r8:noise-octaves-huge", "# Experimental!\nnoise 1 1e308 ↯1_1 ⇡6".to_string()),
        // still open after the last round
        // repaired in round 9: must stay quiet
        ("r9:rows-box-empty-huge", "≡□ ↯1e9 []\n≡□ ↯294967296 []".to_string()),
        ("r9:deduplicate-empty-rows", "◴ °△ 1e10_0".to_string()),
        ("r9:under-pow-backward", "⍜(ⁿ˜4294967296)".to_string()),
        ("r9:un-datetime-overflow", "°datetime [2000 1 1e13]\n°datetime[2 2 1e13]".to_string()),
        // still open on the frozen tree (reported by the fixer as not repaired)
        ("open:classify-empty-rows-huge", "⊛ °△ 1e10_0".to_string()),
        ("open:unique-empty-rows-huge", "◰ °△ 1e10_0".to_string()),
        ("open:occurrences-empty-rows-huge", "⧆ °△ 1e10_0".to_string()),
        ("open:rise-empty-rows-huge", "⍏ °△ 1e10_0".to_string()),
        ("open:algebra-sum-power", "°(ⁿ100000000+1) 2".to_string()),
        ("open:nested-under", format!("{}⊢ [1]", "⍜".repeat(26))),
    ];
    v.into_iter().map(|(n, s)| (n.to_string(), s)).collect()
}


// ---------------------------------------------------------------- directed boundary family

fn num_lit(x: f64) -> String {
    if x.is_nan() {
        "NaN".into()
    } else if x == f64::INFINITY {
        "∞".into()
    } else if x == f64::NEG_INFINITY {
        "¯∞".into()
    } else {
        let a = x.abs();
        let body = if a >= 1e9 { format!("1e{}", a.log10().round() as i32) } else { format!("{a}") };
        if x < 0.0 { format!("¯{body}") } else { body }
    }
}

/// every primitive that takes an index / count / amount / shape argument (plain, anti and under forms)
/// x fill contexts x amounts around and far beyond the bounds of the array in both signs x arrays of
/// rank 0-3 including empty axes.  `core` = the full cross product of a reduced lattice (quick);
/// otherwise the complete lattice with per-axis amount lists.
fn bounds_inputs(thorough: bool, r: &mut Rng) -> Vec<(String, String)> {
    // (text, first-axis length, kind: 0 number, 1 char, 2 box)
    let arrays_core: &[(&str, usize, u8)] = &[("[1 2 3 4 5]", 5, 0), ("↯3_3⇡9", 3, 0), ("[]", 0, 0), ("↯3_0 0", 3, 0), ("5", 1, 0), ("\"abcde\"", 5, 1)];
    let arrays_more: &[(&str, usize, u8)] = &[
        ("↯0_3 0", 0, 0),
        ("↯2_3_2⇡12", 2, 0),
        ("↯2_0_2 0", 2, 0),
        ("[1]", 1, 0),
        ("[0.5 NaN ∞]", 3, 0),
        ("@a", 1, 1),
        ("\"\"", 0, 1),
        ("↯2_3\"abcdef\"", 2, 1),
        ("↯0_3@a", 0, 1),
        ("{1 \"ab\" [2 3]}", 3, 2),
        ("□[1 2 3]", 1, 2),
        ("↯2_2{1 2}", 2, 2),
    ];
    // plain dyadic forms: {} = the amount
    let forms: &[&str] = &[
        "↻ {} ", "↙ {} ", "↘ {} ", "⊡ {} ", "⊏ {} ", "▽ {} ", "↯ {} ", "☇ {} ", "⤸ {} ", "⧈∘ {} ", "⧈□ {} ", "⊏ [{} 0] ", "⊡ [{}] ", "▽ [{} 1] ",
        "⌝↻ {} ", "⌝↙ {} ", "⌝↘ {} ", "⌝⊡ {} ", "⌝⊏ {} ", "⌝⤸ {} ", "⌝▽ {} ", "⌝☇ {} ",
        "⍜(↻ {})⇌ ", "⍜(↙ {})⇌ ", "⍜(↘ {})⇌ ", "⍜(⊡ {})⇌ ", "⍜(⊏ {})⇌ ", "⍜(▽ {})⇌ ", "⍜(↯ {})⇌ ", "⍜(☇ {})⇌ ", "⍜(⤸ {})⇌ ", "⍜(↙ {})(↘1) ", "⍜(⊏ {})(×0) ", "⍜(⊡ {})(⊂.) ",
        "≡(↻ {}) ", "≡(↙ {}) ", "∧(↻ {}) [1 2] ", "⊕□ {} ", "⊜□ {} ", "⧅< {} ", "⊂⇡ {} ",
    ];
    let fills_for = |kind: u8| -> &'static [&'static str] {
        match kind {
            0 => &["", "⬚0", "⬚∞"],
            1 => &["", "⬚@x"],
            _ => &["", "⬚0", "⬚(□0)"],
        }
    };
    let amounts = |len: usize, full: bool| -> Vec<f64> {
        let l = len as f64;
        let mut v = vec![0.0, -1.0, l, -l, l + 1.0, -(l + 1.0), 2.0 * l + 1.0, -(2.0 * l + 1.0), 1e10, -1e10, f64::NAN, f64::INFINITY, 0.5];
        if full {
            v.extend([1.0, l - 1.0, -(l - 1.0), 1e19, -1e19, f64::NEG_INFINITY, -1.5, 4294967296.0, -4294967296.0, 65536.0, 9007199254740993.0, -0.0]);
        }
        v
    };
    let mut out: Vec<(String, String)> = Vec::new();
    let mut seen: BTreeSet<String> = BTreeSet::new();
    let mut push = |form: &str, fill: &str, amt: &str, arr: &str, out: &mut Vec<(String, String)>| {
        let src = format!("{fill}{}{arr}", form.replace("{}", amt));
        if seen.insert(src.clone()) {
            let head: String = form.chars().take_while(|c| *c != ' ' && *c != '{').collect();
            out.push((format!("{head}:{fill}:{amt}:{arr}"), src));
        }
    };
    // core: full cross product
    for form in forms {
        for (arr, len, kind) in arrays_core {
            for fill in fills_for(*kind).iter().take(2) {
                for a in amounts(*len, false) {
                    push(form, fill, &num_lit(a), arr, &mut out);
                }
            }
        }
    }
    // per-axis lists on the core arrays (rank >= 2 and rank 1 with too many axes)
    let pair_vals = [0.0, 1.0, -1.0, 4.0, -4.0, 7.0, -7.0, 1e10, -1e10, f64::INFINITY, f64::NAN];
    let all_arrays: Vec<(&str, usize, u8)> = arrays_core.iter().chain(arrays_more.iter()).cloned().collect();
    let npairs = if thorough { 40000 } else { 800 };
    for _ in 0..npairs {
        let form = *r.pick(forms);
        let (arr, _, kind) = *r.pick(&all_arrays);
        let fill = *r.pick(fills_for(kind));
        let k = 2 + r.below(3);
        let amt: Vec<String> = (0..k).map(|_| num_lit(*r.pick(&pair_vals))).collect();
        push(form, fill, &amt.join("_"), arr, &mut out);
    }
    // the rest of the scalar lattice: all of it (thorough) or a sample (quick)
    let mut rest: Vec<(String, String)> = Vec::new();
    for form in forms {
        for (arr, len, kind) in &all_arrays {
            for fill in fills_for(*kind) {
                for a in amounts(*len, true) {
                    push(form, fill, &num_lit(a), arr, &mut rest);
                }
            }
        }
    }
    if thorough {
        out.extend(rest);
    } else {
        for _ in 0..800.min(rest.len()) {
            let i = r.below(rest.len());
            out.push(rest.swap_remove(i));
        }
    }
    out
}

// ---------------------------------------------------------------- the pool

#[derive(Clone)]
struct Input {
    family: String,
    label: String, // description for huge inputs, else empty
    src: String,
    mask: u32,
    argseed: u64,
    nargs: usize,
}

fn pool_eval(inputs: &[Input], nworkers: usize, max_mb: &str) -> (Vec<Verdict>, usize) {
    let next = AtomicUsize::new(0);
    let results: Mutex<Vec<Option<Verdict>>> = Mutex::new(vec![None; inputs.len()]);
    let spawned = AtomicUsize::new(0);
    std::thread::scope(|sc| {
        for _ in 0..nworkers.min(inputs.len().max(1)) {
            sc.spawn(|| {
                let mut w = Worker::new(max_mb);
                loop {
                    let i = next.fetch_add(1, Ordering::SeqCst);
                    if i >= inputs.len() {
                        break;
                    }
                    let inp = &inputs[i];
                    let v = w.eval(&inp.src, inp.mask, inp.argseed, inp.nargs);
                    results.lock().unwrap()[i] = Some(v);
                }
                spawned.fetch_add(w.spawned, Ordering::SeqCst);
            });
        }
    });
    (results.into_inner().unwrap().into_iter().map(|v| v.unwrap_or_default()).collect(), spawned.load(Ordering::SeqCst))
}

/// delta debugging on characters: smallest text (within the budget) that still yields a finding with key `base`
fn shrink(w: &mut Worker, inp: &Input, base: &str, stage: &str, budget: usize) -> (String, usize) {
    let stage_mask = {
        // only the stage that fails (all compile modes when it is a compile stage)
        let cls = stage_class(stage);
        let m: u32 = STAGES.iter().filter(|s| stage_class(s.1) == cls).map(|s| s.0).sum();
        if m == 0 { inp.mask & ST_ALL } else { m & inp.mask }
    };
    let mask = stage_mask | (inp.mask & !ST_ALL);
    let mut evals = 0usize;
    let mut has = |w: &mut Worker, s: &str, evals: &mut usize| {
        *evals += 1;
        w.eval(s, mask, inp.argseed, inp.nargs).findings.iter().any(|f| f.base == base)
    };
    let mut cur: Vec<char> = inp.src.chars().collect();
    if !has(w, &inp.src, &mut evals) {
        return (inp.src.clone(), evals); // not reproducible in isolation with the reduced mask
    }
    let mut chunk = (cur.len() / 2).max(1);
    while evals < budget {
        let mut improved = false;
        let mut i = 0;
        while i < cur.len() && evals < budget {
            let end = (i + chunk).min(cur.len());
            let cand: String = cur[..i].iter().chain(cur[end..].iter()).collect();
            if !cand.is_empty() && has(w, &cand, &mut evals) {
                cur = cand.chars().collect();
                improved = true;
            } else {
                i += chunk;
            }
        }
        if chunk == 1 && !improved {
            break;
        }
        if !improved || chunk > cur.len() {
            chunk = (chunk / 2).max(1);
        }
        if cur.len() <= 1 {
            break;
        }
    }
    (cur.into_iter().collect(), evals)
}

fn ncpu() -> usize {
    std::thread::available_parallelism().map(|n| n.get()).unwrap_or(8)
}

fn trunc_show(s: &str, n: usize) -> String {
    if s.chars().count() <= n { s.to_string() } else { format!("{}…[{} chars]", s.chars().take(n).collect::<String>(), s.chars().count()) }
}

fn search(n: usize, thorough: bool) {
    let seed = seed_from_env();
    let mut r = Rng::new(seed);
    let g = Gen::new();
    let mut inputs: Vec<Input> = Vec::new();
    let mk = |family: &str, label: &str, src: String| Input { family: family.into(), label: label.into(), src, mask: ST_ALL, argseed: 0, nargs: 0 };
    // fixed corpora first
    for (name, src) in known_inputs() {
        inputs.push(mk("known", &name, src));
    }
    let ns: &[usize] = if thorough { &[1000, 10000, 100000] } else { &[1000, 6000] };
    for (name, src) in deep_inputs(ns) {
        let mut i = mk("deep", &name, src);
        if name.starts_with("recursion-no-base") {
            let mut j = i.clone();
            j.mask |= FL_DEFAULT_RECURSION;
            j.label = format!("{name}:default-limit");
            inputs.push(j);
        }
        i.label = name;
        inputs.push(i);
    }
    {
        let mut rb = Rng::new(seed ^ 0xB0D5);
        for (label, src) in bounds_inputs(thorough, &mut rb) {
            let mut i = mk("bounds", &label, src);
            i.mask = ST_SPANS | ST_C_NORMAL | ST_RUN;
            inputs.push(i);
        }
    }
    let nfixed = inputs.len();
    // random families
    let mut pg = PGen { fns: Vec::new() };
    for k in 0..n {
        let fam = k % 20;
        let inp = match fam {
            0 | 1 => mk("bytes", "", g.bytes(&mut r)),
            2..=6 => mk("soup", "", g.soup(&mut r, if k % 3 == 0 { 25 } else { 9 })),
            7..=10 => mk("corpus-mutant", "", g.mutant(&mut r)),
            11 | 12 => mk("pgen", "", pg.program(&mut r)),
            13..=18 => {
                let mut i = mk("arrprog", "", g.arrprog(&mut r));
                i.nargs = r.below(3);
                i.argseed = r.next() >> 16;
                i
            }
            _ => {
                // soup with nesting prefix
                let open = *r.pick(&["(", "[", "{", "□", "⍚", "≡", "⊙(", "°", "⬚0", "¯", "⍜"]);
                let k2 = 1 + r.below(60);
                mk("nest-soup", "", format!("{}{}", open.repeat(k2), g.soup(&mut r, 6)))
            }
        };
        let mut inp = inp;
        if inp.family != "bytes" && inp.family != "pgen" && r.chance(1, 2) {
            inp.src = format!("# Experimental!\n{}", inp.src);
        }
        inputs.push(inp);
    }
    let t0 = Instant::now();
    let nw = ncpu().min(16);
    let (verdicts, spawned) = pool_eval(&inputs, nw, "64");
    let t_eval = t0.elapsed().as_secs_f64();

    // history family: sequences on a persistent thread, one worker per sequence
    let nseq = if thorough { 64 } else { 16 };
    let mut seqs: Vec<Vec<String>> = Vec::new();
    seqs.push(vec!["≡⊢ ↯2_0 0".into(), "≡⊢ ↯2_0 0".into()]);
    seqs.push(vec!["+1 2\n×3 4\n≡⊢ ↯2_0 0".into(), "≡⊢ ↯2_0 0".into()]);
    seqs.push(vec!["F ← +1\nG ← ×2\n[1 2 3]\n≡(⊂1) ↯2_0 0\n≡⊢ ↯2_0 0".into(), "≡⊢ ↯2_0 0".into(), "≡⇌ ↯2_0 0".into()]);
    for _ in 0..nseq {
        let len = 3 + r.below(6);
        let mut s: Vec<String> = Vec::new();
        for _ in 0..len {
            s.push(match r.below(4) {
                0 => g.arrprog(&mut r),
                1 => format!("{}\n{}", g.mutant(&mut r), g.arrprog(&mut r)),
                2 => format!("{} {}", r.pick(&["≡⊢", "≡⇌", "≡⊂1", "∵+1", "≡□", "⍚⊢", "≡≡⊢", "⊞+.", "≡/+"]), r.pick(&["↯2_0 0", "↯0_2 0", "[]", "↯2_2 1", "↯3_0_2 0"])),
                _ => pg.program(&mut r),
            });
        }
        seqs.push(s);
    }
    let hist_findings: Mutex<Vec<(usize, usize, Finding)>> = Mutex::new(Vec::new());
    let hist_evals = AtomicUsize::new(0);
    {
        let next = AtomicUsize::new(0);
        std::thread::scope(|sc| {
            for _ in 0..nw.min(seqs.len()) {
                sc.spawn(|| loop {
                    let i = next.fetch_add(1, Ordering::SeqCst);
                    if i >= seqs.len() {
                        break;
                    }
                    let mut w = Worker::new("64");
                    for (j, s) in seqs[i].iter().enumerate() {
                        let v = w.eval(s, ST_ALL | FL_HISTORY, 0, 0);
                        hist_evals.fetch_add(1, Ordering::SeqCst);
                        for f in v.findings {
                            hist_findings.lock().unwrap().push((i, j, f));
                        }
                        if v.died {
                            break;
                        }
                    }
                });
            }
        });
    }

    // ---- aggregate
    let mut by_family: BTreeMap<String, usize> = BTreeMap::new();
    let mut stage_kinds: BTreeMap<String, BTreeMap<String, usize>> = BTreeMap::new();
    let mut first_of: BTreeMap<String, (usize, Finding, Vec<String>)> = BTreeMap::new();
    let mut count_of: BTreeMap<String, usize> = BTreeMap::new();
    let mut fams_of: BTreeMap<String, BTreeSet<String>> = BTreeMap::new();
    let mut slowest: Vec<(u64, usize, String)> = Vec::new();
    let mut distinct: BTreeSet<&str> = BTreeSet::new();
    let mut reached_run_ok = 0usize;
    for (i, v) in verdicts.iter().enumerate() {
        *by_family.entry(inputs[i].family.clone()).or_default() += 1;
        distinct.insert(&inputs[i].src);
        for (st, k, ms, _) in &v.stages {
            *stage_kinds.entry(st.clone()).or_default().entry(k.clone()).or_default() += 1;
            if st == "run" && k == "ok" {
                reached_run_ok += 1;
            }
            if *ms > 3000 {
                slowest.push((*ms, i, st.clone()));
            }
        }
        let mut seen_here: BTreeSet<String> = BTreeSet::new();
        for f in &v.findings {
            // one issue per input and crash site: the first stage (pipeline order) where it shows
            if !seen_here.insert(f.base.clone()) {
                continue;
            }
            let mut base = format!("{}/{}", f.base, stage_class(&f.stage));
            // abort/hang keys of the fixed corpora are per generator name (a stable, readable key)
            if f.kind == "abort" || f.kind == "hang" {
                if !inputs[i].label.is_empty() {
                    let lab = if inputs[i].family == "known" { inputs[i].label.replace(':', "-") } else { inputs[i].label.split(':').next().unwrap_or("").to_string() };
                    base = format!("{}#{}", base, lab);
                } else if f.kind == "hang" {
                    base = format!("{}#{}", base, rep_sig(&inputs[i].src));
                }
            }
            *count_of.entry(base.clone()).or_default() += 1;
            fams_of.entry(base.clone()).or_default().insert(inputs[i].family.clone());
            let stages: Vec<String> = v.findings.iter().filter(|x| x.base == f.base).map(|x| x.stage.clone()).collect();
            first_of.entry(base).or_insert((i, f.clone(), stages));
        }
    }
    // ---- shrink the first input of each distinct key (in parallel); hangs are confirmed with a long timeout
    let keys: Vec<(String, usize, Finding, Vec<String>)> = first_of.iter().map(|(k, (i, f, st))| (k.clone(), *i, f.clone(), st.clone())).collect();
    let shrunk: Mutex<BTreeMap<String, (String, usize, bool)>> = Mutex::new(BTreeMap::new());
    let moved_to: Mutex<BTreeMap<String, (String, String)>> = Mutex::new(BTreeMap::new());
    {
        let next = AtomicUsize::new(0);
        std::thread::scope(|sc| {
            for _ in 0..nw.min(keys.len().max(1)) {
                sc.spawn(|| {
                    let mut w = Worker::new("64");
                    loop {
                        let k = next.fetch_add(1, Ordering::SeqCst);
                        if k >= keys.len() {
                            break;
                        }
                        let (key, i, f, _) = &keys[k];
                        let inp = &inputs[*i];
                        let budget = if inp.src.len() > 5000 { 40 } else { 160 };
                        let mut moved: Option<(String, String)> = None;
                        let (s, ev, confirmed) = if f.kind == "hang" {
                            // re-run the flagged stage alone with a long time-out; if it turns out slow but finishes, go on with
                            // the later stages (they were never reached), so that a wedge behind a slow stage is not missed
                            let flags = inp.mask & !ST_ALL;
                            let from = STAGES.iter().position(|s| s.1 == f.stage).unwrap_or(0);
                            let mut w2 = Worker::with_hang("64", confirm_hang_s());
                            let mut confirmed = false;
                            let mut ev = 0;
                            for (bit, name) in STAGES.iter().skip(from) {
                                if inp.mask & bit == 0 {
                                    continue;
                                }
                                let again = w2.eval(&inp.src, bit | flags, inp.argseed, inp.nargs);
                                ev += 1;
                                if again.findings.iter().any(|x| x.kind == "hang") {
                                    confirmed = true;
                                    if *name != f.stage {
                                        moved = Some((name.to_string(), format!("no result within {} s", confirm_hang_s())));
                                    }
                                    break;
                                }
                                if *name == "run" && again.exec_ms > RUN_OVERRUN_MS {
                                    let m = again.stages.iter().find(|x| x.0 == "run").map(|x| x.3.clone()).unwrap_or_default();
                                    confirmed = true;
                                    moved = Some(("run".to_string(), format!("execution returned after {} ms under a {} s execution limit ({})", again.exec_ms, EXEC_LIMIT_S, one_line(&m, 60))));
                                }
                            }
                            // small unlabelled inputs are shrunk too ("still hangs" = no result within 5 s), so that the key
                            // names the construct that wedges instead of the first characters of a random program
                            if confirmed && inp.label.is_empty() && inp.src.len() <= 400 {
                                let st = moved.as_ref().map(|m| m.0.clone()).unwrap_or_else(|| f.stage.clone());
                                let mut w5 = Worker::with_hang("64", 5);
                                let (s5, e5) = shrink(&mut w5, inp, "hang", &st, 40);
                                (s5, ev + e5, confirmed)
                            } else {
                                (inp.src.clone(), ev, confirmed)
                            }
                        } else {
                            let (s, ev) = shrink(&mut w, inp, &f.base, &f.stage, budget);
                            (s, ev, true)
                        };
                        if let Some(mv) = moved {
                            moved_to.lock().unwrap().insert(key.clone(), mv);
                        }
                        shrunk.lock().unwrap().insert(key.clone(), (s, ev, confirmed));
                    }
                });
            }
        });
    }
    let shrunk = shrunk.into_inner().unwrap();
    let moved_to = moved_to.into_inner().unwrap();
    let mut shrink_evals = 0;
    let mut slow_not_hung: Vec<String> = Vec::new();
    for (key, i, f, stages) in &keys {
        let inp = &inputs[*i];
        let (s, ev, confirmed) = shrunk.get(key).cloned().unwrap_or((inp.src.clone(), 0, true));
        shrink_evals += ev;
        if !confirmed {
            slow_not_hung.push(format!("{}: {}", key, trunc_show(&inp.src, 60)));
            continue;
        }
        let mut fullkey = key.clone();
        let mut f = f.clone();
        if let Some((st, msg)) = moved_to.get(key) {
            // the wedge is in a later stage than the one the pool timed out in
            fullkey = format!("hang/{}#{}", stage_class(st), key.split_once('#').map(|x| x.1).unwrap_or(""));
            f.stage = st.clone();
            f.msg = msg.clone();
        }
        let f = &f;
        if f.kind == "hang" && inp.label.is_empty() {
            let t = s.trim_start_matches("# Experimental!\n").trim_start_matches("#Experimental!\n");
            fullkey = format!("hang/{}#{}", stage_class(&f.stage), rep_sig(t));
        }
        if f.kind == "abort" && inp.label.is_empty() {
            fullkey = format!("{}#{}", key, rle_sig(&s));
        }
        println!(
            "{{\"violation\":{},\"kind\":{},\"stage\":{},\"stages\":{},\"loc\":{},\"msg\":{},\"input\":{},\"input_len\":{},\"input_hex\":{},\"orig_len\":{},\"label\":{},\"family\":{},\"families\":{},\"count\":{},\"argseed\":{},\"nargs\":{},\"mask\":{},\"escaped\":{}}}",
            jstr(&fullkey),
            jstr(&f.kind),
            jstr(&f.stage),
            jstr(&stages.join(",")),
            jstr(&f.loc),
            jstr(&f.msg),
            jstr(&trunc_show(&s, 300)),
            s.len(),
            jstr(&if s.len() <= 400 { hex(&s) } else { String::new() }),
            inp.src.len(),
            jstr(&inp.label),
            jstr(&inp.family),
            jstr(&fams_of[key].iter().cloned().collect::<Vec<_>>().join(",")),
            count_of[key],
            inp.argseed,
            inp.nargs,
            inp.mask,
            f.kind == "panic" || f.kind == "abort" || f.kind == "hang"
        );
    }
    // history findings: report those whose key was not seen with a fresh thread
    let mut seen_hist: BTreeSet<String> = BTreeSet::new();
    for (i, j, f) in hist_findings.into_inner().unwrap() {
        let fresh = first_of.values().any(|x| x.1.base == f.base);
        if !seen_hist.insert(f.base.clone()) {
            continue;
        }
        // does the last program alone reproduce it on a fresh thread?
        let mut w = Worker::new("64");
        let alone = w.eval(&seqs[i][j], ST_ALL, 0, 0).findings.iter().any(|x| x.base == f.base);
        if alone && fresh {
            continue;
        }
        println!(
            "{{\"violation\":{},\"kind\":{},\"stage\":{},\"loc\":{},\"msg\":{},\"input\":{},\"input_len\":{},\"input_hex\":\"\",\"orig_len\":{},\"label\":{},\"family\":\"history\",\"families\":\"history\",\"count\":1,\"argseed\":0,\"nargs\":0,\"mask\":{},\"escaped\":{},\"history\":{},\"alone\":{}}}",
            jstr(&if alone { f.base.clone() } else { format!("history:{}", f.base) }),
            jstr(&f.kind),
            jstr(&f.stage),
            jstr(&f.loc),
            jstr(&f.msg),
            jstr(&trunc_show(&seqs[i][j], 300)),
            seqs[i][j].len(),
            seqs[i][j].len(),
            jstr(&format!("program {} of a sequence of {} on one thread", j + 1, seqs[i].len())),
            ST_ALL | FL_HISTORY,
            f.kind == "panic" || f.kind == "abort",
            serde_json::to_string(&seqs[i][..=j]).unwrap(),
            alone
        );
    }
    slowest.sort();
    slowest.reverse();
    let slow: Vec<String> = slowest.iter().take(5).map(|(ms, i, st)| format!("[{},{},{}]", ms, jstr(st), jstr(&trunc_show(&inputs[*i].src, 80)))).collect();
    let fam: Vec<String> = by_family.iter().map(|(k, v)| format!("{}:{}", jstr(k), v)).collect();
    let sk: Vec<String> = stage_kinds.iter().map(|(k, m)| format!("{}:{{{}}}", jstr(k), m.iter().map(|(a, b)| format!("{}:{}", jstr(a), b)).collect::<Vec<_>>().join(","))).collect();
    println!(
        "{{\"evaluations\":{},\"fixed_inputs\":{},\"distinct_inputs\":{},\"run_ok\":{},\"history_evals\":{},\"history_sequences\":{},\"shrink_evals\":{},\"workers\":{},\"worker_spawns\":{},\"eval_seconds\":{:.1},\"by_family\":{{{}}},\"stage_outcomes\":{{{}}},\"slowest\":[{}],\"distinct_keys\":{},\"slow_not_hung\":{}}}",
        inputs.len(),
        nfixed,
        distinct.len(),
        reached_run_ok,
        hist_evals.load(Ordering::SeqCst),
        seqs.len(),
        shrink_evals,
        nw,
        spawned,
        t_eval,
        fam.join(","),
        sk.join(","),
        slow.join(","),
        keys.len(),
        serde_json::to_string(&slow_not_hung).unwrap()
    );
}

// ---------------------------------------------------------------- tie: guard boundaries

fn tie() {
    let mut cases: Vec<(String, String, String, u32, &'static str)> = Vec::new(); // (guard, param json, src, mask, max_mb)
    // (1) array size guard with UIUA_MAX_MB = 8 (limit 8 MiB = 8388608 bytes): reshape of an f64 / u8 / char scalar
    let dimsets: Vec<Vec<u64>> = vec![
        vec![1048576],
        vec![1048577],
        vec![1024, 1024],
        vec![1024, 1025],
        vec![1025, 1024],
        vec![2, 3, 5, 7],
        vec![8388608],
        vec![8388609],
        vec![2097152],
        vec![2097153],
        vec![2097152, 1],
        vec![1, 2097153],
        vec![0],
        vec![0, 4294967296, 4294967296],
        vec![4294967296, 0, 4294967296],
        vec![4294967296, 4294967296, 0],
        vec![4294967296, 4294967296],
        vec![4294967296, 4294967297],
        vec![65536, 65536, 65536, 65536],
        vec![65536, 65536, 65536, 65536, 2],
        vec![9007199254740993, 1],
        vec![3, 9007199254740992],
        vec![4294967295],
        vec![4294967296],
        vec![1000, 1000, 9],
        vec![128, 128, 128, 4],
        vec![128, 128, 128, 4, 1, 1, 1],
        vec![128, 128, 129, 4],
        // zero dimension: the other dimensions must multiply (as f64) to at most 2^63 (commit 1cc30f2)
        vec![0, 4294967296, 2147483648],
        vec![0, 4294967296, 2147483649],
        vec![4294967296, 2147483648, 0],
        vec![0, 3037000499, 3037000499],
        vec![0, 3037000500, 3037000500],
        vec![3037000500, 0, 3037000500, 1],
        vec![0, 9223372036854775807],
        vec![0, 9223372036854775807, 2],
        vec![0, 0, 9223372036854775808],
        vec![0, 65536, 65536, 65536, 32768],
        vec![0, 65536, 65536, 65536, 32769],
    ];
    for (elem, lit, es) in [("f64", "0.5", 8u64), ("u8", "0", 1), ("char", "@a", 4)] {
        for d in &dimsets {
            let dims: Vec<String> = d.iter().map(|x| x.to_string()).collect();
            let src = if d.len() == 1 { format!("/×△ ↯[{}] {lit}", dims[0]) } else { format!("/×△ ↯{} {lit}", dims.join("_")) };
            cases.push(("size".into(), format!("{{\"elem\":\"{elem}\",\"es\":{es},\"dims\":[{}],\"limit\":8388608}}", dims.join(",")), src, ST_RUN, "8"));
        }
    }
    // (2) recursion limit: depth-n recursion through a switch under limits k
    for k in [5usize, 10, 33] {
        for n in 0..=(k + 3) {
            for (shape, body) in [("direct", "F ← |1 ⨬(F-1|∘)=0."), ("dipped", "F ← |1 ⨬(◌⊙F 0 -1|∘)=0.")] {
                let src = format!("{body}\nF {n}");
                cases.push(("recursion".into(), format!("{{\"shape\":\"{shape}\",\"limit\":{k},\"n\":{n}}}"), src, ST_RUN | ((k as u32) << RECUR_SHIFT), "64"));
            }
        }
    }
    // (3) signature checker depth: k nested non-constant array literals (each adds Array + Run to the IR)
    for k in 20..=32usize {
        let src = format!("F ← |1 {}1{}\nF 1", "⊂1[".repeat(k), "]".repeat(k));
        cases.push(("nodedepth".into(), format!("{{\"k\":{k}}}"), src, ST_C_LAZY, "64"));
    }
    // (4) box nesting cap of binary / °binary
    for k in 28..=36usize {
        cases.push(("binary".into(), format!("{{\"k\":{k},\"dir\":\"encode\"}}"), format!("# Experimental!\n⧻binary ⍥□{k} 1"), ST_RUN, "64"));
    }
    // (5) macro expansion depth: chain of k index macros, each expanding the previous one
    for k in 15..=25usize {
        let mut src = String::from("Ma! ← ^0\n");
        for i in 1..k {
            writeln!(src, "M{}! ← M{}!^0", to_alpha(i), to_alpha(i - 1)).unwrap();
        }
        writeln!(src, "M{}!+ 1 2", to_alpha(k - 1)).unwrap();
        cases.push(("macro".into(), format!("{{\"k\":{k}}}"), src, ST_C_LAZY, "64"));
    }
    // (7) range: dims ++ [rank] validated with 8-byte elements, also with a zero dimension (UIUA_MAX_MB = 8)
    let range_dims: Vec<Vec<u64>> = vec![
        vec![3, 0, 2],
        vec![10000000000, 40000000000, 0],
        vec![0, 4294967296, 1073741824],
        vec![0, 4294967296, 536870912],
        vec![512, 1024],
        vec![512, 1025],
        vec![1024, 1024],
        vec![2, 3, 4],
        vec![0, 0],
        vec![300, 300, 6],
        vec![300, 301, 6],
        vec![4294967296, 4294967296],
        vec![0, 3037000499, 1013904223],
        vec![0, 3037000500, 1013904300],
    ];
    for d in &range_dims {
        let dims: Vec<String> = d.iter().map(|x| x.to_string()).collect();
        cases.push(("range".into(), format!("{{\"dims\":[{}],\"limit\":8388608}}", dims.join(",")), format!("/×△ ⇡{}", dims.join("_")), ST_RUN, "8"));
    }
    // (8) rerank: ranks around the limit of 99 dimensions, on arrays of 1 and 3 axes
    for (len, arr) in [(1u64, "[1 2 3]"), (3, "↯2_2_2 0")] {
        for rk in [0u64, 1, 2, 3, 50, 97, 98, 99, 100, 1000, 10000000000] {
            cases.push(("rerank".into(), format!("{{\"rank\":{rk},\"len\":{len}}}"), format!("⧻△ ☇ {} {arr}", if rk >= 1000000 { "1e10".to_string() } else { rk.to_string() }), ST_RUN, "64"));
        }
    }
    // (6) regression: the witnesses of size_guard_refuted_pre (an empty shape whose row length overflows usize) must be refused now
    cases.push(("regression".into(), "{\"es\":1,\"dims\":[0,10000000000,10000000000],\"limit\":67108864}".into(), "⬚0↙3 ↯0_1e10_1e10 0".into(), ST_RUN, "64"));
    cases.push(("regression".into(), "{\"es\":1,\"dims\":[4294967296,4294967296,0],\"limit\":67108864}".into(), "↯4294967296_4294967296_0 0".into(), ST_RUN, "64"));
    let mut workers: BTreeMap<&'static str, Worker> = BTreeMap::new();
    for (guard, param, src, mask, mb) in cases {
        let w = workers.entry(mb).or_insert_with(|| Worker::new(mb));
        let v = w.eval(&src, mask | FL_SHOW, 0, 0);
        let (kind, msg) = match v.stages.last() {
            Some((_, k, _, m)) => (k.clone(), m.clone()),
            None => ("none".to_string(), String::new()),
        };
        println!("{{\"guard\":{},\"param\":{},\"src\":{},\"kind\":{},\"msg\":{},\"findings\":{}}}", jstr(&guard), param, jstr(&trunc_show(&src, 200)), jstr(&kind), jstr(&msg), v.findings.len());
    }
}

fn main() {
    let mode = std::env::args().nth(1).unwrap_or_default();
    match mode.as_str() {
        "worker" => worker_main(),
        "search" => {
            let n: usize = std::env::args().nth(2).and_then(|s| s.parse().ok()).unwrap_or(200);
            let thorough = std::env::args().any(|a| a == "--thorough");
            if let Some(h) = arg_str("--hang") {
                unsafe { std::env::set_var("C09_POOL_HANG_S", h) };
            }
            if let Some(h) = arg_str("--confirm") {
                unsafe { std::env::set_var("C09_CONFIRM_HANG_S", h) };
            }
            search(n, thorough);
        }
        "tie" => tie(),
        "args" => {
            // show the values that `probe ARGSEED NARGS` pushes (last one = top of the stack)
            let argseed: u64 = std::env::args().nth(2).and_then(|s| s.parse().ok()).unwrap_or(0);
            let nargs: usize = std::env::args().nth(3).and_then(|s| s.parse().ok()).unwrap_or(0);
            let mut r = Rng::new(argseed);
            let cfg = GenCfg::default();
            for _ in 0..nargs {
                let v = gen_value(&mut r, &cfg, 0);
                println!("{}  -- {}", coq_value(&v), v.show().replace('\n', " / "));
            }
        }
        "probe" => {
            let argseed: u64 = std::env::args().nth(2).and_then(|s| s.parse().ok()).unwrap_or(0);
            let nargs: usize = std::env::args().nth(3).and_then(|s| s.parse().ok()).unwrap_or(0);
            let mask: u32 = std::env::args().nth(4).and_then(|s| s.parse().ok()).unwrap_or(ST_ALL);
            let mut src = String::new();
            std::io::stdin().read_to_string(&mut src).unwrap();
            let mb = std::env::var("UIUA_MAX_MB").unwrap_or_else(|_| "64".into());
            let mut w = Worker::new(&mb);
            let v = w.eval(&src, mask, argseed, nargs);
            for (st, k, ms, m) in &v.stages {
                println!("{st:16} {k:8} {ms} ms  {m}");
            }
            println!("exec_ms {}", v.exec_ms);
            for f in &v.findings {
                println!("FINDING {} [{}] {} :: {}", f.base, f.kind, f.loc, f.msg);
            }
        }
        _ => eprintln!("usage: c09 worker | search N [--thorough] | tie | probe [ARGSEED NARGS MASK] < input"),
    }
}
