//! C12: compiling/running a program is independent of what the thread compiled or ran before.
//!   c12 search N   -> histories on the implementation (program last in a history vs first in a
//!                     fresh thread; same program on 8 threads); JSON lines with violations
//!                     keyed by the responsible cache, and a summary line
//!   c12 tie N      -> pairs of real compiled trees differing in one ingredient: equality of the
//!                     REAL cache keys and of the REAL cached results, and the trees as model terms
//!   c12 hist P1 P2 … -> run the programs (\n escapes) as one history and print hist vs fresh
//!   c12 tree P …     -> print compiled trees
use std::collections::HashMap;
use std::hash::{Hash, Hasher};

use uiua::verif::c12 as hooks;
use uiua::{Assembly, Compiler, Node, PreEvalMode, SafeSys, SigNode, Signature, Uiua, UiuaError, Value};
use uvh::*;

// ------------------------------------------------------------------ observing one program

fn show_val(v: &Value) -> String {
    format!("{}{:?}:{}", v.type_name(), v.shape, v.show().replace('\n', "⏎"))
}

fn describe_error(e: &UiuaError, out: &mut String) {
    let msg = e.to_string();
    // the crash report embeds version and source; keep its first line
    let msg = if msg.contains("has crashed") { "CRASH: The compiler has crashed!".to_string() } else { msg };
    out.push_str(&format!("E[{}]", msg));
    for fr in e.meta.trace.iter().take(6) {
        out.push_str(&format!(" @{:?}:{:?}", fr.id.as_ref().map(|i| i.to_string()), fr.span));
    }
    if e.meta.trace.len() > 6 {
        out.push_str(&format!(" @…{} frames", e.meta.trace.len()));
    }
    for (s, sp) in &e.meta.infos {
        out.push_str(&format!(" i[{s}@{sp:?}]"));
    }
    for m in &e.meta.multi {
        out.push_str(" +");
        describe_error(m, out);
    }
}

/// values, errors with their positions and traces, diagnostics of compiling and running `src`
fn outcome(src: &str) -> String {
    let r = catch(|| {
        let mut out = String::new();
        let mut comp = Compiler::with_backend(SafeSys::default());
        comp.print_diagnostics(false);
        let cres = comp.load_str(src).map(|_| ());
        for d in comp.take_diagnostics() {
            out.push_str(&format!("D[{:?} {:?} {}]", d.kind, d.span, d.message));
        }
        if let Err(e) = cres {
            out.push('C');
            describe_error(&e, &mut out);
            return out;
        }
        let asm = comp.finish();
        let mut env = Uiua::with_safe_sys().with_execution_limit(std::time::Duration::from_secs(2));
        let res = env.run_asm(asm);
        if let Err(e) = res {
            out.push('R');
            describe_error(&e, &mut out);
        }
        let stack = env.take_stack();
        for v in stack.iter().take(8) {
            out.push_str(" V:");
            out.push_str(&show_val(v));
        }
        if stack.len() > 8 {
            out.push_str(&format!(" V…{} values", stack.len()));
        }
        out
    });
    match r {
        Ok(s) => s,
        Err(p) => format!("PANIC[{}]", p.lines().next().unwrap_or("")),
    }
}

fn in_thread<T: Send + 'static>(f: impl FnOnce() -> T + Send + 'static) -> Option<T> {
    std::thread::Builder::new().stack_size(256 << 20).spawn(f).ok()?.join().ok()
}

fn fresh(src: &str) -> String {
    let s = src.to_string();
    in_thread(move || outcome(&s)).unwrap_or_else(|| "THREAD-DIED".into())
}

/// run the programs one after the other in ONE new thread (fresh thread-locals at the start)
fn history(progs: &[String], bypass: u32) -> Vec<String> {
    let p = progs.to_vec();
    in_thread(move || {
        hooks::set_bypass(bypass);
        p.iter().map(|s| outcome(s)).collect()
    })
    .unwrap_or_default()
}

struct Fresh {
    cache: HashMap<String, Option<String>>,
    evals: usize,
}

impl Fresh {
    /// outcome in a fresh thread; None when the program is not deterministic (two fresh runs
    /// differ) or hits the execution limit
    fn get(&mut self, src: &str) -> Option<String> {
        if let Some(r) = self.cache.get(src) {
            return r.clone();
        }
        let a = fresh(src);
        let b = fresh(src);
        self.evals += 2;
        let r = if a == b && !a.contains("Maximum execution time") && !a.contains("THREAD-DIED") { Some(a) } else { None };
        self.cache.insert(src.to_string(), r.clone());
        r
    }
}

// ------------------------------------------------------------------ classification

const CACHES: [(u32, &str); 7] = [
    (hooks::UN, "un-inverse"),
    (hooks::ANTI, "anti-inverse"),
    (hooks::UNDER, "under-inverse"),
    (hooks::SIG, "sig"),
    (hooks::PURITY, "purity"),
    (hooks::PRE_EVAL, "pre-eval"),
    (hooks::ZIP_FAST, "zip-fast-fn"),
];

fn strip_positions(s: &str) -> String {
    // replace every maximal "digits:digits" by "_"
    let cs: Vec<char> = s.chars().collect();
    let mut out = String::new();
    let mut i = 0;
    while i < cs.len() {
        if cs[i].is_ascii_digit() {
            let mut j = i;
            while j < cs.len() && cs[j].is_ascii_digit() {
                j += 1;
            }
            if j < cs.len() && cs[j] == ':' && j + 1 < cs.len() && cs[j + 1].is_ascii_digit() {
                let mut k = j + 1;
                while k < cs.len() && cs[k].is_ascii_digit() {
                    k += 1;
                }
                out.push('_');
                i = k;
                continue;
            }
            out.extend(&cs[i..j]);
            i = j;
        } else {
            out.push(cs[i]);
            i += 1;
        }
    }
    out
}

/// every maximal alphabetic word replaced by "w"
fn strip_words(s: &str) -> String {
    let mut out = String::new();
    let mut in_word = false;
    for c in s.chars() {
        if c.is_alphabetic() {
            if !in_word {
                out.push('w');
            }
            in_word = true;
        } else {
            in_word = false;
            out.push(c);
        }
    }
    out
}

fn diff_kind(hist: &str, fresh: &str) -> &'static str {
    if hist.contains("PANIC") || hist.contains("CRASH") || hist.contains("not found in assembly") || hist.contains("THREAD-DIED") {
        "crash"
    } else if strip_positions(hist) == strip_positions(fresh) {
        "position"
    } else if hist.contains("E[") && fresh.contains("E[") && strip_words(&strip_positions(hist)) == strip_words(&strip_positions(fresh)) {
        // same error, positions aside, up to the identifiers it mentions
        "name"
    } else if !hist.contains("E[") && !fresh.contains("E[") {
        "value"
    } else {
        "error"
    }
}

/// which single cache, emptied on every use, makes the difference disappear
fn attribute(hist: &[String], idx: usize, want: &str) -> String {
    let mut names = Vec::new();
    for (bit, name) in CACHES {
        let h = history(&hist[..=idx], bit);
        if h.get(idx).map(|s| s.as_str()) == Some(want) {
            names.push(name);
        }
    }
    if !names.is_empty() {
        let mut cache = names.join("+");
        if cache.contains("inverse") {
            // is it the table length baked by the "match a constant exactly" inverse (un.rs MatchConst)?
            let h = history(&hist[..=idx], hooks::MATCH_CONST_SPAN);
            let p = hist[idx].clone();
            let f = in_thread(move || {
                hooks::set_bypass(hooks::MATCH_CONST_SPAN);
                outcome(&p)
            });
            if f.is_some() && h.get(idx) == f.as_ref() {
                cache.push_str(":spans-len");
            }
        }
        return cache;
    }
    let h = history(&hist[..=idx], 127);
    if h.get(idx).map(|s| s.as_str()) == Some(want) { "several-caches".into() } else { "other-state".into() }
}

struct Search {
    fresh: Fresh,
    evals: usize,
    histories: usize,
    compared: usize,
    skipped: usize,
    viol: HashMap<String, usize>,
    fam: HashMap<&'static str, (usize, usize)>,
}

impl Search {
    fn run_history(&mut self, family: &'static str, progs: &[String]) {
        self.histories += 1;
        // (a native stack overflow aborts the process: leave a trace of what was running)
        eprintln!("@@HIST {}", jarr(progs));
        let h = history(progs, 0);
        self.evals += progs.len();
        let e = self.fam.entry(family).or_insert((0, 0));
        e.0 += 1;
        if h.len() != progs.len() {
            // the thread died (stack overflow is an abort, so this is a panic in join): report
            println!("{{\"violation\":\"history-thread-died\",\"family\":{},\"history\":{}}}", jstr(family), jarr(progs));
            return;
        }
        for i in 0..progs.len() {
            let Some(f) = self.fresh.get(&progs[i]) else {
                self.skipped += 1;
                continue;
            };
            self.compared += 1;
            if h[i] == f {
                continue;
            }
            // confirm: the same history again
            let h2 = history(&progs[..=i], 0);
            if h2.get(i) != Some(&h[i]) {
                self.skipped += 1;
                continue;
            }
            // minimise to one predecessor if that reproduces
            let mut min: Vec<String> = progs[..=i].to_vec();
            for j in 0..i {
                let pair = vec![progs[j].clone(), progs[i].clone()];
                let hp = history(&pair, 0);
                if hp.len() == 2 && hp[1] != f {
                    min = pair;
                    break;
                }
            }
            let hm = history(&min, 0);
            let got = hm.last().cloned().unwrap_or_default();
            let cache = attribute(&min, min.len() - 1, &f);
            let kind = diff_kind(&got, &f);
            let key = format!("cache:{cache}/{kind}");
            let n = self.viol.entry(key.clone()).or_insert(0);
            *n += 1;
            self.fam.get_mut(family).unwrap().1 += 1;
            if *n <= 3 {
                println!(
                    "{{\"violation\":{},\"family\":{},\"history\":{},\"program\":{},\"hist\":{},\"fresh\":{}}}",
                    jstr(&key),
                    jstr(family),
                    jarr(&min),
                    jstr(&progs[i]),
                    jstr(&got),
                    jstr(&f)
                );
            }
        }
    }
}

fn jarr(xs: &[String]) -> String {
    format!("[{}]", xs.iter().map(|s| jstr(s)).collect::<Vec<_>>().join(","))
}

// ------------------------------------------------------------------ programs

fn corpus_chunks() -> Vec<(String, Vec<String>)> {
    let mut files = Vec::new();
    for dir in ["/repo/tests", "/repo/examples"] {
        let mut names: Vec<_> = std::fs::read_dir(dir).map(|d| d.filter_map(|e| e.ok()).map(|e| e.path()).collect()).unwrap_or_default();
        names.sort();
        for p in names {
            if p.extension().map_or(false, |e| e == "ua") {
                if let Ok(src) = std::fs::read_to_string(&p) {
                    let mut chunks = Vec::new();
                    let mut cur = String::new();
                    for line in src.lines() {
                        if line.trim().is_empty() {
                            if !cur.trim().is_empty() {
                                chunks.push(std::mem::take(&mut cur));
                            }
                            cur.clear();
                        } else {
                            cur.push_str(line);
                            cur.push('\n');
                        }
                    }
                    if !cur.trim().is_empty() {
                        chunks.push(cur);
                    }
                    // chunks that would touch the outside world or never end are of no use here
                    chunks.retain(|c| !c.contains("&sl") && !c.contains("&ast") && !c.contains("⍢") || c.len() < 400);
                    files.push((p.file_name().unwrap().to_string_lossy().into_owned(), chunks));
                }
            }
        }
    }
    files
}

fn is_binding_line(l: &str) -> bool {
    let t = l.trim_start();
    !l.starts_with(' ') && t.chars().next().map_or(false, |c| c.is_alphabetic()) && (t.contains(" ← ") || t.contains(" ←"))
}

/// edits of a program that keep (most of) its content but move it: shifted, reordered,
/// renamed, re-valued
fn edits(r: &mut Rng, p: &str) -> Vec<(&'static str, String)> {
    let mut out = Vec::new();
    out.push(("shift-blank", format!("\n\n{p}")));
    out.push(("shift-comment", format!("# {}\n{p}", "x".repeat(1 + r.below(5)))));
    out.push(("shift-def", format!("Zq ← {}\n{p}", r.below(9))));
    out.push(("shift-fn", format!("Zq ← ⊟\n{p}")));
    out.push(("indent", p.lines().map(|l| if is_binding_line(l) { l.replacen(" ← ", "  ←  ", 1) } else { l.to_string() }).collect::<Vec<_>>().join("\n")));
    let lines: Vec<&str> = p.lines().collect();
    // turn a constant definition into a constant function or back: the function indices of the
    // later definitions move while no span does
    for i in 0..lines.len() {
        let l = lines[i];
        if !is_binding_line(l) {
            continue;
        }
        let Some((name, body)) = l.split_once(" ← ") else { continue };
        let body = body.trim();
        let new = if !body.is_empty() && body.chars().all(|c| c.is_ascii_digit()) {
            format!("{name} ← ({body})")
        } else if body.starts_with('(') && body.ends_with(')') && body.len() > 2 && body[1..body.len() - 1].chars().all(|c| c.is_ascii_digit()) {
            format!("{name} ← {}", &body[1..body.len() - 1])
        } else {
            continue;
        };
        let mut l2: Vec<String> = lines.iter().map(|x| x.to_string()).collect();
        l2[i] = new;
        out.push(("const-fn", l2.join("\n")));
        break;
    }
    // reorder two adjacent single-line definitions
    for i in 0..lines.len().saturating_sub(1) {
        if is_binding_line(lines[i]) && is_binding_line(lines[i + 1]) && !lines.get(i + 2).map_or(false, |l| l.starts_with(' ')) {
            let mut l2 = lines.clone();
            l2.swap(i, i + 1);
            out.push(("reorder", l2.join("\n")));
            break;
        }
    }
    // rename the first defined name
    if let Some(l) = lines.iter().find(|l| is_binding_line(l)) {
        let name: String = l.trim_start().chars().take_while(|c| c.is_alphabetic()).collect();
        if name.chars().count() >= 2 && !name.is_empty() {
            let new = format!("{name}Q");
            let mut s = String::new();
            // whole-word replacement
            let cs: Vec<char> = p.chars().collect();
            let nm: Vec<char> = name.chars().collect();
            let mut i = 0;
            while i < cs.len() {
                if cs[i..].starts_with(&nm)
                    && (i == 0 || !cs[i - 1].is_alphanumeric())
                    && cs.get(i + nm.len()).map_or(true, |c| !c.is_alphanumeric())
                {
                    s.push_str(&new);
                    i += nm.len();
                } else {
                    s.push(cs[i]);
                    i += 1;
                }
            }
            out.push(("rename", s));
        }
    }
    // re-value: change the first single digit literal that stands alone
    let cs: Vec<char> = p.chars().collect();
    for i in 0..cs.len() {
        if cs[i].is_ascii_digit()
            && (i == 0 || cs[i - 1] == ' ' || cs[i - 1] == '[')
            && cs.get(i + 1).map_or(true, |c| *c == ' ' || *c == '\n' || *c == ']')
        {
            let mut c2 = cs.clone();
            c2[i] = if cs[i] == '7' { '3' } else { '7' };
            out.push(("revalue", c2.into_iter().collect()));
            break;
        }
    }
    out
}

const MON_BODIES: [&str; 16] = ["⊂1", "+1", "⊢", "↙2", "⇌", "√", "⊏1", "↘1", "°□", "⊂⊙1", "×2", "⍉", "⍏", "◴", "⊙5", "⊂⊙(5)"];
const DY_BODIES: [&str; 8] = ["×", "+", "⊂", "-", "⊟", "↥", "⊏", "⊡"];
const VALUES: [&str; 12] = ["[2 2]", "[1 2 3]", "[]", "5", "\"ab\"", "[1_2 3_4]", "↯2_0 0", "{1 2}", "[1_2 3_5]", "[4 5 6]", "[3_4 1_2]", "[1 4 9]"];
/// use lines; F = a monadic definition, D = a dyadic definition, V = a value
const USES: [&str; 35] = [
    "°F V", "°⊙F X V", "°(F⇌) V", "°(⇌F) V", "⌝D 1 V", "°(D1) V", "⍜F(⊂3) V", "⍜⊙F(+1) X V", "⍜(F⇌)(↙1) V", "⍜F⇌ V",
    "⍜(↙2)F V", "⍜F(↙1) V", "⍜(⊙F)⊂ X V", "≡F V", "≡(F⇌) V", "≡(/D⇌) V", "∵F V", "≡⊢ V", "≡(⊢⇌) V", "F V", "/D V",
    "⊞D V V", "⍥F 3 V", "⍣F⋅0 V", "≡(□F) V", "⍚F V", "≡(¯/D⇌) V", "⧈F V", "°⊂ V", "∧D V V",
    // C = a constant FUNCTION: the cached inverse keeps a call to it
    "°(+C) +⌊⚂ V", "°(×C) +⌊⚂ V", "⍜(+C)(×2) +⌊⚂ V", "°(⊂C) ⊂⌊⚂ V", "⍜(-C)⇌ +⌊⚂ V",
];

fn gen_program(r: &mut Rng, fam: &[(usize, usize, usize, usize)]) -> String {
    // fam: a small family of (mon body, dy body, use, value) choices shared by a history
    let (mb, db, u, v) = *r.pick(fam);
    // the same content under other names, sometimes
    let (fname, dname) = if r.chance(1, 3) { ("P", "Q") } else { ("F", "D") };
    let mut defs = vec![format!("{fname} ← {}", MON_BODIES[mb]), format!("{dname} ← {}", DY_BODIES[db]), "X ← 5".to_string()];
    if USES[u].contains('C') {
        defs.push("C ← (7)".to_string());
    }
    // other definitions that move indices and positions
    let extra = ["G ← +", "H ← ⊂2", "Y ← 7", "K ← ⊟", "# note", ""];
    for _ in 0..r.below(3) {
        defs.push(r.pick(&extra).to_string());
    }
    // shuffle
    for i in (1..defs.len()).rev() {
        let j = r.below(i + 1);
        defs.swap(i, j);
    }
    let mut s = String::new();
    for _ in 0..r.below(3) {
        s.push('\n');
    }
    for d in defs {
        s.push_str(&d);
        s.push('\n');
    }
    let val = if r.chance(1, 3) { *r.pick(&VALUES) } else { VALUES[v] };
    let line = USES[u].replace('V', val).replace('F', fname).replace('D', dname);
    if r.chance(1, 4) {
        s.push_str("  ");
    }
    s.push_str(&line);
    s.push('\n');
    s
}

// ------------------------------------------------------------------ export of real trees as model terms

fn code<T: Hash + ?Sized>(t: &T) -> u64 {
    let mut h = std::collections::hash_map::DefaultHasher::new();
    t.hash(&mut h);
    h.finish() >> 1
}

fn sigcode(s: Signature) -> u64 {
    (s.args() as u64) | (s.outputs() as u64) << 16 | (s.under_args() as u64) << 32 | (s.under_outputs() as u64) << 48
}

fn export_args(args: &[SigNode], asm: &Assembly, stack: &mut Vec<usize>, drop: bool) -> String {
    let parts: Vec<String> = args.iter().map(|sn| format!("({}, {})", export(&sn.node, asm, stack, drop), sigcode(sn.sig))).collect();
    format!("[{}]", parts.join("; "))
}

/// a real node (with the slice of `asm` it reaches) as a term of type `node` (coq/Model/Memo.v)
fn export(n: &Node, asm: &Assembly, stack: &mut Vec<usize>, drop: bool) -> String {
    match n {
        Node::Prim(p, s) => format!("(NPrim {} {})", code(&format!("P{p:?}")), s),
        Node::ImplPrim(p, s) => format!("(NPrim {} {})", code(&format!("I{p:?}")), s),
        Node::Mod(p, args, s) => format!("(NMod {} {} {})", code(&format!("M{p:?}")), export_args(args, asm, stack, drop), s),
        Node::ImplMod(p, args, s) => format!("(NMod {} {} {})", code(&format!("J{p:?}")), export_args(args, asm, stack, drop), s),
        Node::Array { len, inner, boxed, allow_ext, prim, span } => format!(
            "(NMod {} [({}, 0)] {})",
            code(&format!("A{len} {boxed} {allow_ext} {prim:?}")),
            export(inner, asm, stack, drop),
            span
        ),
        Node::Switch { branches, sig, under_cond, span } => {
            format!("(NMod {} {} {})", code(&format!("S{sig:?} {under_cond}")), export_args(branches, asm, stack, drop), span)
        }
        Node::Call(f, s) => {
            let (idx, h, orig) = hooks::function_parts(f);
            match asm.functions.get(idx) {
                Some(body) if !stack.contains(&idx) => {
                    stack.push(idx);
                    let b = export(body, asm, stack, drop);
                    stack.pop();
                    if drop {
                        format!("(NCall 0 {} 0 {} 0 {} {})", sigcode(f.sig), h >> 1, b, s)
                    } else {
                        format!("(NCall {} {} {} {} {} {} {})", code(&f.id.to_string()), sigcode(f.sig), idx, h >> 1, orig.map_or(0, |o| o + 1), b, s)
                    }
                }
                _ => format!("(NOther {} (Some {}))", h >> 1, s),
            }
        }
        Node::CallGlobal(i, sig) => format!("(NGlobal {} {})", i, sigcode(*sig)),
        Node::Push(v) => format!("(NPush {})", code(&format!("{} {:?} {}", v.type_name(), v.shape, v.show()))),
        Node::Run(ns) => format!("(NRun [{}])", ns.iter().map(|x| export(x, asm, stack, drop)).collect::<Vec<_>>().join("; ")),
        other => format!(
            "(NOther {} {})",
            hooks::node_key(other) >> 1,
            match other.span() {
                Some(s) => format!("(Some {s})"),
                None => "None".into(),
            }
        ),
    }
}

fn export_slice(n: &Node, asm: &Assembly) -> String {
    format!("[{}]", n.as_slice().iter().map(|x| export(x, asm, &mut Vec::new(), false)).collect::<Vec<_>>().join("; "))
}

fn compile_lazy(src: &str) -> Option<Assembly> {
    let s = src.to_string();
    catch(move || {
        let mut comp = Compiler::with_backend(SafeSys::default());
        comp.print_diagnostics(false);
        comp.pre_eval_mode(PreEvalMode::Lazy);
        comp.load_str(&s).ok()?;
        Some(comp.finish())
    })
    .ok()
    .flatten()
}

/// all nodes of a tree in pre-order as paths of child indices
/// variants the exporter prints as `NOther` (content hash and own span only): the tie does not vary
/// ingredients INSIDE them (custom inverses, no-inline and track-caller wrappers, labels, formats, ...)
fn is_opaque(n: &Node) -> bool {
    !matches!(
        n,
        Node::Prim(..) | Node::ImplPrim(..) | Node::Mod(..) | Node::ImplMod(..) | Node::Array { .. } | Node::Switch { .. } | Node::Call(..) | Node::CallGlobal(..) | Node::Push(..) | Node::Run(..)
    )
}

fn paths(n: &Node, cur: &mut Vec<usize>, out: &mut Vec<Vec<usize>>) {
    out.push(cur.clone());
    if is_opaque(n) {
        return;
    }
    for (i, c) in n.sub_nodes().enumerate() {
        cur.push(i);
        paths(c, cur, out);
        cur.pop();
    }
}

fn at_mut<'a>(n: &'a mut Node, path: &[usize]) -> &'a mut Node {
    match path.split_first() {
        None => n,
        Some((i, rest)) => at_mut(n.sub_nodes_mut().nth(*i).unwrap(), rest),
    }
}

fn at<'a>(n: &'a Node, path: &[usize]) -> &'a Node {
    match path.split_first() {
        None => n,
        Some((i, rest)) => at(n.sub_nodes().nth(*i).unwrap(), rest),
    }
}

/// replace every call by the function of the same name of another assembly
fn swap_calls(n: &mut Node, funcs: &HashMap<String, uiua::Function>) -> usize {
    let mut k = 0;
    if let Node::Call(f, _) = n {
        if let Some(g) = funcs.get(&f.id.to_string()) {
            *f = g.clone();
            k += 1;
        }
    }
    if is_opaque(n) {
        return k;
    }
    for c in n.sub_nodes_mut() {
        k += swap_calls(c, funcs);
    }
    k
}

fn collect_funcs(n: &Node, out: &mut HashMap<String, uiua::Function>) {
    if let Node::Call(f, _) = n {
        out.insert(f.id.to_string(), f.clone());
    }
    if is_opaque(n) {
        return;
    }
    for c in n.sub_nodes() {
        collect_funcs(c, out);
    }
}

/// the un-inverse computed in a fresh thread, printed with every span (handles' index/id dropped
/// by printing through the exporter of the result's own assembly is not possible: the result
/// refers to `asm`'s functions, so print it against `asm`)
fn real_un(n: &Node, asm: &Assembly) -> Option<String> {
    let (n, asm) = (n.clone(), asm.clone());
    in_thread(move || {
        catch(|| match n.un_inverse(&asm) {
            Ok(inv) => {
                // un.rs:45-51: a cached inverse with a top-level MatchPattern is never used
                let usable = !inv.iter().any(|n| matches!(n, Node::ImplPrim(uiua::ImplPrimitive::MatchPattern, _)));
                format!("{}{}", if usable { "U" } else { "N" }, export_full(&inv, &asm))
            }
            // errors are cached (and used) too; their text can name functions
            Err(e) => format!("E{e}"),
        })
        .ok()
    })
    .flatten()
}

/// like `export` but without index/id/origin of calls (the form `with_spans` compares)
fn export_full(n: &Node, asm: &Assembly) -> String {
    format!("[{}]", n.as_slice().iter().map(|x| export(x, asm, &mut Vec::new(), true)).collect::<Vec<_>>().join("; "))
}

/// the un-inverse of `y` computed right after that of `x` in the same (new) thread: the REAL cache decides
fn real_un_after(x: &Node, ax: &Assembly, y: &Node, ay: &Assembly) -> Option<String> {
    let (x, ax, y, ay) = (x.clone(), ax.clone(), y.clone(), ay.clone());
    in_thread(move || {
        catch(|| {
            let _ = x.un_inverse(&ax);
            match y.un_inverse(&ay) {
                Ok(inv) => export_full(&inv, &ay),
                Err(e) => e.to_string(),
            }
        })
        .ok()
    })
    .flatten()
}

fn inv_result_string(res: Result<String, String>) -> String {
    match res {
        Ok(s) => format!("K{s}"),
        Err(e) => format!("E{e}"),
    }
}

/// one of the three inversions through the public API, printed with every span (handles' id/index dropped)
fn invert_once(which: u8, n: &Node, asm: &Assembly, g: Signature, inv: bool) -> String {
    inv_result_string(match which {
        0 => n.un_inverse(asm).map(|r| export_full(&r, asm)).map_err(|e| e.to_string()),
        1 => n.anti_inverse(asm).map(|r| export_full(&r, asm)).map_err(|e| e.to_string()),
        _ => n.under_inverse(g, inv, asm).map(|(b, a)| format!("{} / {}", export_full(&b, asm), export_full(&a, asm))).map_err(|e| e.to_string()),
    })
}

/// the inversion of each (node, assembly, g_sig, inverse) in turn in ONE new thread; the results in order
fn invert_seq(which: u8, items: Vec<(Node, Assembly, Signature, bool)>) -> Option<Vec<String>> {
    in_thread(move || catch(move || items.iter().map(|(n, a, g, i)| invert_once(which, n, a, *g, *i)).collect::<Vec<_>>()).ok()).flatten()
}

/// the same assembly with one more entry in its spans table (no key feeds the table)
fn longer(asm: &Assembly) -> Assembly {
    let mut a = asm.clone();
    a.spans.push(uiua::Span::Builtin);
    a
}

/// does the real inversion read the length of the spans table (its fresh result changes with it)?
fn reads_len(which: u8, n: &Node, asm: &Assembly, g: Signature, inv: bool) -> Option<bool> {
    let a = invert_seq(which, vec![(n.clone(), asm.clone(), g, inv)])?;
    let b = invert_seq(which, vec![(n.clone(), longer(asm), g, inv)])?;
    Some(a != b)
}

/// one store case: does the real inversion of `t` read the table length, and is its result served again
/// (same key, longer table) in the same thread?  observable only when the length is read
fn emit_store(which: u8, t: &Node, asm: &Assembly) {
    let g = Signature::new(1, 1);
    let Some(reads) = reads_len(which, t, asm, g, false) else { return };
    let seq = invert_seq(which, vec![(t.clone(), asm.clone(), g, false), (t.clone(), longer(asm), g, false)]);
    let fresh2 = invert_seq(which, vec![(t.clone(), longer(asm), g, false)]);
    if let (Some(seq), Some(fresh2)) = (seq, fresh2) {
        // served again (1) or made anew (0)
        let stored = if !reads { 2 } else if seq[1] == fresh2[0] { 0 } else { 1 };
        println!(
            "{{\"store\":true,\"which\":{},\"x\":{},\"len\":{},\"reads\":{},\"stored\":{},\"show\":{}}}",
            which,
            jstr(&export_slice(t, asm)),
            asm.spans.len(),
            reads,
            stored,
            jstr(&format!("{t:?}"))
        );
    }
}

fn real_sig(n: &Node) -> String {
    let n = n.clone();
    in_thread(move || format!("{:?}", n.sig())).unwrap_or_default()
}

/// what compiling `src` in Lsp pre-evaluation mode leaves in the assembly (and the error), on a given backend
fn lsp_compile(src: &str, native: bool) -> String {
    catch(|| {
        let mut comp = if native { Compiler::with_backend(uiua::NativeSys) } else { Compiler::with_backend(SafeSys::default()) };
        comp.print_diagnostics(false);
        comp.pre_eval_mode(PreEvalMode::Lsp);
        let r = comp.load_str(src).map(|_| ());
        let mut out = String::new();
        if let Err(e) = r {
            describe_error(&e, &mut out);
        }
        let asm = comp.finish();
        format!("{out} root={:?}", asm.root)
    })
    .unwrap_or_else(|p| format!("PANIC[{p}]"))
}

/// (the denying backend's result after the native backend compiled the same text in this thread,
///  the denying backend's result in a fresh thread)
fn lsp_pair(src: &str) -> (String, String) {
    lsp_pair_with(src, 0)
}

fn lsp_pair_with(src: &str, bypass: u32) -> (String, String) {
    let s1 = src.to_string();
    let s2 = src.to_string();
    let a = in_thread(move || {
        hooks::set_bypass(bypass);
        let _ = lsp_compile(&s1, true);
        lsp_compile(&s1, false)
    })
    .unwrap_or_default();
    let b = in_thread(move || lsp_compile(&s2, false)).unwrap_or_default();
    (a, b)
}

fn main() {
    let args: Vec<String> = std::env::args().skip(1).collect();
    let mode = args.first().cloned().unwrap_or_default();
    let n: usize = args.get(1).and_then(|s| s.parse().ok()).unwrap_or(100);
    let mut r = Rng::new(seed_from_env());
    match mode.as_str() {
        "hist" => {
            let progs: Vec<String> = args[1..].iter().map(|s| s.replace("\\n", "\n")).collect();
            let h = history(&progs, 0);
            for (i, p) in progs.iter().enumerate() {
                let f = fresh(p);
                let o = h.get(i).cloned().unwrap_or_default();
                if f != fresh(p) {
                    println!("skip {} (two fresh runs differ: not deterministic)", jstr(p));
                } else if o == f {
                    println!("same {}\n   {}", jstr(p), o);
                } else {
                    let cache = attribute(&progs, i, &f);
                    println!("DIFF {} [cache:{}/{}]\n   hist : {}\n   fresh: {}", jstr(p), cache, diff_kind(&o, &f), o, f);
                }
            }
        }
        "lsp" => {
            // c12 lsp SRC : compile SRC in Lsp pre-evaluation mode with the native backend and then with the
            // denying backend in ONE thread; compare the second with the denying backend in a fresh thread
            let src = args[1].replace("\\n", "\n");
            let (a, b) = lsp_pair(&src);
            println!("{} {}\n   native, then safe (one thread): {}\n   safe (fresh thread)            : {}", if a == b { "same" } else { "DIFF" }, jstr(&src), a, b);
        }
        "tree" => {
            for a in &args[1..] {
                let src = a.replace("\\n", "\n");
                if let Some(asm) = compile_lazy(&src) {
                    println!("src {}\n root: {:?}\n model: {}", jstr(&src), asm.root, export_slice(&asm.root, &asm));
                    for (i, f) in asm.functions.iter().enumerate() {
                        println!(" fn {i}: {:?}", f);
                    }
                    println!(" spans: {:?}", asm.spans.iter().enumerate().collect::<Vec<_>>());
                }
            }
        }
        "search" => {
            let mut s = Search { fresh: Fresh { cache: HashMap::new(), evals: 0 }, evals: 0, histories: 0, compared: 0, skipped: 0, viol: HashMap::new(), fam: HashMap::new() };
            // (1) the regression corpus, always and first: every history that ever differed from
            //     a fresh thread (the first nine were repaired by 25aa9f6 and must stay repaired)
            let fixed: [&[&str]; 24] = [
                // the signature cache served another function's declared signature (repaired by 8592559)
                &["F ← |1.0 +\nG ← F", "F ← +\nG ← F\n∩G 1 2 3 4"],
                &["F ← +\nG ← F\n∩G 1 2 3 4", "F ← |1.0 +\nG ← F"],
                // the anti-inverse cache did not feed for_un (repaired by 261768c)
                &["M! ← ⊃(⌝^0 1|°(^0 1))\nM!ℂ ℂ0 5", "M! ← ⊃(°(^0 1)|⌝^0 1)\nM!ℂ ℂ0 5"],
                &["M! ← ⊃(°(^0 1)|⌝^0 1)\nM!ℂ ℂ0 5", "M! ← ⊃(⌝^0 1|°(^0 1))\nM!ℂ ℂ0 5"],
                &["⌝ℂ 1 ℂ0 5", "°(ℂ 1) ℂ0 5", "⌝ℂ 1 ℂ0 5"],
                // algebraic inverses took their span from the end of the spans table (repaired by 9ebd726)
                &["F ← +1˙×\n°F 5", "F ← +1˙×\nM! ← ⊃(¯^0|°^0)\nM!F \"ab\""],
                &["F ← +1˙×\nX ← 1\nY ← 2\n°F 5", "F ← +1˙×\nM! ← ⊃(¯^0|°^0)\nM!F \"ab\"", "F ← +1˙×\n°F \"ab\""],
                // same spans, the function index of K moves (X is a constant / a constant function)
                &["X ← 5\nK ← (7)\nF ← °(+K)\nF ⌊⚂", "X ← (5)\nK ← (7)\nF ← °(+K)\nF ⌊⚂"],
                &["X ← (5)\nK ← (7)\nF ← °(+K)\nF ⌊⚂", "X ← 5\nK ← (7)\nF ← °(+K)\nF ⌊⚂"],
                &["F ← ⊂1\nX ← 5\n°⊙F X [2 2]", "X ← 5\nF ← ⊂1\n°⊙F X [2 2]"],
                &["X ← 5\n\n≡⊢ ↯2_0 0", "≡⊢ ↯2_0 0"],
                &["A ← 1\nB ← 2\nC ← 3\nD ← +A×B C\nE ← ⊂⊟A B [C D]\n≡⊢ ↯2_0 0", "≡⊢ ↯2_0 0"],
                &["F ← ×\n≡(/F⇌) [1_2 3_4]", "G ← +\nF ← ×\n≡(/F⇌) [1_2 3_5]"],
                &["\n\nH ← ⊂2\nD ← ⊟\nF ← ⊂⊙1\nX ← 5\n⍜F(↙1) [2 2]\n", "\nF ← ⊂⊙1\nD ← ⊟\nX ← 5\n⍜F(↙1) [1_2 3_4]\n"],
                &["D ← ⊟\nF ← +1\nX ← 5\n⌝D 1 ↯2_0 0\n", "F ← +1\nD ← ⊟\nX ← 5\n  ⌝D 1 ↯2_0 0\n"],
                &["Y ← 7\nX ← 5\nD ← +\nF ← √\nY ← 7\n≡(¯/D⇌) [3_4 1_2]\n", "F ← √\nX ← 5\nD ← +\n≡(¯/D⇌) [1_2 3_5]\n"],
                &["F ← ⊂1\nX ← 5\n⍜⊙F(⊂3) X [2 2]", "X ← 5\nF ← ⊂1\n⍜⊙F(⊂3) X [2 2]"],
                &["F ← ⊢\nX ← 5\n≡(F⇌) ↯2_0 0", "X ← 5\nF ← ⊢\n≡(F⇌) ↯2_0 0"],
                // the spans-table length baked by the "match a constant exactly" inverse (repaired by 868269f)
                &["F ← ⊙5\n°F 1 6", "F ← ⊙5\nX ← 1\nY ← 2\n°F 1 6"],
                &["F ← ⊙5\nX ← 1\nY ← 2\nZ ← 3\n°F 1 6", "F ← ⊙5\n°F 1 6"],
                // still open: the purity cache
                &["X ← ⚂\n°(⊂X) [1 2]", "F ← |0.1 (°(⊂F) [1 2])\nF"],
                // the names of function handles (repaired by 7da4086)
                &["F ← ⍏\n°F [1 2]", "G ← ⍏\n°G [1 2]"],
                &["F ← ⊏\n≡(/F⇌) [1_2 3_9]", "G ← ⊏\n≡(/G⇌) [1_2 3_8]"],
                &["F ← ⍏\n⍜F⇌ [1 2]", "G ← ⍏\n⍜G⇌ [1 2]"],
            ];
            for h in fixed {
                let progs: Vec<String> = h.iter().map(|x| x.to_string()).collect();
                s.run_history("fixed", &progs);
            }
            // (2) generated programs built to collide keys
            for _ in 0..n {
                let fam: Vec<(usize, usize, usize, usize)> =
                    (0..2).map(|_| (r.below(MON_BODIES.len()), r.below(DY_BODIES.len()), r.below(USES.len()), r.below(VALUES.len()))).collect();
                let len = 2 + r.below(4);
                let progs: Vec<String> = (0..len).map(|_| gen_program(&mut r, &fam)).collect();
                s.run_history("generated", &progs);
            }
            // (2b) a generated program that keeps a call to a constant function in a cached inverse,
            //      paired with its const-fn edit (same spans, other function indices), both orders
            let c_uses: Vec<usize> = (0..USES.len()).filter(|u| USES[*u].contains('C')).collect();
            for _ in 0..(n / 4).max(10) {
                let fam = [(r.below(MON_BODIES.len()), r.below(DY_BODIES.len()), *r.pick(&c_uses), r.below(VALUES.len()))];
                let p = gen_program(&mut r, &fam);
                for (kind, e) in edits(&mut r, &p) {
                    if kind == "const-fn" {
                        s.run_history("generated-const-fn", &[p.clone(), e.clone()]);
                        s.run_history("generated-const-fn", &[e, p.clone()]);
                    }
                }
            }
            // (3) corpus: consecutive chunks of a file, and chunks with their edits
            let files = corpus_chunks();
            let all: Vec<&String> = files.iter().flat_map(|(_, c)| c.iter()).collect();
            let total_chunks = all.len();
            let m = (n / 2).max(10);
            for _ in 0..m {
                let (_, chunks) = &files[r.below(files.len())];
                if chunks.is_empty() {
                    continue;
                }
                let start = r.below(chunks.len());
                let len = (2 + r.below(5)).min(chunks.len() - start);
                let mut progs: Vec<String> = chunks[start..start + len].to_vec();
                if r.chance(1, 3) {
                    // a chunk of another file in between
                    progs.insert(r.below(progs.len()), all[r.below(all.len())].clone());
                }
                s.run_history("corpus-sequence", &progs);
            }
            for _ in 0..m {
                let p = all[r.below(all.len())].clone();
                let es = edits(&mut r, &p);
                let structural: Vec<&(&'static str, String)> = es.iter().filter(|(k, _)| matches!(*k, "reorder" | "rename" | "revalue" | "const-fn")).collect();
                let (kind, e) = if !structural.is_empty() && r.chance(2, 3) { (*r.pick(&structural)).clone() } else { es[r.below(es.len())].clone() };
                let fam: &'static str = match kind {
                    "reorder" => "edit-reorder",
                    "rename" => "edit-rename",
                    "revalue" => "edit-revalue",
                    "const-fn" => "edit-const-fn",
                    _ => "edit-shift",
                };
                let progs = if r.chance(1, 2) { vec![e, p] } else { vec![p, e] };
                s.run_history(fam, &progs);
            }
            // (3b) Lsp pre-evaluation: the same text compiled on the native backend and then on the denying
            //      backend in one thread, against the denying backend in a fresh thread
            // (repaired by 49da69f: the cache is only used for pure nodes)
            for src in ["&var \"PATH\"", "&fe \"/etc/passwd\"", "os", "+1 2", "⧻&fras \"/etc/hostname\"", "F ← &var \"PATH\"\nF"] {
                let (a, b) = lsp_pair(src);
                s.evals += 3;
                s.compared += 1;
                s.fam.entry("lsp-backends").or_insert((0, 0)).0 += 1;
                if a != b {
                    let (a2, _) = lsp_pair_with(src, hooks::PRE_EVAL);
                    let key = if a2 == b { "cache:pre-eval/lsp-backend" } else { "other-state/lsp-backend" };
                    *s.viol.entry(key.to_string()).or_insert(0) += 1;
                    s.fam.get_mut("lsp-backends").unwrap().1 += 1;
                    if s.viol[key] <= 2 {
                        println!(
                            "{{\"violation\":{},\"family\":\"lsp-backends\",\"history\":{},\"program\":{},\"hist\":{},\"fresh\":{}}}",
                            jstr(key),
                            jarr(&[format!("[Lsp mode, native backend] {src}"), format!("[Lsp mode, denying backend] {src}")]),
                            jstr(src),
                            jstr(&a.chars().take(160).collect::<String>()),
                            jstr(&b)
                        );
                    }
                }
            }
            // (4) the same program on 8 threads at once
            let mut thread_cases = 0;
            let tn = (n / 10).max(5);
            for k in 0..tn {
                let p: String = if k % 2 == 0 {
                    all[r.below(all.len())].clone()
                } else {
                    let fam = [(r.below(MON_BODIES.len()), r.below(DY_BODIES.len()), r.below(USES.len()), r.below(VALUES.len()))];
                    gen_program(&mut r, &fam)
                };
                let Some(f) = s.fresh.get(&p) else {
                    s.skipped += 1;
                    continue;
                };
                thread_cases += 1;
                let barrier = std::sync::Arc::new(std::sync::Barrier::new(8));
                let hs: Vec<_> = (0..8)
                    .map(|_| {
                        let (b, p) = (barrier.clone(), p.clone());
                        std::thread::Builder::new()
                            .stack_size(256 << 20)
                            .spawn(move || {
                                b.wait();
                                outcome(&p)
                            })
                            .unwrap()
                    })
                    .collect();
                for h in hs {
                    let o = h.join().unwrap_or_else(|_| "THREAD-DIED".into());
                    s.evals += 1;
                    if o != f {
                        let key = format!("threads/{}", diff_kind(&o, &f));
                        let n = s.viol.entry(key.clone()).or_insert(0);
                        *n += 1;
                        if *n <= 3 {
                            println!("{{\"violation\":{},\"family\":\"threads\",\"history\":{},\"program\":{},\"hist\":{},\"fresh\":{}}}", jstr(&key), jarr(&[p.clone()]), jstr(&p), jstr(&o), jstr(&f));
                        }
                    }
                }
            }
            let fams: Vec<String> = s.fam.iter().map(|(k, (h, v))| format!("{}:[{},{}]", jstr(k), h, v)).collect();
            let viols: Vec<String> = s.viol.iter().map(|(k, v)| format!("{}:{}", jstr(k), v)).collect();
            println!(
                "{{\"summary\":true,\"evaluations\":{},\"histories\":{},\"compared\":{},\"skipped_nondeterministic\":{},\"distinct_programs\":{},\"corpus_chunks\":{},\"thread_cases\":{},\"families\":{{{}}},\"violation_counts\":{{{}}}}}",
                s.evals + s.fresh.evals,
                s.histories,
                s.compared,
                s.skipped,
                s.fresh.cache.len(),
                total_chunks,
                thread_cases,
                fams.join(","),
                viols.join(",")
            );
        }
        "tie" => {
            let mut k = 0usize;
            let emit = |kind: &str, x: &Node, ax: &Assembly, y: &Node, ay: &Assembly, fcmp: bool, k: &mut usize| {
                let (sx, sy) = (x.as_slice(), y.as_slice());
                let sig_eq = hooks::sig_key(sx) == hooks::sig_key(sy);
                let node_eq = hooks::node_key(x) == hooks::node_key(y);
                let inv_eq = hooks::inverse_key(sx, ax) == hooks::inverse_key(sy, ay);
                let zip_eq = hooks::zip_key(x) == hooks::zip_key(y);
                // the anti-inverse key also feeds for_un: the pair of kind "for-un" is one tree with for_un = false / true
                let (fx, fy) = (false, kind == "for-un");
                let anti_eq = hooks::anti_inverse_key(sx, ax, fx) == hooks::anti_inverse_key(sy, ay, fy);
                // the under cache: g_sig and the inverse flag given for x and for y
                // (the inverse flag only matters for an unbalanced g: under.rs:427-435)
                let (gx, gy) = match kind {
                    "g-sig" => (Signature::new(1, 1), Signature::new(2, 2)),
                    "under-flag" => (Signature::new(2, 1), Signature::new(2, 1)),
                    _ => (Signature::new(1, 1), Signature::new(1, 1)),
                };
                let (ix, iy) = (false, kind == "under-flag");
                let (mut under_collide, mut under_x_reads, mut un_x_reads) = ("2", false, false);
                if fcmp || kind == "g-sig" || kind == "under-flag" {
                    let fx_ = invert_seq(2, vec![(x.clone(), ax.clone(), gx, ix)]);
                    let fy_ = invert_seq(2, vec![(y.clone(), ay.clone(), gy, iy)]);
                    if let (Some(a), Some(b)) = (fx_, fy_) {
                        if a != b {
                            // the real under cache: is y's inverse, asked right after x's, what a fresh thread gives?
                            if let Some(seq) = invert_seq(2, vec![(x.clone(), ax.clone(), gx, ix), (y.clone(), ay.clone(), gy, iy)]) {
                                under_collide = if seq[1] == b[0] { "0" } else { "1" };
                                under_x_reads = reads_len(2, x, ax, gx, ix).unwrap_or(false);
                            }
                        }
                    }
                }
                let mut collide = "2";
                let mut un_show = String::new();
                let mut x_usable = true;
                let (un_eq, sg_eq) = if fcmp {
                    let (a, b) = (real_un(x, ax), real_un(y, ay));
                    // un_eq: 1 same / 0 different inverses (both Ok), 3 different and an error involved, 2 n/a
                    let un = match (&a, &b) {
                        (Some(a), Some(b)) if a == b => "1",
                        (Some(a), Some(b)) if a.starts_with('E') || b.starts_with('E') => "3",
                        (Some(_), Some(_)) => "0",
                        _ => "2",
                    };
                    x_usable = a.as_ref().map_or(true, |s| !s.starts_with('N'));
                    if un == "0" || un == "3" {
                        un_show = format!("{} | {}", a.as_deref().unwrap_or(""), b.as_deref().unwrap_or("")).chars().take(600).collect();
                        // the real cache: does y's inverse, asked right after x's, come out as in a fresh thread?
                        un_x_reads = reads_len(0, x, ax, gx, ix).unwrap_or(false);
                        collide = match real_un_after(x, ax, y, ay) {
                            Some(after) if Some(after.as_str()) == b.as_ref().map(|s| &s[1..]) => "0",
                            Some(_) => "1",
                            None => "2",
                        };
                    }
                    (un, if real_sig(x) == real_sig(y) { "1" } else { "0" })
                } else {
                    ("2", "2")
                };
                println!(
                    "{{\"i\":{},\"kind\":{},\"x\":{},\"y\":{},\"sig_eq\":{},\"node_eq\":{},\"inv_eq\":{},\"zip_eq\":{},\"fx\":{},\"fy\":{},\"anti_eq\":{},\"un_eq\":{},\"rsig_eq\":{},\"un_collide\":{},\"x_usable\":{},\"un_x_reads\":{},\"gx\":{},\"gy\":{},\"ix\":{},\"iy\":{},\"under_collide\":{},\"under_x_reads\":{},\"lx\":{},\"ly\":{},\"un_show\":{},\"show\":{}}}",
                    *k,
                    jstr(kind),
                    jstr(&export_slice(x, ax)),
                    jstr(&export_slice(y, ay)),
                    sig_eq,
                    node_eq,
                    inv_eq,
                    zip_eq,
                    fx,
                    fy,
                    anti_eq,
                    un_eq,
                    sg_eq,
                    collide,
                    x_usable,
                    un_x_reads,
                    sigcode(gx),
                    sigcode(gy),
                    ix,
                    iy,
                    under_collide,
                    under_x_reads,
                    ax.spans.len(),
                    ay.spans.len(),
                    jstr(&un_show),
                    jstr(&format!("{x:?} | {y:?}"))
                );
                *k += 1;
            };
            // fixed store cases: bodies whose inverse matches a constant BENEATH a modifier (the outer result must
            // not be stored either: the flag of the inner making has to reach the outer wrapper)
            for src in ["F ← ⊙5\n°F 1 6", "F ← ⊙(⊙5)\n°F 1 2 6", "F ← ⊂⊙(5)\n°F [1 5]", "F ← ⊙5⇌\n°F [1] 6"] {
                if let Some(asm) = compile_lazy(src) {
                    if let Some(body) = asm.functions.first() {
                        for which in [0u8, 2u8] {
                            emit_store(which, body, &asm);
                        }
                    }
                }
            }
            let mut rounds = 0;
            while k < n && rounds < n * 20 {
                rounds += 1;
                let fam = [(r.below(MON_BODIES.len()), r.below(DY_BODIES.len()), r.below(USES.len()), r.below(VALUES.len()))];
                let src = gen_program(&mut r, &fam);
                let Some(asm) = compile_lazy(&src) else { continue };
                // the tree: the whole root, or the operand of the last modifier
                let mut ps = Vec::new();
                paths(&asm.root, &mut Vec::new(), &mut ps);
                let tp = ps[r.below(ps.len())].clone();
                let t: Node = at(&asm.root, &tp).clone();
                let mut sites = Vec::new();
                paths(&t, &mut Vec::new(), &mut sites);
                let fcmp = k % 3 == 0;
                // same tree twice
                if r.chance(1, 10) {
                    emit("identical", &t, &asm, &t, &asm, fcmp, &mut k);
                }
                // same tree, another g_sig / the other inverse flag given to under
                if r.chance(1, 6) {
                    emit("g-sig", &t, &asm, &t, &asm, false, &mut k);
                }
                if r.chance(1, 6) {
                    emit("under-flag", &t, &asm, &t, &asm, false, &mut k);
                }
                // the store side condition: does the real inversion read the table length, and is its result
                // served again (same key, longer table) in the same thread?
                if r.chance(1, 3) {
                    emit_store((k % 3) as u8, &t, &asm);
                }
                // same tree, anti-inverse for un / not for un
                if r.chance(1, 8) {
                    emit("for-un", &t, &asm, &t, &asm, false, &mut k);
                }
                // one span
                let spanned: Vec<&Vec<usize>> = sites.iter().filter(|p| !matches!(at(&t, p), Node::Run(_)) && at(&t, p).span().is_some()).collect();
                if !spanned.is_empty() {
                    let p = (*r.pick(&spanned)).clone();
                    let mut y = t.clone();
                    let new_span = (at(&t, &p).span().unwrap() + 1 + r.below(3)) % asm.spans.len().max(1);
                    if let Some(s) = at_mut(&mut y, &p).span_mut() {
                        *s = new_span;
                    }
                    let top = t.as_slice().iter().zip(y.as_slice()).any(|(a, b)| a.span() != b.span());
                    emit(if top { "top-span" } else { "nested-span" }, &t, &asm, &y, &asm, fcmp, &mut k);
                }
                // one literal / one primitive
                let pushes: Vec<&Vec<usize>> = sites.iter().filter(|p| matches!(at(&t, p), Node::Push(_))).collect();
                if !pushes.is_empty() && r.chance(1, 2) {
                    let p = (*r.pick(&pushes)).clone();
                    let mut y = t.clone();
                    *at_mut(&mut y, &p) = Node::new_push(Value::from(12345.5));
                    emit("literal", &t, &asm, &y, &asm, fcmp, &mut k);
                }
                let prims: Vec<&Vec<usize>> = sites.iter().filter(|p| matches!(at(&t, p), Node::Prim(..))).collect();
                if !prims.is_empty() && r.chance(1, 2) {
                    let p = (*r.pick(&prims)).clone();
                    let mut y = t.clone();
                    if let Node::Prim(pr, _) = at_mut(&mut y, &p) {
                        *pr = if *pr == uiua::Primitive::Reverse { uiua::Primitive::Transpose } else { uiua::Primitive::Reverse };
                    }
                    emit("primitive", &t, &asm, &y, &asm, fcmp, &mut k);
                }
                // a binding index
                if r.chance(1, 4) {
                    let mut x = t.clone();
                    let mut y = t.clone();
                    x.push(Node::CallGlobal(0, Signature::new(0, 1)));
                    y.push(Node::CallGlobal(1, Signature::new(0, 1)));
                    emit("binding-index", &x, &asm, &y, &asm, false, &mut k);
                }
                // function handles: same bodies at other indices (a function defined before)
                let mut have = HashMap::new();
                collect_funcs(&t, &mut have);
                if !have.is_empty() {
                    if let Some(asm2) = compile_lazy(&format!("Zq ← ⊟\n{src}")) {
                        let mut fs = HashMap::new();
                        collect_funcs(&asm2.root, &mut fs);
                        let mut y = t.clone();
                        if swap_calls(&mut y, &fs) > 0 {
                            emit("fn-index", &t, &asm, &y, &asm2, fcmp, &mut k);
                        }
                    }
                    // same bodies, same spans, other indices (an earlier constant becomes a constant function or back)
                    for (kind, e) in edits(&mut r, &src) {
                        if kind != "const-fn" {
                            continue;
                        }
                        if let Some(asm4) = compile_lazy(&e) {
                            let mut fs = HashMap::new();
                            collect_funcs(&asm4.root, &mut fs);
                            let moved = have.iter().any(|(k, f)| fs.get(k).map_or(false, |g| hooks::function_parts(g).0 != hooks::function_parts(f).0));
                            let mut y = t.clone();
                            if moved && asm4.spans.len() == asm.spans.len() && swap_calls(&mut y, &fs) > 0 {
                                emit("fn-index-only", &t, &asm, &y, &asm4, fcmp, &mut k);
                            }
                        }
                    }
                    // same bodies with other span indices (definitions in another order)
                    let lines: Vec<&str> = src.lines().collect();
                    let mut l2: Vec<&str> = lines.iter().filter(|l| is_binding_line(l)).copied().collect();
                    l2.reverse();
                    let rest: Vec<&str> = lines.iter().filter(|l| !is_binding_line(l)).copied().collect();
                    let src3 = format!("{}\n{}\n", l2.join("\n"), rest.join("\n"));
                    if let Some(asm3) = compile_lazy(&src3) {
                        let mut fs = HashMap::new();
                        collect_funcs(&asm3.root, &mut fs);
                        let mut y = t.clone();
                        if swap_calls(&mut y, &fs) > 0 {
                            emit("fn-body-spans", &t, &asm, &y, &asm3, fcmp, &mut k);
                        }
                    }
                    // equal bodies, another DECLARED signature (accepted with a warning when the stack delta agrees)
                    if src.contains("D ← ") {
                        if let Some(asm5) = compile_lazy(&src.replacen("D ← ", "D ← |1.0 ", 1)) {
                            let mut fs = HashMap::new();
                            collect_funcs(&asm5.root, &mut fs);
                            fs.retain(|k, f| have.get(k).map_or(false, |g| g.sig != f.sig));
                            let mut y = t.clone();
                            if !fs.is_empty() && swap_calls(&mut y, &fs) > 0 {
                                emit("fn-declared-sig", &t, &asm, &y, &asm5, fcmp, &mut k);
                            }
                        }
                    }
                    // the name of a handle
                    let mut y = t.clone();
                    let mut fs = have.clone();
                    for f in fs.values_mut() {
                        f.id = uiua::FunctionId::Named("Qq".into());
                    }
                    let renamed: HashMap<String, uiua::Function> = have.keys().cloned().zip(have.keys().map(|k| fs[k].clone())).collect();
                    if swap_calls(&mut y, &renamed) > 0 {
                        emit("fn-name", &t, &asm, &y, &asm, true, &mut k);
                    }
                    // the sig field of a handle
                    let mut y = t.clone();
                    let mut fs = have.clone();
                    for f in fs.values_mut() {
                        f.sig = Signature::new(f.sig.args() + 1, f.sig.outputs());
                    }
                    if swap_calls(&mut y, &fs) > 0 {
                        emit("fn-sig-field", &t, &asm, &y, &asm, fcmp, &mut k);
                    }
                }
            }
        }
        _ => eprintln!("usage: c12 search|tie N | hist P… | tree P…"),
    }
}
