//! C16: map arrays behave as insertion-ordered finite maps under every history.
//!   c16 tie N LEN        -> JSON lines: N histories run through the interpreter, with the concrete key table
//!                           (map_dump) after every step and the real hashes of the keys, as Coq terms
//!   c16 exh DEPTH        -> exhaustive histories (mutators branch, all observers at every node) per key class,
//!                           implementation vs association list; JSON lines with violations and counts
//!   c16 rand N LEN       -> random histories (larger universes, growth across several doublings)
//!   c16 one CLASS "ops"  -> replay one history, e.g. `c16 one int "i0=10 i1=11 d2 u"`
use std::collections::BTreeMap;

use uiua::{Uiua, Value};
use uvh::*;

const EMPTY_BITS: u64 = 0x7ff8_0000_0000_0001;
const TOMB_BITS: u64 = 0x7ff8_0000_0000_0002;
const EMPTY_CHAR: char = '\u{2ffff}';
const TOMB_CHAR: char = '\u{2fffe}';
const NAN_CODE: u64 = 999;
const NEGZERO_CODE: u64 = 1000;

#[derive(Clone, Debug, PartialEq)]
enum Op {
    Ins(usize, usize),
    Rem(usize),
    Get(usize),
    Has(usize),
    Len,
    Unmap,
    Rev,
    Rot(i64),
    Take(usize),
    Drop(usize),
    Join(Vec<(usize, usize)>),
}

#[derive(Clone, Debug, PartialEq)]
enum Out {
    None,
    Err(String),
    Val(Value),
    Missing,
    Bool(bool),
    Nat(usize),
    KV(Vec<Value>, Vec<Value>),
}

fn is_mutator(op: &Op) -> bool {
    !matches!(op, Op::Get(_) | Op::Has(_) | Op::Len | Op::Unmap)
}

/// a key universe
struct Class {
    name: &'static str,
    keys: Vec<Value>,
    /// index of a NaN key in `keys`, if any
    nan: Option<usize>,
}

fn scalar(x: f64) -> Value {
    num(&[], &[x])
}
fn val_of(v: usize) -> Value {
    scalar(v as f64)
}

fn class(name: &str, n: usize) -> Class {
    let (name, keys, nan): (&'static str, Vec<Value>, Option<usize>) = match name {
        "int" => ("int", (0..n).map(|i| scalar(i as f64)).collect(), None),
        "char" => ("char", (0..n).map(|i| chars(&[], &[char::from_u32('a' as u32 + i as u32).unwrap()])).collect(), None),
        "nan" => {
            let mut k: Vec<Value> = (0..n).map(|i| scalar(i as f64)).collect();
            let at = 2.min(n - 1);
            k[at] = scalar(f64::NAN);
            ("nan", k, Some(at))
        }
        // keys bit-identical to the placeholder values: OUTSIDE the property (`c16 one sentinel ...` shows why)
        "sentinel" => {
            let mut k: Vec<Value> = (0..n).map(|i| scalar(i as f64)).collect();
            k[1.min(n - 1)] = scalar(f64::from_bits(EMPTY_BITS));
            k[n - 1] = scalar(f64::from_bits(TOMB_BITS));
            ("sentinel", k, None)
        }
        "negzero" => {
            // 0.0 and -0.0 are the same key
            let mut k: Vec<Value> = (0..n).map(|i| scalar(i as f64)).collect();
            if n > 1 {
                k[1] = scalar(-0.0);
            }
            ("negzero", k, None)
        }
        "str" => (
            "str",
            (0..n)
                .map(|i| {
                    let a = char::from_u32('a' as u32 + (i % 26) as u32).unwrap();
                    let b = char::from_u32('a' as u32 + ((i / 26) % 26) as u32).unwrap();
                    chars(&[2], &[a, b])
                })
                .collect(),
            None,
        ),
        _ => (
            "box",
            (0..n)
                .map(|i| match i % 4 {
                    0 => boxes(&[], vec![num(&[2], &[1.0, i as f64])]),
                    1 => boxes(&[], vec![chars(&[1], &[char::from_u32('a' as u32 + (i % 26) as u32).unwrap()])]),
                    2 => boxes(&[], vec![scalar(i as f64)]),
                    _ => boxes(&[], vec![num(&[i / 4], &vec![7.0; i / 4])]),
                })
                .collect(),
            None,
        ),
    };
    Class { name, keys, nan }
}

fn show_op(op: &Op) -> String {
    match op {
        Op::Ins(k, v) => format!("i{k}={v}"),
        Op::Rem(k) => format!("r{k}"),
        Op::Get(k) => format!("g{k}"),
        Op::Has(k) => format!("h{k}"),
        Op::Len => "n".into(),
        Op::Unmap => "u".into(),
        Op::Rev => "v".into(),
        Op::Rot(b) => format!("o{b}"),
        Op::Take(n) => format!("t{n}"),
        Op::Drop(n) => format!("d{n}"),
        Op::Join(l) => format!("j{}", l.iter().map(|(k, v)| format!("{k}={v}")).collect::<Vec<_>>().join(",")),
    }
}
fn show_hist(h: &[Op]) -> String {
    h.iter().map(show_op).collect::<Vec<_>>().join(" ")
}
fn parse_hist(s: &str) -> Vec<Op> {
    let num = |t: &str| t.parse::<usize>().unwrap();
    s.split_whitespace()
        .map(|t| {
            let (c, rest) = t.split_at(1);
            match c {
                "i" => {
                    let (k, v) = rest.split_once('=').unwrap();
                    Op::Ins(num(k), num(v))
                }
                "r" => Op::Rem(num(rest)),
                "g" => Op::Get(num(rest)),
                "h" => Op::Has(num(rest)),
                "n" => Op::Len,
                "u" => Op::Unmap,
                "v" => Op::Rev,
                "o" => Op::Rot(rest.parse().unwrap()),
                "t" => Op::Take(num(rest)),
                "d" => Op::Drop(num(rest)),
                _ => Op::Join(
                    rest.split(',')
                        .filter(|p| !p.is_empty())
                        .map(|p| {
                            let (k, v) = p.split_once('=').unwrap();
                            (num(k), num(v))
                        })
                        .collect(),
                ),
            }
        })
        .collect()
}
/// the history as a uiua program (for the report)
fn uiua_of(cl: &Class, h: &[Op]) -> String {
    let k = |i: &usize| format!("{}", cl.keys[*i].show()).replace('\n', " ");
    let mut s: Vec<String> = Vec::new();
    for op in h.iter().rev() {
        s.push(match op {
            Op::Ins(a, v) => format!("insert {} {v}", k(a)),
            Op::Rem(a) => format!("remove {}", k(a)),
            Op::Get(a) => format!("get {}", k(a)),
            Op::Has(a) => format!("has {}", k(a)),
            Op::Len => "⧻".into(),
            Op::Unmap => "°map".into(),
            Op::Rev => "⇌".into(),
            Op::Rot(b) => format!("↻{}", if *b < 0 { format!("¯{}", -b) } else { b.to_string() }),
            Op::Take(n) => format!("↙{n}"),
            Op::Drop(n) => format!("↘{n}"),
            Op::Join(l) => format!(
                "⊂ : map [{}] [{}]",
                l.iter().map(|(a, _)| k(a)).collect::<Vec<_>>().join(" "),
                l.iter().map(|(_, v)| v.to_string()).collect::<Vec<_>>().join(" ")
            ),
        });
    }
    s.push("map [] []".into());
    s.join(" ")
}

fn rows_value(rows: Vec<Value>, proto: &Value) -> Value {
    if rows.is_empty() {
        let mut sh: Vec<usize> = vec![0];
        sh.extend(proto.shape.iter().copied());
        match proto {
            Value::Char(_) => chars(&sh, &[]),
            Value::Box(_) => boxes(&sh, vec![]),
            _ => num(&sh, &[]),
        }
    } else {
        Value::from_row_values_infallible(rows)
    }
}

fn build_map(env: &Uiua, cl: &Class, l: &[(usize, usize)]) -> Result<Value, String> {
    let keys = rows_value(l.iter().map(|(k, _)| cl.keys[*k].clone()).collect(), &cl.keys[0]);
    let mut vals = rows_value(l.iter().map(|(_, v)| val_of(*v)).collect(), &val_of(0));
    vals.map(keys, env).map_err(|e| e.to_string())?;
    Ok(vals)
}

/// MapKeys::insert retries by recursion after `grow()`, which does nothing while len/capacity <= 0.75:
/// with a table that has no empty and no tombstone cell (only reachable through the NaN-key defect)
/// an insert of an absent key recurses until the stack overflows and the process aborts.  The
/// harness predicts that situation from the dump instead of running into it (`c16 one` with
/// C16_NOGUARD=1 runs it for real; see `confirm_crash`).
fn would_recurse_forever(cl: &Class, m: &Value, op: &Op) -> bool {
    if std::env::var("C16_NOGUARD").is_ok() {
        return false;
    }
    let ks: Vec<usize> = match op {
        Op::Ins(k, _) => vec![*k],
        Op::Join(l) => l.iter().map(|p| p.0).collect(),
        _ => return false,
    };
    let Some((cells, idx, len, _)) = uiua::verif::map_dump(m) else { return false };
    if idx.is_empty() || cells.rank() == 0 || 4 * len > 3 * idx.len() {
        return false;
    }
    let rows: Vec<Value> = cells.rows().collect();
    if rows.len() != idx.len() || rows.iter().any(uiua::verif::is_cell_placeholder) {
        return false;
    }
    ks.iter().any(|k| !rows.iter().any(|c| *c == cl.keys[*k]))
}
const RECURSE: &str = "NOT RUN: insert would recurse until the stack overflows (table without empty or tombstone cell at load <= 0.75)";
fn confirm_crash(cl: &Class, h: &[Op]) -> String {
    let exe = std::env::current_exe().unwrap();
    match std::process::Command::new(exe).args(["one", cl.name, &show_hist(h)]).env("C16_NOGUARD", "1").output() {
        Ok(o) if !o.status.success() => format!(
            "confirmed in a child process: {:?}, stderr: {}",
            o.status,
            String::from_utf8_lossy(&o.stderr).lines().filter(|l| l.contains("overflow")).collect::<Vec<_>>().join(" / ")
        ),
        Ok(_) => "child process ran the history without crashing".into(),
        Err(e) => format!("could not run child: {e}"),
    }
}

/// everything that determines the future behaviour of a map value, as a string
fn state_sig(v: &Value) -> String {
    let d = uiua::verif::map_dump(v).map(|d| (format!("{:?}", d.0.rows().map(|r| format!("{}{:?}", r.type_name(), r.show())).collect::<Vec<_>>()), d.1, d.2, d.3));
    format!("{}{:?}|{:?}|{:?}", v.type_name(), v.shape, d, v.rows().map(|r| r.show()).collect::<Vec<_>>())
}

fn classify_err(e: String) -> Out {
    if e.contains("Key not found") { Out::Missing } else { Out::Err(e) }
}

/// one operation through the Value API (the functions the interpreter dispatches to: run_prim.rs)
fn apply_api(env: &Uiua, cl: &Class, m: &Value, op: &Op) -> (Option<Value>, Out) {
    if would_recurse_forever(cl, m, op) {
        return (None, Out::Err(RECURSE.into()));
    }
    let r = catch(|| -> Result<(Option<Value>, Out), String> {
        Ok(match op {
            Op::Ins(k, v) => {
                let mut m = m.clone();
                m.insert(cl.keys[*k].clone(), val_of(*v), false, env).map_err(|e| e.to_string())?;
                (Some(m), Out::None)
            }
            Op::Rem(k) => {
                let mut m = m.clone();
                m.remove(cl.keys[*k].clone(), env).map_err(|e| e.to_string())?;
                (Some(m), Out::None)
            }
            Op::Get(k) => match m.get(&cl.keys[*k], env) {
                Ok(v) => (None, Out::Val(v)),
                Err(e) => (None, classify_err(e.to_string())),
            },
            Op::Has(k) => {
                let a = m.has_key(&cl.keys[*k], env).map_err(|e| e.to_string())?;
                let v: Value = a.into();
                (None, Out::Bool(v == scalar(1.0)))
            }
            Op::Len => (None, Out::Nat(m.row_count())),
            Op::Unmap => {
                let (k, v) = m.clone().unmap(env).map_err(|e| e.to_string())?;
                (None, Out::KV(k.rows().collect(), v.rows().collect()))
            }
            Op::Rev => {
                let mut m = m.clone();
                m.reverse();
                (Some(m), Out::None)
            }
            Op::Rot(b) => {
                let mut m = m.clone();
                scalar(*b as f64).rotate(&mut m, env).map_err(|e| e.to_string())?;
                (Some(m), Out::None)
            }
            Op::Take(n) => (Some(scalar(*n as f64).take(m.clone(), env).map_err(|e| e.to_string())?), Out::None),
            Op::Drop(n) => (Some(scalar(*n as f64).drop(m.clone(), env).map_err(|e| e.to_string())?), Out::None),
            Op::Join(l) => {
                let other = build_map(env, cl, l)?;
                (Some(m.clone().join(other, true, env).map_err(|e| e.to_string())?), Out::None)
            }
        })
    });
    match r {
        Ok(Ok(x)) => x,
        Ok(Err(e)) => (None, classify_err(e)),
        Err(p) => (None, Out::Err(format!("PANIC: {p}"))),
    }
}

/// the same operation as a uiua program run by the interpreter
fn apply_interp(cl: &Class, m: &Value, op: &Op) -> (Option<Value>, Out) {
    if would_recurse_forever(cl, m, op) {
        return (None, Out::Err(RECURSE.into()));
    }
    let one = |r: Result<Vec<Value>, String>| -> Result<Value, String> {
        let mut st = r?;
        if st.len() != 1 {
            return Err(format!("expected one result, got {}", st.len()));
        }
        Ok(st.pop().unwrap())
    };
    let r: Result<(Option<Value>, Out), String> = (|| {
        Ok(match op {
            Op::Ins(k, v) => (Some(one(run_uiua_with("insert", &[m.clone(), val_of(*v), cl.keys[*k].clone()]))?), Out::None),
            Op::Rem(k) => (Some(one(run_uiua_with("remove", &[m.clone(), cl.keys[*k].clone()]))?), Out::None),
            Op::Get(k) => (None, Out::Val(one(run_uiua_with("get", &[m.clone(), cl.keys[*k].clone()]))?)),
            Op::Has(k) => (None, Out::Bool(one(run_uiua_with("has", &[m.clone(), cl.keys[*k].clone()]))? == scalar(1.0))),
            Op::Len => {
                let v = one(run_uiua_with("⧻", &[m.clone()]))?;
                (None, Out::Nat(v.as_nat(&Uiua::with_safe_sys(), None).map_err(|e| e.to_string())?))
            }
            Op::Unmap => {
                let st = run_uiua_with("°map", &[m.clone()])?;
                if st.len() != 2 {
                    return Err("°map did not return two values".into());
                }
                // stack bottom first: values below keys
                (None, Out::KV(st[1].rows().collect(), st[0].rows().collect()))
            }
            Op::Rev => (Some(one(run_uiua_with("⇌", &[m.clone()]))?), Out::None),
            Op::Rot(b) => (Some(one(run_uiua_with("↻", &[m.clone(), scalar(*b as f64)]))?), Out::None),
            Op::Take(n) => (Some(one(run_uiua_with("↙", &[m.clone(), scalar(*n as f64)]))?), Out::None),
            Op::Drop(n) => (Some(one(run_uiua_with("↘", &[m.clone(), scalar(*n as f64)]))?), Out::None),
            Op::Join(l) => {
                let keys = rows_value(l.iter().map(|(k, _)| cl.keys[*k].clone()).collect(), &cl.keys[0]);
                let vals = rows_value(l.iter().map(|(_, v)| val_of(*v)).collect(), &val_of(0));
                (Some(one(run_uiua_with("⊂ : map", &[m.clone(), vals, keys]))?), Out::None)
            }
        })
    })();
    match r {
        Ok(x) => x,
        Err(e) => (None, classify_err(e)),
    }
}

// ------------------------------------------------------------------ association-list specification

type AList = Vec<(Value, Value)>;

fn a_pos(a: &AList, k: &Value) -> Option<usize> {
    a.iter().position(|(k2, _)| k2 == k)
}
fn a_join(a: &mut AList, k: Value, v: Value) {
    if let Some(i) = a_pos(a, &k) {
        a.remove(i);
    }
    a.push((k, v));
}
fn spec_step(cl: &Class, a: &AList, op: &Op) -> (AList, Out) {
    let mut a = a.clone();
    let out = match op {
        Op::Ins(k, v) => {
            let key = cl.keys[*k].clone();
            match a_pos(&a, &key) {
                Some(i) => a[i] = (key, val_of(*v)),
                None => a.push((key, val_of(*v))),
            }
            Out::None
        }
        Op::Rem(k) => {
            if let Some(i) = a_pos(&a, &cl.keys[*k]) {
                a.remove(i);
            }
            Out::None
        }
        Op::Get(k) => match a_pos(&a, &cl.keys[*k]) {
            Some(i) => Out::Val(a[i].1.clone()),
            None => Out::Missing,
        },
        Op::Has(k) => Out::Bool(a_pos(&a, &cl.keys[*k]).is_some()),
        Op::Len => Out::Nat(a.len()),
        Op::Unmap => Out::KV(a.iter().map(|p| p.0.clone()).collect(), a.iter().map(|p| p.1.clone()).collect()),
        Op::Rev => {
            a.reverse();
            Out::None
        }
        Op::Rot(b) => {
            if !a.is_empty() {
                let n = a.len() as i64;
                a.rotate_left(b.rem_euclid(n) as usize);
            }
            Out::None
        }
        Op::Take(n) => {
            if *n > a.len() {
                Out::Err("take more than there is".into())
            } else {
                a.truncate(*n);
                Out::None
            }
        }
        Op::Drop(n) => {
            let n = (*n).min(a.len());
            a.drain(..n);
            Out::None
        }
        Op::Join(l) => {
            let mut b: AList = Vec::new();
            for (k, v) in l {
                a_join(&mut b, cl.keys[*k].clone(), val_of(*v));
            }
            for (k, v) in b {
                a_join(&mut a, k, v);
            }
            Out::None
        }
    };
    (a, out)
}

fn out_matches(imp: &Out, spec: &Out) -> bool {
    match (imp, spec) {
        (Out::Err(_), Out::Err(_)) => true,
        (Out::KV(k1, v1), Out::KV(k2, v2)) => k1 == k2 && v1 == v2,
        (a, b) => a == b,
    }
}

/// full comparison of a map value with the association list: every observer
fn observe(env: &Uiua, cl: &Class, m: &Value, a: &AList, evals: &mut usize) -> Result<(), String> {
    if let Err(e) = uiua::verif::check_value(m) {
        return Err(format!("check_value: {e}"));
    }
    let mut ops = vec![Op::Len, Op::Unmap];
    for k in 0..cl.keys.len() {
        ops.push(Op::Get(k));
        ops.push(Op::Has(k));
    }
    for op in &ops {
        *evals += 1;
        let (_, got) = apply_api(env, cl, m, op);
        let (_, want) = spec_step(cl, a, op);
        if !out_matches(&got, &want) {
            return Err(format!("{} gives {} but the association list gives {}", show_op(op), show_out(&got), show_out(&want)));
        }
    }
    Ok(())
}

fn show_vals(vs: &[Value]) -> String {
    format!("[{}]", vs.iter().map(|v| v.show().replace('\n', " ")).collect::<Vec<_>>().join(" "))
}
fn show_out(o: &Out) -> String {
    match o {
        Out::None => "-".into(),
        Out::Err(e) => format!("error({})", e.lines().next().unwrap_or("")),
        Out::Val(v) => v.show().replace('\n', " "),
        Out::Missing => "missing".into(),
        Out::Bool(b) => format!("{}", *b as u8),
        Out::Nat(n) => n.to_string(),
        Out::KV(k, v) => format!("keys {} values {}", show_vals(k), show_vals(v)),
    }
}

// ------------------------------------------------------------------ violations

#[derive(Default)]
struct Findings {
    /// key -> (count, shortest history, detail, class)
    by_key: BTreeMap<String, (usize, Vec<Op>, String, String)>,
}
impl Findings {
    fn add(&mut self, key: String, cl: &Class, h: &[Op], detail: String) {
        let e = self.by_key.entry(key).or_insert((0, h.to_vec(), detail.clone(), cl.name.to_string()));
        e.0 += 1;
        if h.len() < e.1.len() {
            e.1 = h.to_vec();
            e.2 = detail;
            e.3 = cl.name.to_string();
        }
    }
    fn print(&self, n: usize) {
        for (key, (count, h, detail, cname)) in &self.by_key {
            // a divergence seen by an observer: show the observer as the last step of the program
            let mut h = h.clone();
            if let Some(tok) = detail.split_whitespace().next() {
                let (c, rest) = tok.split_at(1);
                if matches!(c, "g" | "h" | "n" | "u") && rest.chars().all(|ch| ch.is_ascii_digit()) && detail.contains(" gives ") {
                    h.extend(parse_hist(tok));
                }
            }
            let h = &h;
            let cl = class(cname, n.max(h.iter().map(max_key).max().unwrap_or(0) + 1));
            println!(
                "{{\"violation\":{},\"count\":{count},\"class\":{},\"history\":{},\"program\":{},\"detail\":{}}}",
                jstr(key),
                jstr(cname),
                jstr(&show_hist(h)),
                jstr(&uiua_of(&cl, h)),
                jstr(detail)
            );
        }
    }
}
fn max_key(op: &Op) -> usize {
    match op {
        Op::Ins(k, _) | Op::Rem(k) | Op::Get(k) | Op::Has(k) => *k,
        Op::Join(l) => l.iter().map(|p| p.0).max().unwrap_or(0),
        _ => 0,
    }
}

/// stable key of a divergence found after the last operation of `h` (state before it: `before`)
fn violation_key(cl: &Class, h: &[Op], before: &AList, detail: &str) -> String {
    if let Some(n) = cl.nan {
        // an observer applied to the NaN key
        if detail.starts_with(&format!("g{n} ")) || detail.starts_with(&format!("h{n} ")) {
            return "map-key-nan".into();
        }
    }
    let uses_nan = |op: &Op| match (cl.nan, op) {
        (Some(n), Op::Ins(k, _) | Op::Rem(k) | Op::Get(k) | Op::Has(k)) => *k == n,
        (Some(n), Op::Join(l)) => l.iter().any(|p| p.0 == n),
        _ => false,
    };
    if h.iter().any(uses_nan) {
        return "map-key-nan".into();
    }
    match h.last() {
        Some(Op::Drop(n)) if *n >= before.len() && !before.is_empty() => "map-drop-all".into(),
        Some(Op::Join(l)) => {
            let mut distinct: Vec<usize> = l.iter().map(|p| p.0).collect();
            distinct.sort();
            distinct.dedup();
            if distinct.len() < l.len() {
                "map-dup-keys".into()
            } else if l.iter().filter(|p| a_pos(before, &cl.keys[p.0]).is_some()).count() >= 2 {
                "map-join-overlap".into()
            } else {
                format!("general:{}:{}", cl.name, show_hist(h))
            }
        }
        _ => format!("general:{}:{}", cl.name, show_hist(h)),
    }
}

// ------------------------------------------------------------------ exhaustive search

struct Exh<'a> {
    env: Uiua,
    cl: &'a Class,
    muts: Vec<Op>,
    evals: usize,
    nodes: usize,
    histories: usize,
    pruned: usize,
    max_cap: usize,
    f: Findings,
    /// state -> largest remaining depth already explored from it (only with `memo`)
    memo: Option<std::collections::HashMap<String, usize>>,
    memo_hits: usize,
}

impl Exh<'_> {
    fn dfs(&mut self, m: &Value, a: &AList, h: &mut Vec<Op>, depth: usize) {
        self.nodes += 1;
        if depth == 0 {
            self.histories += 1;
            return;
        }
        if let Some(memo) = &mut self.memo {
            let sig = format!("{}#{:?}", state_sig(m), a.iter().map(|p| (p.0.show(), p.1.show())).collect::<Vec<_>>());
            match memo.get(&sig) {
                Some(&d) if d >= depth => {
                    self.memo_hits += 1;
                    return;
                }
                _ => {
                    memo.insert(sig, depth);
                }
            }
        }
        for oi in 0..self.muts.len() {
            let op = self.muts[oi].clone();
            h.push(op.clone());
            self.evals += 1;
            let (m2, out) = apply_api(&self.env, self.cl, m, &op);
            let (a2, want) = spec_step(self.cl, a, &op);
            let mut bad: Option<String> = None;
            if out == Out::Err(RECURSE.into()) {
                let first = !self.f.by_key.contains_key(&violation_key(self.cl, h, a, ""));
                bad = Some(format!("{} would never return: {RECURSE}{}", show_op(&op), if first { format!("; {}", confirm_crash(self.cl, h)) } else { String::new() }));
            } else if !out_matches(&out, &want) {
                bad = Some(format!("{} outputs {} but the association list gives {}", show_op(&op), show_out(&out), show_out(&want)));
            }
            let m2 = m2.unwrap_or_else(|| m.clone());
            if bad.is_none() && !matches!(out, Out::Err(_)) {
                if let Err(e) = observe(&self.env, self.cl, &m2, &a2, &mut self.evals) {
                    bad = Some(e);
                }
            }
            if let Some((_, idx, _, _)) = uiua::verif::map_dump(&m2) {
                self.max_cap = self.max_cap.max(idx.len());
            }
            match bad {
                Some(detail) => {
                    let key = violation_key(self.cl, h, a, &detail);
                    self.f.add(key, self.cl, h, detail);
                    self.pruned += 1;
                }
                None => {
                    if matches!(out, Out::Err(_)) {
                        // the program ends here on both sides
                        self.histories += 1;
                    } else {
                        self.dfs(&m2, &a2, h, depth - 1);
                    }
                }
            }
            h.pop();
        }
    }
}

/// fixed regression corpus: the histories that exposed the defects repaired by d33ad92 (NaN key),
/// 1d73a86 (drop of every row), ca07ac6 (join with several shared keys), 5017b06 (map from
/// keys with several repetitions); universes of 4 keys, key 2 of class "nan" is NaN
fn corpus() -> Vec<(&'static str, &'static str)> {
    vec![
        ("nan", "i0=14 i1=15 i3=16 g2 h2 u"),
        ("nan", "i0=14 i1=15 i3=16 i2=17 u g2 h2 n"),
        ("nan", "i0=10 r2 u g0"),
        ("nan", "i0=10 r2 i1=11 i3=12 u"),
        ("nan", "j0=30 g2"),
        ("nan", "j3=24,0=20 g2 h2"),
        ("nan", "i2=10 g2 h2 r2 g2 h2 i2=11 i2=12 u"),
        ("nan", "i0=10 i2=11 i1=12 i3=13 r2 i2=14 u v o1 t3 d1 u"),
        ("int", "i3=14 d1 u n h3"),
        ("int", "i3=14 i1=16 d2 u i0=10 u"),
        ("int", "i0=10 d1 i1=11 g1 u"),
        ("int", "i0=10 i1=11 d5 u i2=12 u"),
        ("char", "i0=10 d1 u"),
        ("str", "i19=11 i2=15 d2 u"),
        ("box", "i0=10 d1 u"),
        ("int", "i0=14 i1=15 i2=16 j0=27,1=28 u g2 g0 g1"),
        ("int", "j0=20,1=21 j0=20,1=21 u"),
        ("int", "i0=1 i1=2 i2=3 i3=4 j0=27,2=28 u g1 g3"),
        ("int", "i0=1 i1=2 i2=3 i3=4 j3=27,1=28,0=29 u g2"),
        ("char", "j0=20,1=21 j0=20,1=21 u"),
        ("str", "j0=20,1=21 j0=20,1=21 u"),
        ("box", "j0=20,1=21 j0=20,1=21 u"),
        ("int", "j0=30,1=31,1=32,0=33 u g0 g1"),
        ("int", "j1=10,2=20,2=30,1=40 u"),
        ("int", "j0=1,1=2,2=3,2=4,1=5,0=6 u"),
        ("negzero", "i0=10 i1=11 u g0 g1 r0 u i1=12 u h0"),
        ("negzero", "j0=30,1=31,2=32 u j1=33,0=34 u"),
    ]
}

/// run one fixed history through the interpreter and the Value API, every observer after every step
fn run_corpus(f: &mut Findings, evals: &mut usize) -> usize {
    let env = Uiua::with_safe_sys();
    let mut n = 0;
    for (cname, hist) in corpus() {
        let ops = parse_hist(hist);
        let nk = ops.iter().map(max_key).max().unwrap_or(0).max(3) + 1;
        let cl = class(cname, nk);
        let mut m = empty_map();
        let mut a: AList = Vec::new();
        let mut h: Vec<Op> = Vec::new();
        n += 1;
        for op in &ops {
            h.push(op.clone());
            *evals += 2;
            let (m2, out) = apply_interp(&cl, &m, op);
            let (m3, out3) = apply_api(&env, &cl, &m, op);
            let (a2, want) = spec_step(&cl, &a, op);
            let mut bad = None;
            if out == Out::Err(RECURSE.into()) {
                bad = Some(format!("{} would never return: {RECURSE}; {}", show_op(op), confirm_crash(&cl, &h)));
            } else if !out_matches(&out, &want) {
                bad = Some(format!("{} outputs {} but the association list gives {}", show_op(op), show_out(&out), show_out(&want)));
            } else if !out_matches(&out3, &out) || m2.as_ref().map(state_sig) != m3.as_ref().map(state_sig) {
                bad = Some(format!("interpreter and Value API disagree on {}", show_op(op)));
            }
            let m2 = m2.unwrap_or_else(|| m.clone());
            if bad.is_none() && !matches!(out, Out::Err(_)) {
                bad = observe(&env, &cl, &m2, &a2, evals).err();
            }
            if let Some(detail) = bad {
                f.add(violation_key(&cl, &h, &a, &detail), &cl, &h, detail);
                break;
            }
            if matches!(out, Out::Err(_)) {
                break;
            }
            m = m2;
            a = a2;
        }
    }
    n
}

fn mutators(nkeys: usize, nvals: usize) -> Vec<Op> {
    let mut v = Vec::new();
    for k in 0..nkeys {
        for x in 0..nvals {
            v.push(Op::Ins(k, 10 + x));
        }
        v.push(Op::Rem(k));
    }
    v.push(Op::Rev);
    v.push(Op::Rot(1));
    for n in [0usize, 1, 2] {
        v.push(Op::Take(n));
    }
    for n in [1usize, 2] {
        v.push(Op::Drop(n));
    }
    v.push(Op::Join(vec![(0, 20), (1, 21)]));
    v.push(Op::Join(vec![(nkeys - 1, 22)]));
    // repeated keys in the joined map's key list, two of them possibly present already
    v.push(Op::Join(vec![(1, 23), (2, 24), (2, 25), (1, 26)]));
    v
}

fn empty_map() -> Value {
    run_uiua("map [] []").expect("map [] []").pop().unwrap()
}

// ------------------------------------------------------------------ Coq printers (tie)

fn key_code(v: &Value) -> Option<u64> {
    match v {
        Value::Num(a) if a.rank() == 0 => {
            let x = a.data()[0];
            if x.is_nan() {
                Some(NAN_CODE)
            } else if x == 0.0 && x.is_sign_negative() {
                Some(NEGZERO_CODE)
            } else if x >= 0.0 && x.fract() == 0.0 && x < 900.0 {
                Some(x as u64)
            } else {
                None
            }
        }
        Value::Byte(a) if a.rank() == 0 => Some(a.data()[0] as u64),
        Value::Char(a) if a.rank() == 0 => Some(a.data()[0] as u64),
        _ => None,
    }
}
fn cell_term(v: &Value) -> Option<String> {
    match v {
        Value::Num(a) if a.rank() == 0 && a.data()[0].to_bits() == EMPTY_BITS => Some("Empty".into()),
        Value::Num(a) if a.rank() == 0 && a.data()[0].to_bits() == TOMB_BITS => Some("Tomb".into()),
        Value::Char(a) if a.rank() == 0 && a.data()[0] == EMPTY_CHAR => Some("Empty".into()),
        Value::Char(a) if a.rank() == 0 && a.data()[0] == TOMB_CHAR => Some("Tomb".into()),
        v => key_code(v).map(|c| format!("Key {c}%N")),
    }
}
fn coq_list(xs: Vec<String>) -> String {
    format!("[{}]", xs.join("; "))
}
fn n_list(vs: &[Value]) -> Option<String> {
    let mut xs = Vec::new();
    for v in vs {
        xs.push(format!("{}%N", key_code(v)?));
    }
    Some(coq_list(xs))
}
fn op_term(cl: &Class, op: &Op) -> Option<String> {
    let k = |i: &usize| key_code(&cl.keys[*i]).map(|c| format!("{c}%N"));
    Some(match op {
        Op::Ins(a, v) => format!("OIns {} {v}%N", k(a)?),
        Op::Rem(a) => format!("ORem {}", k(a)?),
        Op::Get(a) => format!("OGet {}", k(a)?),
        Op::Has(a) => format!("OHas {}", k(a)?),
        Op::Len => "OLen".into(),
        Op::Unmap => "OUnmap".into(),
        Op::Rev => "ORev".into(),
        Op::Rot(b) => format!("ORot ({b})%Z"),
        Op::Take(n) => format!("OTake {n}"),
        Op::Drop(n) => format!("ODrop {n}"),
        Op::Join(l) => {
            let mut xs = Vec::new();
            for (a, v) in l {
                xs.push(format!("({}, {v}%N)", k(a)?));
            }
            format!("OJoin {}", coq_list(xs))
        }
    })
}
fn out_term(o: &Out) -> Option<String> {
    Some(match o {
        Out::None => "RNone".into(),
        Out::Err(_) => "RErr".into(),
        Out::Val(v) => format!("RVal {}%N", key_code(v)?),
        Out::Missing => "RMissing".into(),
        Out::Bool(b) => format!("RBool {b}"),
        Out::Nat(n) => format!("RNat {n}"),
        Out::KV(k, v) => format!("RKV {} {}", n_list(k)?, n_list(v)?),
    })
}
/// (cells, idx, len, rows) of a map value as Coq terms
fn dump_terms(m: &Value) -> Option<(String, String, usize, String, usize)> {
    let (cells, idx, len, fix) = uiua::verif::map_dump(m)?;
    if fix != 0 {
        return None;
    }
    let mut cs = Vec::new();
    if cells.rank() > 0 {
        for c in cells.rows() {
            cs.push(cell_term(&c)?);
        }
    }
    // `map [] []` keeps the (empty) key array it was given while it has no index table
    if idx.is_empty() {
        cs.clear();
    }
    let rows: Vec<Value> = m.rows().collect();
    Some((coq_list(cs), coq_nat_list(&idx), len, n_list(&rows)?, idx.len()))
}

fn low63(v: &Value) -> u64 {
    uiua::verif::map_hash_start(v, 1usize << 63) as u64
}

fn gen_op(r: &mut Rng, nkeys: usize, rows: usize, all: bool) -> Op {
    let k = r.below(nkeys);
    match r.below(if all { 20 } else { 12 }) {
        0..=4 => Op::Ins(k, 10 + r.below(8)),
        5..=7 => Op::Rem(k),
        8 => Op::Get(k),
        9 => Op::Has(k),
        10 => Op::Len,
        11 => Op::Unmap,
        12 => Op::Rev,
        13 => Op::Rot(r.range(-3, 3)),
        14 => Op::Take(if rows > 0 && r.chance(3, 4) { 1 + r.below(rows) } else { r.below(rows + 2) }),
        15 => Op::Drop(if rows > 1 { r.below(rows) } else { 0 }),
        16 => Op::Drop(r.below(rows + 2)),
        17 => {
            // join with a map built from a key list that may repeat keys and share keys with the map
            let n = 1 + r.below(5);
            let small = r.chance(1, 2);
            let l: Vec<(usize, usize)> = (0..n).map(|_| (if small { r.below(nkeys.min(4)) } else { r.below(nkeys) }, 20 + r.below(8))).collect();
            Op::Join(l)
        }
        _ => Op::Ins(k, 10 + r.below(8)),
    }
}

fn main() {
    let args: Vec<String> = std::env::args().collect();
    let mode = args.get(1).cloned().unwrap_or_default();
    let a2: usize = args.get(2).and_then(|s| s.parse().ok()).unwrap_or(5);
    let a3: usize = args.get(3).and_then(|s| s.parse().ok()).unwrap_or(20);
    let mut rng = Rng::new(seed_from_env());
    match mode.as_str() {
        "tie" => tie(&mut rng, a2, a3),
        "exh" => {
            let env = Uiua::with_safe_sys();
            let classes = ["int", "char", "nan", "negzero", "str", "box"];
            // the regression corpus runs first
            let mut f = Findings::default();
            let mut evals = 0usize;
            let nc = run_corpus(&mut f, &mut evals);
            println!("{{\"phase\":\"corpus\",\"histories\":{nc},\"evaluations\":{evals}}}");
            f.print(4);
            // construction of maps from key lists with repetitions
            let mut f = Findings::default();
            let mut evals = 0usize;
            for cname in classes {
                let cl = class(cname, 4);
                let mut lists: Vec<Vec<(usize, usize)>> = vec![vec![]];
                for len in 1..=4usize {
                    let mut idx = vec![0usize; len];
                    'outer: loop {
                        lists.push(idx.iter().enumerate().map(|(i, k)| (*k, 30 + i)).collect());
                        let mut p = 0;
                        loop {
                            idx[p] += 1;
                            if idx[p] < 4 {
                                break;
                            }
                            idx[p] = 0;
                            p += 1;
                            if p == len {
                                break 'outer;
                            }
                        }
                    }
                }
                for l in lists {
                    evals += 1;
                    let h = vec![Op::Join(l.clone())];
                    let (a, _) = spec_step(&cl, &Vec::new(), &h[0]);
                    let res = catch(|| build_map(&env, &cl, &l)).unwrap_or_else(|p| Err(format!("PANIC: {p}")));
                    let bad = match res {
                        Ok(m) => observe(&env, &cl, &m, &a, &mut evals).err(),
                        Err(e) => Some(format!("map fails: {e}")),
                    };
                    if let Some(detail) = bad {
                        let key = if cl.nan.is_some_and(|n| l.iter().any(|p| p.0 == n) || detail.starts_with(&format!("g{n} ")) || detail.starts_with(&format!("h{n} "))) {
                            "map-key-nan".to_string()
                        } else {
                            let mut d: Vec<usize> = l.iter().map(|p| p.0).collect();
                            d.sort();
                            d.dedup();
                            if d.len() < l.len() { "map-dup-keys".to_string() } else { format!("general:{}:map {}", cl.name, show_hist(&h)) }
                        };
                        f.add(key, &cl, &h, detail);
                    }
                }
            }
            println!("{{\"phase\":\"map-construction\",\"evaluations\":{evals}}}");
            f.print(4);
            for cname in classes {
                let cl = class(cname, 4);
                let mut e = Exh { env: Uiua::with_safe_sys(), cl: &cl, muts: mutators(4, 2), evals: 0, nodes: 0, histories: 0, pruned: 0, max_cap: 0, f: Findings::default(), memo: if args.get(3).map(|s| s == "memo").unwrap_or(false) { Some(Default::default()) } else { None }, memo_hits: 0 };
                let depth = if cname == "int" { a2 } else { a2.saturating_sub(1).max(1) };
                let m0 = empty_map();
                if let Err(err) = observe(&e.env, &cl, &m0, &Vec::new(), &mut e.evals) {
                    e.f.add(violation_key(&cl, &[], &Vec::new(), &err), &cl, &[], err);
                }
                e.dfs(&m0, &Vec::new(), &mut Vec::new(), depth);
                println!(
                    "{{\"phase\":\"exhaustive\",\"class\":{},\"depth\":{depth},\"mutators\":{},\"nodes\":{},\"histories\":{},\"pruned_at_violation\":{},\"evaluations\":{},\"max_capacity\":{},\"memoised\":{},\"distinct_states\":{},\"memo_hits\":{}}}",
                    jstr(cname),
                    e.muts.len(),
                    e.nodes,
                    e.histories,
                    e.pruned,
                    e.evals,
                    e.max_cap,
                    e.memo.is_some(),
                    e.memo.as_ref().map(|m| m.len()).unwrap_or(0),
                    e.memo_hits
                );
                e.f.print(4);
            }
        }
        "rand" => {
            let env = Uiua::with_safe_sys();
            let mut f = Findings::default();
            let mut evals = 0usize;
            let mut steps = 0usize;
            let mut max_cap = 0usize;
            let mut caps: BTreeMap<usize, usize> = BTreeMap::new();
            let mut interp_checked = 0usize;
            for hi in 0..a2 {
                let cname = ["int", "char", "negzero", "str", "box", "nan"][hi % 6];
                let nkeys = [6usize, 24, 60][(hi / 6) % 3];
                let cl = class(cname, nkeys);
                let mut m = empty_map();
                let mut a: AList = Vec::new();
                let mut h: Vec<Op> = Vec::new();
                let use_interp = hi % 10 == 0;
                for _ in 0..a3 {
                    let op = gen_op(&mut rng, nkeys, a.len(), true);
                    h.push(op.clone());
                    steps += 1;
                    evals += 1;
                    let (m2, out) = apply_api(&env, &cl, &m, &op);
                    let (a2_, want) = spec_step(&cl, &a, &op);
                    let mut bad = None;
                    if out == Out::Err(RECURSE.into()) {
                        bad = Some(format!("{} would never return: {RECURSE}; {}", show_op(&op), confirm_crash(&cl, &h)));
                    } else if !out_matches(&out, &want) {
                        bad = Some(format!("{} outputs {} but the association list gives {}", show_op(&op), show_out(&out), show_out(&want)));
                    }
                    if use_interp && bad.is_none() {
                        let (m3, out3) = apply_interp(&cl, &m, &op);
                        interp_checked += 1;
                        let same_state = m2.as_ref().map(state_sig) == m3.as_ref().map(state_sig);
                        if !out_matches(&out3, &out) || !same_state {
                            bad = Some(format!("interpreter and Value API disagree on {}: {} vs {}", show_op(&op), show_out(&out3), show_out(&out)));
                        }
                    }
                    if matches!(out, Out::Err(_)) && bad.is_none() {
                        break;
                    }
                    let m2 = m2.unwrap_or_else(|| m.clone());
                    if bad.is_none() && is_mutator(&op) {
                        bad = observe(&env, &cl, &m2, &a2_, &mut evals).err();
                    }
                    if let Some((_, idx, _, _)) = uiua::verif::map_dump(&m2) {
                        max_cap = max_cap.max(idx.len());
                        *caps.entry(idx.len()).or_default() += 1;
                    }
                    if let Some(detail) = bad {
                        f.add(violation_key(&cl, &h, &a, &detail), &cl, &h, detail);
                        break;
                    }
                    m = m2;
                    a = a2_;
                }
            }
            println!(
                "{{\"phase\":\"random\",\"histories\":{},\"steps\":{steps},\"evaluations\":{evals},\"max_capacity\":{max_cap},\"interp_steps\":{interp_checked},\"capacity_hist\":{}}}",
                a2,
                serde_json::to_string(&caps.iter().map(|(k, v)| (k.to_string(), *v)).collect::<BTreeMap<_, _>>()).unwrap()
            );
            f.print(60);
        }
        "one" => {
            let cname = args.get(2).cloned().unwrap_or("int".into());
            let h = parse_hist(&args.get(3).cloned().unwrap_or_default());
            let n = h.iter().map(max_key).max().unwrap_or(0).max(3) + 1;
            let cl = class(&cname, n);
            let env = Uiua::with_safe_sys();
            let mut m = empty_map();
            let mut a: AList = Vec::new();
            println!("program: {}", uiua_of(&cl, &h));
            for op in &h {
                let (m2, out) = apply_interp(&cl, &m, op);
                let (a2_, want) = spec_step(&cl, &a, op);
                let m2 = m2.unwrap_or_else(|| m.clone());
                let mut ev = 0;
                println!(
                    "{:12} out {} (spec {}) | dump {:?} | observers: {:?}",
                    show_op(op),
                    show_out(&out),
                    show_out(&want),
                    dump_terms(&m2).map(|d| (d.0, d.1, d.2, d.3)),
                    observe(&env, &cl, &m2, &a2_, &mut ev)
                );
                m = m2;
                a = a2_;
            }
        }
        _ => eprintln!("usage: c16 tie N LEN | exh DEPTH | rand N LEN | one CLASS HISTORY"),
    }
}

fn tie(rng: &mut Rng, n: usize, maxlen: usize) {
    let env = Uiua::with_safe_sys();
    // the regression corpus first (the classes the model instance can render), then random histories
    let fixed: Vec<(&'static str, Vec<Op>)> = corpus().into_iter().filter(|c| matches!(c.0, "int" | "char" | "nan" | "negzero")).map(|(c, h)| (c, parse_hist(h))).collect();
    for hi in 0..n.max(fixed.len()) {
        let (cname, nkeys, len) = if hi < fixed.len() {
            let nk = fixed[hi].1.iter().map(max_key).max().unwrap_or(0).max(3) + 1;
            (fixed[hi].0, nk, fixed[hi].1.len())
        } else {
            (["int", "char", "nan", "negzero"][hi % 4], [4usize, 12, 40][(hi / 4) % 3], 1 + rng.below(maxlen))
        };
        let cl = class(cname, nkeys);
        let mut m = empty_map();
        let mut obs: Vec<String> = Vec::new();
        let mut h: Vec<Op> = Vec::new();
        let mut max_cap = 0usize;
        let mut problem: Option<String> = None;
        let mut errors = 0usize;
        let mut corrupt = 0usize;
        let mut step = 0usize;
        let mut rows = 0usize;
        for _ in 0..len {
            let op = if hi < fixed.len() {
                if step >= fixed[hi].1.len() {
                    break;
                }
                fixed[hi].1[step].clone()
            } else {
                gen_op(rng, nkeys, rows, true)
            };
            step += 1;
            h.push(op.clone());
            if std::env::var("VERIF_TRACE").is_ok() {
                eprintln!("{hi} {cname} {}", show_hist(&h));
            }
            let (m2, out) = apply_interp(&cl, &m, &op);
            // the interpreter and the Value API must agree (harness self-check)
            let (m2b, outb) = apply_api(&env, &cl, &m, &op);
            if !out_matches(&out, &outb) || m2.as_ref().map(state_sig) != m2b.as_ref().map(state_sig) {
                problem = Some(format!("interpreter and Value API disagree on {}", show_op(&op)));
            }
            if out == Out::Err(RECURSE.into()) {
                h.pop();
                break;
            }
            let failed = matches!(out, Out::Err(_));
            let m2 = m2.unwrap_or_else(|| m.clone());
            let (Some(ot), Some(rt), Some(d)) = (op_term(&cl, &op), out_term(&out), dump_terms(&m2)) else {
                problem = Some(format!("cannot render step {} -> {}", show_op(&op), show_out(&out)));
                break;
            };
            max_cap = max_cap.max(d.4);
            obs.push(format!("Obs ({ot}) ({rt}) {} {} {} {}", d.0, d.1, d.2, d.3));
            rows = m2.row_count();
            m = m2;
            if failed {
                errors += 1;
                break;
            }
            // a step that corrupts the map (one of the known defects) is still compared with the
            // model, but the history ends there: what the code does with a corrupt map (overflow
            // panics in the verif profile, ...) is outside the model
            if uiua::verif::check_value(&m).is_err() {
                corrupt = 1;
                break;
            }
        }
        // hashes: low 63 bits of the real hash of every key of the universe and of the placeholders
        let (he, ht) = if cname == "char" {
            (low63(&chars(&[], &[EMPTY_CHAR])), low63(&chars(&[], &[TOMB_CHAR])))
        } else {
            (low63(&scalar(f64::from_bits(EMPTY_BITS))), low63(&scalar(f64::from_bits(TOMB_BITS))))
        };
        let mut tbl = Vec::new();
        for k in &cl.keys {
            let h63 = low63(k);
            tbl.push(format!("({}, {h63})", key_code(k).unwrap()));
            let mut c = 1usize;
            while c <= max_cap.max(1) {
                if uiua::verif::map_hash_start(k, c) as u64 != h63 % c as u64 {
                    problem = Some(format!("hash start of {} at capacity {c} is not (low 63 bits) mod capacity", k.show()));
                }
                c *= 2;
            }
        }
        if max_cap != 0 && !max_cap.is_power_of_two() {
            problem = Some(format!("capacity {max_cap} is not a power of two"));
        }
        println!(
            "{{\"id\":{hi},\"corpus\":{},\"class\":{},\"nkeys\":{nkeys},\"nan\":{},\"tbl\":{},\"he\":\"{he}\",\"ht\":\"{ht}\",\"obs\":{},\"steps\":{},\"errors\":{errors},\"corrupt\":{corrupt},\"max_capacity\":{max_cap},\"history\":{},\"problem\":{}}}",
            hi < fixed.len(),
            jstr(cname),
            if cl.nan.is_some() { NAN_CODE.to_string() } else { "null".into() },
            jstr(&format!("[{}]%N", tbl.join("; "))),
            jstr(&coq_list(obs.clone())),
            obs.len(),
            jstr(&show_hist(&h)),
            problem.map(|p| jstr(&p)).unwrap_or("null".into())
        );
    }
}
