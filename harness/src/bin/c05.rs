//! C05: every array the interpreter produces is internally well-formed.
//!   c05 search FROM TO     -> monitor: generated programs, `check_value` on every observable value,
//!                             consumer experiment; JSON lines (violations + one summary)
//!   c05 one I              -> re-run case I verbosely
//!   c05 xcheck N           -> values with arbitrary (also wrong) marks + the validator's verdict
//!   c05 tie N              -> modelled primitives on generated arguments in storage variants:
//!                             arguments and results with their marks as Gallina terms
//!   c05 corpus             -> monitor over chunks of /repo/tests/*.ua
use std::collections::BTreeMap;
use std::time::Duration;

use uiua::{Complex, PrimClass, Primitive, Uiua, Value};
use uvh::*;

// ------------------------------------------------------------------ running

struct RunOut {
    stack: Result<Vec<Value>, String>,
    bound: Vec<(String, Value)>,
}

fn run_prog(src: &str, args: &[Value]) -> RunOut {
    let mut env = Uiua::with_safe_sys().with_execution_limit(Duration::from_millis(400));
    for a in args {
        env.push(a.clone());
    }
    let res = catch(|| env.run_str(src).map(|_| ()).map_err(|e| e.to_string()));
    let stack = match res {
        Ok(Ok(())) => Ok(env.take_stack()),
        Ok(Err(e)) => Err(e),
        Err(p) => Err(format!("PANIC: {p}")),
    };
    let mut bound: Vec<(String, Value)> = match catch(|| env.bound_values()) {
        Ok(b) => b.into_iter().map(|(k, v)| (k.to_string(), v)).collect(),
        Err(_) => vec![],
    };
    bound.sort_by(|a, b| a.0.cmp(&b.0));
    RunOut { stack, bound }
}

/// first failure of the deep validator over all observable values of a finished run
static ZW_SKIPS: std::sync::atomic::AtomicUsize = std::sync::atomic::AtomicUsize::new(0);

/// some map inside the value has keys that are rows WITHOUT elements
fn zero_width_keys_deep(v: &Value) -> bool {
    if let Some((kv, _, _, _)) = uiua::verif::map_dump(v) {
        if kv.rank() >= 1 && kv.shape.iter().skip(1).any(|&d| d == 0) {
            return true;
        }
        if zero_width_keys_deep(&kv) {
            return true;
        }
    }
    match v {
        Value::Box(a) => a.elements().any(|b| zero_width_keys_deep(&b.0)),
        _ => false,
    }
}

/// The validator's limit: when the keys of a map are rows without elements, an empty cell of
/// the key table cannot be told from the key (both have no elements), so `check_value` counts
/// every cell as a key and reports "two map keys point at row 0" / a duplicate key.  get / has /
/// insert / remove behave correctly on such maps (checked by hand and in the regression
/// corpus), so exactly this verdict on exactly such maps is skipped and counted.
fn validator_limit(v: &Value, e: &str) -> bool {
    (e.contains("two map keys point at row") || e.contains("duplicate map key") || e.contains("present keys")) && zero_width_keys_deep(v)
}

fn check_all(out: &RunOut) -> Option<(String, Value)> {
    if let Ok(st) = &out.stack {
        for (i, v) in st.iter().enumerate() {
            if let Err(e) = uiua::verif::check_value(v) {
                if validator_limit(v, &e) {
                    ZW_SKIPS.fetch_add(1, std::sync::atomic::Ordering::SeqCst);
                    continue;
                }
                return Some((format!("stack[{i}] {e}"), v.clone()));
            }
        }
    }
    for (k, v) in &out.bound {
        if let Err(e) = uiua::verif::check_value(v) {
            if validator_limit(v, &e) {
                ZW_SKIPS.fetch_add(1, std::sync::atomic::Ordering::SeqCst);
                continue;
            }
            return Some((format!("binding {k} {e}"), v.clone()));
        }
    }
    None
}

fn kind_of(msg: &str) -> String {
    let ty = ["number", "complex", "character", "box"].iter().find(|t| msg.contains(&format!("{t} array"))).copied().unwrap_or("");
    let inner = if msg.contains("].") || msg.contains("]:") || msg.contains(".keys") { "inner:" } else { "" };
    if msg.contains("marked sorted-up") {
        format!("flag:{inner}sorted-up/{ty}")
    } else if msg.contains("marked sorted-down") {
        format!("flag:{inner}sorted-down/{ty}")
    } else if msg.contains("marked boolean") {
        format!("flag:{inner}boolean/byte")
    } else if msg.contains("demands") {
        format!("shape-data:{inner}")
    } else if msg.contains("map") {
        let m = if msg.contains("duplicate map key") {
            "duplicate-key"
        } else if msg.contains("two map keys") {
            "shared-row"
        } else if msg.contains("points at row") {
            "dangling-row"
        } else if msg.contains("present keys") {
            "len-vs-present"
        } else if msg.contains("rows") {
            "len-vs-rows"
        } else {
            "table"
        };
        format!("map:{m}")
    } else {
        "other".into()
    }
}

fn has_nan(v: &Value) -> bool {
    match v {
        Value::Num(a) => a.elements().any(|x| x.is_nan()),
        Value::Complex(a) => a.elements().any(|c| c.re.is_nan() || c.im.is_nan()),
        Value::Box(a) => a.elements().any(|b| has_nan(&b.0)),
        _ => false,
    }
}

// ------------------------------------------------------------------ primitives

#[derive(Clone)]
struct PI {
    p: Primitive,
    text: String,
    name: String,
    args: usize,
    outs: usize,
    margs: Option<usize>,
}

fn prim_table() -> Vec<PI> {
    let mut v = Vec::new();
    for p in Primitive::all() {
        match p.class() {
            PrimClass::Sys(_) | PrimClass::Thread | PrimClass::Time | PrimClass::Environment | PrimClass::Debug => continue,
            _ => {}
        }
        let name = p.name().to_string();
        if matches!(name.as_str(), "rand" | "recur" | "args" | "dump" | "stack" | "trace") || p.is_constant() {
            continue;
        }
        let text = match p.glyph() {
            Some(c) => c.to_string(),
            None => name.clone(),
        };
        let (args, outs) = match (p.args(), p.outputs()) {
            (Some(a), Some(o)) => (a, o),
            _ => (1, 1),
        };
        v.push(PI { p, text, name, args, outs, margs: p.modifier_args() });
    }
    v
}

// ------------------------------------------------------------------ value generation

fn gen_special(r: &mut Rng) -> f64 {
    *r.pick(&[
        0.0,
        -0.0,
        1.0,
        -1.0,
        2.0,
        0.5,
        -2.5,
        255.0,
        256.0,
        1e300,
        -1e300,
        1e16,
        f64::INFINITY,
        f64::NEG_INFINITY,
        f64::NAN,
        f64::EPSILON,
        4503599627370497.0,
    ])
}

fn gen_num(r: &mut Rng, flavour: usize) -> f64 {
    match flavour {
        0 => r.range(0, 3) as f64,
        1 => r.range(-4, 9) as f64,
        2 => {
            if r.chance(1, 3) {
                gen_special(r)
            } else {
                r.range(-3, 6) as f64 + *r.pick(&[0.0, 0.25, 0.5, 0.75])
            }
        }
        _ => {
            if r.chance(1, 2) {
                gen_special(r)
            } else {
                r.range(-5, 300) as f64
            }
        }
    }
}

/// kind: 0 num, 1 byte, 2 char, 3 complex, 4 box
fn gen_typed(r: &mut Rng, kind: usize, shape: &[usize], depth: usize) -> Value {
    let n = shape_len(shape);
    let cfg = GenCfg::default();
    match kind {
        0 => {
            let fl = r.below(4);
            let d: Vec<f64> = (0..n).map(|_| gen_num(r, fl)).collect();
            num(shape, &d)
        }
        1 => {
            let small = r.chance(1, 2);
            let d: Vec<u8> = (0..n).map(|_| if small { r.below(2) as u8 } else if r.chance(3, 4) { r.below(5) as u8 } else { r.below(256) as u8 }).collect();
            byte(shape, &d)
        }
        2 => {
            let d: Vec<char> = (0..n).map(|_| gen_char(r, &cfg)).collect();
            chars(shape, &d)
        }
        3 => {
            let fl = r.below(4);
            let d: Vec<Complex> = (0..n).map(|_| Complex::new(gen_num(r, fl), gen_num(r, fl))).collect();
            cplx(shape, &d)
        }
        _ => {
            let d: Vec<Value> = (0..n)
                .map(|_| {
                    let k = if depth >= 1 { r.below(4) } else { *r.pick(&[0, 0, 1, 2, 3, 4]) };
                    let sh = small_shape(r, 2, 3);
                    gen_typed(r, k, &sh, depth + 1)
                })
                .collect();
            boxes(shape, d)
        }
    }
}

/// a byte array of zeros and ones sometimes arrives with the (truthful) boolean mark
fn maybe_bool(r: &mut Rng, v: &mut Value) {
    if let Value::Byte(a) = &*v {
        if a.elements().all(|&b| b <= 1) && r.chance(1, 2) {
            uiua::verif::set_boolean(v, true);
        }
    }
}

fn small_shape(r: &mut Rng, max_rank: usize, max_dim: usize) -> Vec<usize> {
    let rank = r.below(max_rank + 1);
    (0..rank).map(|_| if r.chance(1, 9) { 0 } else { 1 + r.below(max_dim) }).collect()
}

fn gen_args(r: &mut Rng, n: usize) -> Vec<Value> {
    let base = small_shape(r, 3, 4);
    let main_kind = *r.pick(&[0usize, 0, 0, 1, 1, 2, 3, 4]);
    let mixed = r.chance(1, 3);
    let mut out = Vec::new();
    for _ in 0..n {
        let shape: Vec<usize> = match r.below(10) {
            0..=3 => base.clone(),
            4..=5 => vec![],
            6 => base.iter().skip(1).copied().collect(),
            7 => {
                let mut s = base.clone();
                if !s.is_empty() {
                    s[0] = r.below(5);
                }
                s
            }
            _ => small_shape(r, 3, 4),
        };
        let kind = if mixed { r.below(5) } else if r.chance(1, 4) { *r.pick(&[0usize, 1]) } else { main_kind };
        let mut v = gen_typed(r, kind, &shape, 0);
        maybe_bool(r, &mut v);
        // some arguments arrive sorted and marked, some as maps
        match r.below(12) {
            0 | 1 => {
                if let Ok(st) = run_uiua_with("⍆", &[v.clone()]) {
                    v = st.into_iter().next().unwrap_or(v);
                }
            }
            2 => {
                if let Ok(st) = run_uiua_with("⇌⍆", &[v.clone()]) {
                    v = st.into_iter().next().unwrap_or(v);
                }
            }
            3 => {
                if v.rank() >= 1 {
                    let kk = *r.pick(&[0usize, 1, 2, 4]);
                    let k = gen_typed(r, kk, &[v.row_count()], 0);
                    if let Ok(st) = run_uiua_with("map", &[v.clone(), k]) {
                        v = st.into_iter().next().unwrap_or(v);
                    }
                }
            }
            _ => {}
        }
        out.push(v);
    }
    out
}

// ------------------------------------------------------------------ literals

fn lit_num(x: f64) -> String {
    if x.is_nan() {
        "NaN".into()
    } else if x == f64::INFINITY {
        "∞".into()
    } else if x == f64::NEG_INFINITY {
        "¯∞".into()
    } else if x.fract() == 0.0 && x.abs() < 1e15 {
        if x.is_sign_negative() { format!("¯{}", -x as i64) } else { format!("{}", x as i64) }
    } else {
        format!("{:e}", x).replace('-', "¯")
    }
}

fn lit_str(cs: &[char]) -> Option<String> {
    let mut s = String::from("\"");
    for &c in cs {
        match c {
            '"' => s.push_str("\\\""),
            '\\' => s.push_str("\\\\"),
            '\n' => s.push_str("\\n"),
            '\0' => s.push_str("\\0"),
            '\r' | '\t' => return None,
            c if (c as u32) < 32 => return None,
            c => s.push(c),
        }
    }
    s.push('"');
    Some(s)
}

/// a uiua expression that evaluates to the value (marks excepted), when one is easy to write
fn literal(v: &Value) -> Option<String> {
    if let Some((_, _, _, fix_depth)) = uiua::verif::map_dump(v) {
        if fix_depth > 0 {
            return None;
        }
        // keys on top, values beneath
        let st = run_uiua_with("°map", &[v.clone()]).ok()?;
        if st.len() != 2 || uiua::verif::map_dump(&st[0]).is_some() || uiua::verif::map_dump(&st[1]).is_some() {
            return None;
        }
        return Some(format!("(map {} {})", literal(&st[1])?, literal(&st[0])?));
    }
    let shape: Vec<usize> = v.shape.iter().copied().collect();
    let wrap = |flat: String| -> String {
        if shape.len() == 1 {
            flat
        } else {
            format!("(↯[{}]{})", shape.iter().map(|d| d.to_string()).collect::<Vec<_>>().join(" "), flat)
        }
    };
    match v {
        Value::Num(a) => {
            let d: Vec<String> = a.elements().map(|x| lit_num(*x)).collect();
            Some(if shape.is_empty() { d[0].clone() } else { wrap(format!("[{}]", d.join(" "))) })
        }
        Value::Byte(a) => {
            let d: Vec<String> = a.elements().map(|x| x.to_string()).collect();
            Some(if shape.is_empty() { d[0].clone() } else { wrap(format!("[{}]", d.join(" "))) })
        }
        Value::Char(a) => {
            let cs: Vec<char> = a.elements().copied().collect();
            let s = lit_str(&cs)?;
            Some(if shape.is_empty() { format!("(⊢{s})") } else { wrap(s) })
        }
        Value::Complex(a) => {
            let re: Vec<String> = a.elements().map(|c| lit_num(c.re)).collect();
            let im: Vec<String> = a.elements().map(|c| lit_num(c.im)).collect();
            Some(if shape.is_empty() {
                format!("(ℂ{} {})", im[0], re[0])
            } else {
                wrap(format!("(ℂ[{}] [{}])", im.join(" "), re.join(" ")))
            })
        }
        Value::Box(a) => {
            let mut items = Vec::new();
            for b in a.elements() {
                items.push(format!("□{}", literal(&b.0)?));
            }
            if shape.is_empty() {
                Some(format!("({})", items[0]))
            } else if items.is_empty() {
                None
            } else {
                Some(wrap(format!("[{}]", items.join(" "))))
            }
        }
    }
}

// ------------------------------------------------------------------ program generation

struct Gen<'a> {
    prims: &'a [PI],
    funcs: Vec<usize>,
    mods: Vec<usize>,
}

const SCALARS: [&str; 16] = ["0", "1", "2", "¯1", "¯2", "0.5", "∞", "¯∞", "NaN", "¯0", "1e300", "3", "@a", "@ ", "□1", "i"];

impl<'a> Gen<'a> {
    fn new(prims: &'a [PI]) -> Self {
        let funcs = (0..prims.len()).filter(|&i| prims[i].margs.is_none()).collect();
        let mods = (0..prims.len()).filter(|&i| prims[i].margs.is_some()).collect();
        Gen { prims, funcs, mods }
    }
    fn func(&self, r: &mut Rng) -> &PI {
        &self.prims[self.funcs[r.below(self.funcs.len())]]
    }
    fn small_lit(&self, r: &mut Rng) -> String {
        match r.below(10) {
            0..=5 => r.pick(&SCALARS).to_string(),
            6 => "[1 2 3]".into(),
            7 => "[0 1]".into(),
            8 => "\"ab\"".into(),
            _ => format!("{}", r.range(-3, 5)).replace('-', "¯"),
        }
    }
    /// a function term and the names of the primitives in it
    fn term(&self, r: &mut Rng, depth: usize, names: &mut Vec<String>) -> String {
        let k = r.below(100);
        if depth == 0 || k < 40 {
            let f = self.func(r);
            names.push(f.name.clone());
            if f.args >= 2 && r.chance(1, 3) {
                return format!("({} {})", f.text, self.small_lit(r));
            }
            return f.text.clone();
        }
        if k < 70 {
            let m = &self.prims[self.mods[r.below(self.mods.len())]];
            names.push(m.name.clone());
            let mut s = m.text.clone();
            for _ in 0..m.margs.unwrap_or(1) {
                let t = self.term(r, depth - 1, names);
                s.push_str(&paren(&t));
            }
            return s;
        }
        if k < 78 {
            names.push("un".into());
            let t = self.term(r, depth - 1, names);
            return format!("°{}", paren(&t));
        }
        if k < 88 {
            names.push("under".into());
            let a = self.term(r, depth - 1, names);
            let b = self.term(r, depth - 1, names);
            return format!("⍜{}{}", paren(&a), paren(&b));
        }
        if k < 95 {
            names.push("fill".into());
            let t = self.term(r, depth - 1, names);
            return format!("⬚{}{}", paren(&self.small_lit(r)), paren(&t));
        }
        let a = self.term(r, depth - 1, names);
        let b = self.term(r, depth - 1, names);
        format!("({a} {b})")
    }
}

fn paren(t: &str) -> String {
    if t.chars().count() == 1 || (t.starts_with('(') && t.ends_with(')') && balanced(&t[1..t.len() - 1])) {
        t.to_string()
    } else {
        format!("({t})")
    }
}

fn balanced(s: &str) -> bool {
    let mut d = 0i32;
    for c in s.chars() {
        if c == '(' {
            d += 1;
        } else if c == ')' {
            d -= 1;
            if d < 0 {
                return false;
            }
        }
    }
    d == 0
}

/// one generated case: top-level terms in text order (executed right to left) with their primitive names
struct Case {
    terms: Vec<(String, Vec<String>)>,
    args: Vec<Value>,
    header: String,
    bind: bool,
}

const PREP: [&str; 10] = ["⍆", "⇌⍆", "⊙⍆", "∩⍆", "⍆◴", "⊙(⇌⍆)", "⍏", "°⊚⍆", "⊛", "⍆♭"];

fn gen_case(g: &Gen, i: u64, seed: u64) -> Case {
    let mut r = Rng::new(seed.wrapping_mul(1_000_003).wrapping_add(i));
    let nt = 1 + r.below(3);
    let mut terms = Vec::new();
    for _ in 0..nt {
        let mut names = Vec::new();
        let depth = r.below(3);
        let t = g.term(&mut r, depth, &mut names);
        terms.push((t, names));
    }
    if r.chance(2, 5) {
        let p = r.pick(&PREP).to_string();
        terms.push((p.clone(), vec!["prep".into()]));
    }
    let args = gen_args(&mut r, 4);
    let bind = r.chance(1, 6);
    Case { terms, args, header: "# Experimental!\n".into(), bind }
}

fn source(c: &Case, from: usize) -> String {
    let body = c.terms[from..].iter().map(|t| t.0.as_str()).collect::<Vec<_>>().join(" ");
    if c.bind {
        // bound constant: the arguments are written as literals so that the binding is a constant
        let lits: Option<Vec<String>> = c.args.iter().rev().map(literal).collect();
        if let Some(l) = lits {
            return format!("{}X ← {{{} {}}}\n", c.header, body, l.join(" "));
        }
    }
    format!("{}{}\n", c.header, body)
}

fn standalone(c: &Case, from: usize) -> Option<String> {
    let body = c.terms[from..].iter().map(|t| t.0.as_str()).collect::<Vec<_>>().join(" ");
    let lits: Option<Vec<String>> = c.args.iter().rev().map(literal).collect();
    lits.map(|l| format!("{} {}", body, l.join(" ")))
}

fn run_case(c: &Case, from: usize) -> RunOut {
    let src = source(c, from);
    if c.bind && src.contains("X ←") {
        run_prog(&src, &[])
    } else {
        run_prog(&src, &c.args)
    }
}

const CONSUMERS: [&str; 14] = ["/↧", "/↥", "⍆", "⇌⍆", "⍏", "⍖", "⊛", "◴", "◰", "⊢⍆", "⊣⍆", "∊:⇌.", "⊗:⇌.", "⊏⊸⍏"];

fn show_short(v: &Value) -> String {
    let s = format!("{:?}", v);
    let s: String = s.chars().take(160).collect();
    format!("{} {s} shape {:?} marks {:?}", v.type_name(), v.shape, uiua::verif::flags(v))
}

/// consumers applied to a marked value and to a copy without marks
fn consumer_diff(v: &Value) -> Option<(String, String)> {
    let (_, up, down) = uiua::verif::flags(v);
    let b = uiua::verif::flags(v).0;
    if !(up || down || b) {
        return None;
    }
    let mut plain = v.clone();
    uiua::verif::clear_flags(&mut plain);
    for c in CONSUMERS {
        let a = run_prog(c, std::slice::from_ref(v)).stack;
        let p = run_prog(c, std::slice::from_ref(&plain)).stack;
        // a run cut short by the execution limit says nothing about the marks (the marked
        // value may simply take the fast path within the limit)
        let timed_out = |r: &Result<Vec<Value>, String>| matches!(r, Err(e) if e.contains("Maximum execution time"));
        if timed_out(&a) || timed_out(&p) {
            continue;
        }
        let same = match (&a, &p) {
            (Ok(x), Ok(y)) => x == y,
            (Err(_), Err(_)) => true,
            _ => false,
        };
        if !same {
            let f = |r: &Result<Vec<Value>, String>| match r {
                Ok(st) => st.iter().map(show_short).collect::<Vec<_>>().join(" | "),
                Err(e) => format!("error: {}", e.lines().next().unwrap_or("")),
            };
            return Some((c.to_string(), format!("marked: {}  vs unmarked: {}", f(&a), f(&p))));
        }
    }
    None
}

#[derive(Default)]
struct Stats {
    cases: usize,
    ok: usize,
    err: usize,
    panics: usize,
    values: usize,
    marked: usize,
    maps: usize,
    boxes: usize,
    consumer_runs: usize,
    prim_ok: BTreeMap<String, usize>,
    err_kinds: BTreeMap<String, usize>,
}

fn err_kind(e: &str) -> String {
    let l = e.lines().next().unwrap_or("");
    let l = l.trim_start_matches("Error: ");
    let w: Vec<&str> = l.split_whitespace().take(3).collect();
    w.join(" ").chars().filter(|c| !c.is_ascii_digit()).collect()
}

fn monitor_case(g: &Gen, c: &Case, idx: u64, st: &mut Stats, verbose: bool) {
    st.cases += 1;
    if verbose {
        println!("source:\n{}", source(c, 0));
        for a in &c.args {
            println!("  arg {}", show_short(a));
        }
    }
    let out = run_case(c, 0);
    if verbose {
        match &out.stack {
            Ok(s) => {
                for v in s {
                    println!("  out {}", show_short(v));
                }
            }
            Err(e) => println!("  error {e}"),
        }
    }
    match &out.stack {
        Ok(vals) => {
            st.ok += 1;
            for (_, names) in &c.terms {
                for n in names {
                    *st.prim_ok.entry(n.clone()).or_default() += 1;
                }
            }
            for v in vals.iter().chain(out.bound.iter().map(|b| &b.1)) {
                st.values += 1;
                let f = uiua::verif::flags(v);
                if f.0 || f.1 || f.2 {
                    st.marked += 1;
                }
                if uiua::verif::map_dump(v).is_some() {
                    st.maps += 1;
                }
                if matches!(v, Value::Box(_)) {
                    st.boxes += 1;
                }
            }
        }
        Err(e) => {
            if e.starts_with("PANIC") {
                st.panics += 1;
            }
            st.err += 1;
            *st.err_kinds.entry(err_kind(e)).or_default() += 1;
        }
    }
    // even a failed run leaves values on the stack that later code can observe? no: the stack is
    // only taken after a successful run; bound constants of earlier lines are still checked
    let bad = check_all(&out);
    if let Some((msg, val)) = &bad {
        // which top-level term introduces the failure: shortest suffix that already fails
        let n = c.terms.len();
        let mut culprit = 0usize;
        for from in (0..n).rev() {
            let o = run_case(c, from);
            if let Some((m2, _)) = check_all(&o) {
                if kind_of(&m2) == kind_of(msg) {
                    culprit = from;
                    break;
                }
            }
        }
        // a single primitive of the culprit term that already reproduces it
        let (term, names) = &c.terms[culprit];
        let mut who = names.join(".");
        let mut min_src = source(c, culprit);
        let mut min_case_terms: Option<Vec<(String, Vec<String>)>> = None;
        if names.len() > 1 {
            for nm in names {
                if let Some(pi) = g.prims.iter().find(|p| &p.name == nm && p.margs.is_none()) {
                    let mut terms2: Vec<(String, Vec<String>)> = vec![(pi.text.clone(), vec![nm.clone()])];
                    terms2.extend(c.terms[culprit + 1..].iter().cloned());
                    let c2 = Case { terms: terms2.clone(), args: c.args.clone(), header: c.header.clone(), bind: c.bind };
                    let o = run_case(&c2, 0);
                    if let Some((m2, _)) = check_all(&o) {
                        if kind_of(&m2) == kind_of(msg) {
                            who = nm.clone();
                            min_src = source(&c2, 0);
                            min_case_terms = Some(terms2);
                            break;
                        }
                    }
                }
            }
        }
        let _ = term;
        let nan = if has_nan(val) { "+nan" } else { "" };
        let key = format!("{}/{}{}", kind_of(msg), who, nan);
        let cons = consumer_diff(val);
        let sa = match &min_case_terms {
            Some(t) => standalone(&Case { terms: t.clone(), args: c.args.clone(), header: String::new(), bind: false }, 0),
            None => standalone(c, culprit),
        };
        println!(
            "{{\"violation\":{},\"case\":{idx},\"msg\":{},\"program\":{},\"full_program\":{},\"args\":[{}],\"value\":{},\"standalone\":{},\"observable\":{}}}",
            jstr(&key),
            jstr(msg),
            jstr(min_src.trim()),
            jstr(source(c, 0).trim()),
            c.args.iter().map(|a| jstr(&show_short(a))).collect::<Vec<_>>().join(","),
            jstr(&show_short(val)),
            jstr(&sa.unwrap_or_default()),
            jstr(&cons.map(|(c, d)| format!("{c}: {d}")).unwrap_or_default()),
        );
    } else if let Ok(vals) = &out.stack {
        // consumer experiment on values the validator accepts
        for v in vals.iter().rev().take(2) {
            st.consumer_runs += 1;
            if let Some((cons, detail)) = consumer_diff(v) {
                let who = c.terms[0].1.join(".");
                println!(
                    "{{\"violation\":{},\"case\":{idx},\"msg\":{},\"program\":{},\"full_program\":{},\"args\":[{}],\"value\":{},\"standalone\":{},\"observable\":{}}}",
                    jstr(&format!("consumer:{cons}/{who}")),
                    jstr("a mark-trusting consumer gives a different result on the marked value and on an unmarked copy, although the validator accepts the marks"),
                    jstr(source(c, 0).trim()),
                    jstr(source(c, 0).trim()),
                    c.args.iter().map(|a| jstr(&show_short(a))).collect::<Vec<_>>().join(","),
                    jstr(&show_short(v)),
                    jstr(&standalone(c, 0).unwrap_or_default()),
                    jstr(&detail),
                );
            }
        }
    }
}

fn print_stats(st: &Stats) {
    let prims: Vec<String> = st.prim_ok.iter().map(|(k, v)| format!("{}:{}", jstr(k), v)).collect();
    let mut ek: Vec<(&String, &usize)> = st.err_kinds.iter().collect();
    ek.sort_by(|a, b| b.1.cmp(a.1));
    let eks: Vec<String> = ek.iter().take(12).map(|(k, v)| format!("{}:{}", jstr(k), v)).collect();
    println!(
        "{{\"summary\":true,\"zero_width_key_skips\":{},\"cases\":{},\"ok\":{},\"err\":{},\"panics\":{},\"values\":{},\"marked\":{},\"maps\":{},\"boxes\":{},\"consumer_runs\":{},\"prim_ok\":{{{}}},\"err_kinds\":{{{}}}}}",
        ZW_SKIPS.swap(0, std::sync::atomic::Ordering::SeqCst),
        st.cases,
        st.ok,
        st.err,
        st.panics,
        st.values,
        st.marked,
        st.maps,
        st.boxes,
        st.consumer_runs,
        prims.join(","),
        eks.join(",")
    );
}

// ------------------------------------------------------------------ directed programs

/// hand-written families that the random generator reaches rarely: (program template, argument kinds)
fn directed(r: &mut Rng, g: &Gen) -> Case {
    let monadic: Vec<&PI> = g.prims.iter().filter(|p| p.margs.is_none() && p.args == 1).collect();
    let dyadic: Vec<&PI> = g.prims.iter().filter(|p| p.margs.is_none() && p.args == 2).collect();
    let sorter = *r.pick(&["⍆", "⇌⍆", "⍆", "⇌⍆", "∘"]);
    let scal = *r.pick(&SCALARS);
    let kind = *r.pick(&[0usize, 0, 1, 2, 3, 4]);
    let shape = {
        let mut s = small_shape(r, 2, 4);
        if s.is_empty() {
            s = vec![1 + r.below(4)];
        }
        if r.chance(1, 3) {
            s.push(1 + r.below(3));
        }
        s
    };
    let a = gen_typed(r, kind, &shape, 0);
    let b = if r.chance(1, 2) {
        let k2 = if r.chance(2, 3) { kind } else { r.below(5) };
        gen_typed(r, k2, &shape, 0)
    } else {
        let k2 = r.below(5);
        let s2 = small_shape(r, 2, 3);
        gen_typed(r, k2, &s2, 0)
    };
    let (terms, names): (String, Vec<String>) = match r.below(8) {
        0 => {
            let f = r.pick(&monadic);
            (format!("{} {sorter}", f.text), vec![f.name.clone()])
        }
        1 => {
            let f = r.pick(&dyadic);
            (format!("{} {scal} {sorter}", f.text), vec![f.name.clone()])
        }
        2 => {
            let f = r.pick(&dyadic);
            (format!("{} ⊙{scal} {sorter}", f.text), vec![f.name.clone()])
        }
        3 => {
            let f = r.pick(&dyadic);
            (format!("{} ∩({sorter})", f.text), vec![f.name.clone()])
        }
        4 => {
            let f = r.pick(&monadic);
            let h = r.pick(&monadic);
            (format!("⍜{}{} {sorter}", paren(&f.text), paren(&h.text)), vec!["under".into(), f.name.clone(), h.name.clone()])
        }
        5 => {
            let f = r.pick(&dyadic);
            (format!("°{} {sorter}", paren(&format!("{} {scal}", f.text))), vec!["un".into(), f.name.clone()])
        }
        6 => {
            let f = r.pick(&dyadic);
            (format!("⬚{scal}{} ∩({sorter})", f.text), vec!["fill".into(), f.name.clone()])
        }
        _ => {
            let f = r.pick(&dyadic);
            let m = *r.pick(&["/", "\\", "≡", "⊞", "∧", "⍚"]);
            (format!("{m}{} {sorter}", f.text), vec!["mod".into(), f.name.clone()])
        }
    };
    Case { terms: vec![(terms, names)], args: vec![b, a], header: "# Experimental!\n".into(), bind: false }
}

/// a monotone (or, rarely, unordered) index list that mixes negative and non-negative entries
fn mono_indices(r: &mut Rng, n: usize) -> Vec<i64> {
    let n = n.max(1) as i64;
    let len = 1 + r.below(4);
    let mut v: Vec<i64> = (0..len)
        .map(|_| match r.below(10) {
            0 => r.range(-n - 1, n),         // may be out of bounds
            1..=4 => r.range(-n, -1),
            _ => r.range(0, n - 1),
        })
        .collect();
    match r.below(5) {
        0 | 1 => v.sort(),
        2 | 3 => {
            v.sort();
            v.reverse()
        }
        _ => {}
    }
    v
}

fn lit_ints(v: &[i64], shape2: bool) -> String {
    let items: Vec<String> = v.iter().map(|x| lit_num(*x as f64)).collect();
    if shape2 && v.len() >= 2 && v.len() % 2 == 0 {
        format!("(↯[2 {}][{}])", v.len() / 2, items.join(" "))
    } else if v.len() == 1 && shape2 {
        items[0].clone()
    } else {
        format!("[{}]", items.join(" "))
    }
}

const STRUCT_DYADIC: [&str; 14] = ["⊏", "⊏", "⊏", "⊏", "⊡", "↙", "↘", "↻", "▽", "⊏", "☇", "⤸", "◫", "↯"];
const MARKERS: [&str; 8] = ["⍆", "⇌⍆", "⍆", "⇌⍆", "⍆◴", "⇌⍆◴", "⇡⧻", "⇌⇡⧻"];

/// structural primitives applied to arguments whose marks were set at run time, with index
/// arguments that are monotone lists mixing negative and non-negative entries (also rank 2,
/// also under a fill)
fn directed_struct(r: &mut Rng) -> Case {
    let kind = *r.pick(&[0usize, 0, 1, 1, 2, 4, 3]);
    let rows = 2 + r.below(4);
    let mut shape = vec![rows];
    if r.chance(1, 3) {
        shape.push(1 + r.below(3));
    }
    let mut arr = gen_typed(r, kind, &shape, 0);
    maybe_bool(r, &mut arr);
    let f = *r.pick(&STRUCT_DYADIC);
    let idx = mono_indices(r, rows);
    let idx_lit = if f == "▽" {
        let counts: Vec<i64> = (0..rows).map(|_| r.range(0, 2)).collect();
        lit_ints(&counts, false)
    } else {
        lit_ints(&idx, r.chance(1, 6))
    };
    let fill = if r.chance(1, 4) {
        match kind {
            2 => "⬚@a",
            4 => "⬚(□0)",
            _ => *r.pick(&["⬚0", "⬚¯1", "⬚∞"]),
        }
    } else {
        ""
    };
    let name = match f {
        "⊏" => "select",
        "⊡" => "pick",
        "↙" => "take",
        "↘" => "drop",
        "↻" => "rotate",
        "▽" => "keep",
        "☇" => "rerank",
        "⤸" => "orient",
        "◫" => "windows",
        _ => "reshape",
    };
    let core = format!("{fill}{f} {idx_lit}");
    let (term, names): (String, Vec<String>) = match r.below(10) {
        0 => (format!("⍜({core})⇌"), vec!["under".into(), name.into()]),
        1 => (format!("≡({core})"), vec!["rows".into(), name.into()]),
        2 => (format!("⇌ {core}"), vec!["reverse".into(), name.into()]),
        _ => (core, vec![name.into()]),
    };
    let marker = r.pick(&MARKERS).to_string();
    Case { terms: vec![(term, names), (marker, vec!["prep".into()])], args: vec![arr], header: "# Experimental!\n".into(), bind: false }
}

const ROWLESS_SHAPES: [&[usize]; 7] = [&[0], &[0, 3], &[2, 0], &[0, 0], &[1, 0, 2], &[0, 1], &[3, 0, 0]];
const INV_MONADIC: [(&str, &str); 22] = [
    ("°▽", "keep"), ("°⊚", "where"), ("°⊛", "classify"), ("°◴", "deduplicate"), ("°⊂", "join"), ("°⊟", "couple"),
    ("°⍉", "transpose"), ("°♭", "deshape"), ("°□", "box"), ("°⇡", "range"), ("°△", "shape"), ("°¤", "fix"),
    ("°⍆", "sort"), ("°⋯", "bits"), ("°⇌", "reverse"), ("°⊢", "first"), ("°⊣", "last"), ("°⍏", "rise"),
    ("°⍖", "fall"), ("°⧻", "length"), ("°◇⊂", "join"), ("°⊜□", "partition"),
];
const ANTI_DYADIC: [(&str, &str); 10] = [
    ("⌝↘", "drop"), ("⌝↙", "take"), ("⌝⊏", "select"), ("⌝⊡", "pick"), ("⌝▽", "keep"), ("⌝↻", "rotate"),
    ("⌝⊂", "join"), ("⌝⊟", "couple"), ("⌝↯", "reshape"), ("⌝⤸", "orient"),
];
const UNDER_F: [(&str, &str, bool); 20] = [
    ("▽", "keep", true), ("⊏", "select", true), ("↙", "take", true), ("↘", "drop", true), ("⊡", "pick", true),
    ("↻", "rotate", true), ("↯", "reshape", true), ("⊢", "first", false), ("⊣", "last", false), ("♭", "deshape", false),
    ("⇌", "reverse", false), ("⍉", "transpose", false), ("⊚", "where", false), ("⊛", "classify", false),
    ("◴", "deduplicate", false), ("⍆", "sort", false), ("¤", "fix", false), ("□", "box", false), ("⊜□", "partition", true), ("⧻", "length", false),
];
const UNDER_G: [&str; 10] = ["⇌", "∘", "(+1)", "¯", "⍆", "(⊂0)", "(▽0)", "(↯2_2_2)", "¬", "(×0)"];

/// un-, anti- and under- forms of the structural primitives, fed arrays WITHOUT rows of every
/// type and shape as well as ordinary ones
fn directed_inv(r: &mut Rng) -> Case {
    let mut gen_arr = |r: &mut Rng| -> Value {
        let kind = *r.pick(&[0usize, 1, 2, 3, 4, 0, 1]);
        let mut v = if r.chance(1, 2) {
            let sh = *r.pick(&ROWLESS_SHAPES);
            gen_typed(r, kind, sh, 0)
        } else {
            let sh = small_shape(r, 3, 3);
            gen_typed(r, kind, &sh, 0)
        };
        maybe_bool(r, &mut v);
        if r.chance(1, 4) {
            if let Ok(st) = run_uiua_with(*r.pick(&["⍆", "⇌⍆"]), &[v.clone()]) {
                v = st.into_iter().next().unwrap_or(v);
            }
        }
        v
    };
    let a = gen_arr(r);
    let b = gen_arr(r);
    let c = gen_arr(r);
    let n = a.row_count().max(1);
    let idx = {
        let v = mono_indices(r, n);
        match r.below(4) {
            0 => "[]".to_string(),
            1 => lit_num(v[0] as f64),
            _ => lit_ints(&v, false),
        }
    };
    let fill = if r.chance(1, 5) { *r.pick(&["⬚0", "⬚@a", "⬚(□0)", "⬚[1 2]"]) } else { "" };
    let (term, names): (String, Vec<String>) = match r.below(3) {
        0 => {
            let (t, nm) = *r.pick(&INV_MONADIC);
            (format!("{fill}{t}"), vec!["un".into(), nm.into()])
        }
        1 => {
            let (t, nm) = *r.pick(&ANTI_DYADIC);
            if r.chance(1, 2) {
                (format!("{fill}{t} {idx}"), vec!["anti".into(), nm.into()])
            } else {
                (format!("{fill}{t}"), vec!["anti".into(), nm.into()])
            }
        }
        _ => {
            let (f, nm, dy) = *r.pick(&UNDER_F);
            let g = *r.pick(&UNDER_G);
            let inner = if dy { format!("({f} {idx})") } else { paren(f) };
            (format!("{fill}⍜{inner}{g}"), vec!["under".into(), nm.into()])
        }
    };
    Case { terms: vec![(term, names)], args: vec![c, b, a], header: "# Experimental!\n".into(), bind: false }
}

// ------------------------------------------------------------------ cross-check of the validator

fn flag_tree(v: &Value) -> String {
    let (b, u, d) = uiua::verif::flags(v);
    let kids = match v {
        Value::Box(a) => a.elements().map(|x| flag_tree(&x.0)).collect::<Vec<_>>().join(";"),
        _ => String::new(),
    };
    format!("(FT {b} {u} {d} [{kids}])")
}

fn has_map_deep(v: &Value) -> bool {
    if uiua::verif::map_dump(v).is_some() {
        return true;
    }
    match v {
        Value::Box(a) => a.elements().any(|b| has_map_deep(&b.0)),
        _ => false,
    }
}

/// assign arbitrary marks to a value and (recursively) to boxed values
fn mismark(r: &mut Rng, v: &mut Value) {
    if let Value::Box(a) = v {
        let shape: Vec<usize> = a.shape.iter().copied().collect();
        let mut items: Vec<Value> = a.elements().map(|b| b.0.clone()).collect();
        for it in items.iter_mut() {
            if r.chance(1, 3) {
                mismark(r, it);
            }
        }
        *v = boxes(&shape, items);
    }
    match r.below(6) {
        0 => uiua::verif::set_sorted(v, true, false),
        1 => uiua::verif::set_sorted(v, false, true),
        2 => uiua::verif::set_sorted(v, true, true),
        3 => uiua::verif::set_boolean(v, true),
        4 => {
            uiua::verif::set_boolean(v, true);
            uiua::verif::set_sorted(v, r.chance(1, 2), r.chance(1, 2));
        }
        _ => {}
    }
}

/// regression corpus: the inputs on which the monitor found mis-marked or malformed values
/// before the fix: commits (35ff854, f306b49, eea1d01, ade6601, 60de79d, 9703aa4, e1a3340,
/// f50d52f, 7af2e92, 3374592, f64950a); replayed first by every search that starts at case 0
const REGRESSION: [&str; 86] = [
    "¯\"abc\"",
    "⌊⍆[ℂ5 1.2 ℂ0 1.7]",
    "⌈⍆[ℂ5 1.2 ℂ0 1.7]",
    "⌊⍆{[1.2 5] [1.7 0]}",
    "⁅⍆{[1.2 5] [1.4 0]}",
    "+∞ ⍆[¯∞ 1]",
    "+⍆[¯∞ 1] ⍆[∞ ∞]",
    "+⍆[1_5 2_0] ⍆[1e300_0 1e300_0]",
    "+1e300 ⍆[1_5 2_0]",
    "- ⊙¯0 ⍆ [□(↯[2 1][¯∞ ¯0]) □1 □(ℂ3 2) □[□[∞]]]",
    "- ⊙¯∞ ⇌⍆ [□¯3 □9 □[71 205 77]]",
    "× ⊙¯1 ⍆{1 [2 3] \"a\"}",
    "°(÷ ¯1) ⍆ \"é\\\"a\"",
    "°(÷ ¯2) ⍆ \"bAa\"",
    "÷ ⊙3 ⇌⍆ (ℂ[¯1 ∞] [2 1e300])",
    "°(+ NaN) ⍆ (ℂ[¯∞ 241 ¯1] [136 261 0.5])",
    "÷ ¯0 ⇌⍆ [0.5 149 ¯∞]",
    "× ¯0 ⍆ [¯1 0 1]",
    "÷⍆[¯1 1] 1",
    "÷⍆[¯2 ¯1 1 2] 1",
    "÷ ⊙1e300 ⇌⍆ (↯[2 4][6 9 3 ¯4 ¯1 7 8 6])",
    "☇0 ⇌⍆ [1_2 0_5]",
    "☇0 ⍆ ↯[2 2 2][0 1 0 0 1 0 0 0]",
    "⍜¯¯ ⇌⍆ (ℂ[¯1 6.25 NaN] [2 ¯2.75 1])",
    "↥0 ⍆[1 NaN]",
    "≡≡□ ↯2_3_0 0",
    "⍚⌵ \"ab\"",
    // round 3 (584f00c, b53741f, ccb866a, 68a793c, 09b3e8b, d523098, 4c07839, 970c1d7, c9b4779, 3a3fb99)
    "∵⊟ [1] ↯0_1 0",
    "∵: [1] ↯0_1 0",
    "∵⊟ ↯0_1 0 [1]",
    "⊏ ↯0_3 0 [1_2 3_4]",
    "∊ ↯3_2_2 0 ↯0_0_2_2 0",
    "⊗ ↯3_2_2 0 ↯0_0_2_2 0",
    "≡≡/+ \"ab\"",
    "≡≡(⊢¤) [1 2]",
    "≡⊢ ↯0_0 0",
    "≡(⍉⍉⍉) ↯2_3_2⇡12",
    "/↥⊞- [] ↯2_2_2⇡8",
    "⬚0+ ↯2_3_0 π ↯2_2_4 π",
    "/◇⊂⍚(⊂0) []",
    "≡(4 ¯) [1 2]",
    // round 4 (4f6a49b, 047a6f3)
    "+ [1 2 3 4] map 5 6",
    "≠ map 3 3 [9 2 1 6]",
    "∊⇡2 ⍆[0 1 2 3]",
    "∊⇡2 map [1 2 3 4] ⍆[0 1 2 3]",
    // round 5 (7b35e38, c6a083c, 4e05bb0, ee5bf28, 13770ba, fca5c4a)
    "▽ 2 map [1 2] [3 4]",
    "▽ 0 map [1 2] [3 4]",
    "▽ 0.5 map [1 2] [3 4]",
    "▽ 4 map [45 0] [1 1]",
    "⟜(▽ ¯2) map [1 2] [3 4]",
    "°(↘ ¯2) map [1 2 3 4] [5 6 7 8]",
    "°(↘ 1) map [1 2] [5 6]",
    "⧈+ map [1 2] [3 4]",
    "\\+ [1 0 1]",
    "/×\\+ [1 0 1]",
    "°\\+ [1 1 0]",
    "⧈+ [1 0 1 1]",
    "/+[[1 0 1][1 1 1]]",
    "/×/+[[1 0 1][1 1 1]]",
    "⬚[5 6]↙3 [[1 0][0 1]]",
    "⍜(▽[1 0 1])(↯2_2_2) [1 2 3]",
    "⊞₋₂⊟ [1 2] [3 4]",
    "⊞₋₁(°+) 1 2",
    // maps whose keys are rows without elements: well-formed, the validator's limit (see validator_limit)
    "map ↯1_0 0 [7]",
    "map ↯2_0 0 [7 8]",
    "insert \"\" 1 insert \"\" 2 map [] []",
    "⍤⤙≍ 7 get ↯0 0 map ↯1_0 0 [7]",
    "⍤⤙≍ 0 has \"\" remove \"\" insert \"\" 1 map [] []",
    // second seeded mutation (un-keep of an array without rows)
    "°▽ []",
    // sorting a fixed map turned its key table into one list key (repaired by 5c01d86)
    "°¤ ⍆ ¤ map [1 2 3 4] [3 1 4 2]",
    // round 6 (5c01d86, ab5c2d2, 41233b4, b5cebe0, 2fb2751, a57afbd, 15515eb, 2c47c4a)
    "⍤⤙≍ 1 get 2 °¤ ⍆ ¤ map [1 2 3 4] [3 1 4 2]",
    "⬚@a↙ [¯3 1] ⍆ [\"Aa\" \"cc\"]",
    "⇌ ⬚@a↙ [¯3 1] ⍆ [\"Aa\" \"cc\"]",
    "∵⊟ [1 2 3] map [0] [8]",
    "∵∨ [1 2 3] map [0] [8]",
    "°⊂ ⍆ map [1 151] [0 0]",
    "/× map [1 2 3 4] [3_1 1_3 1_2 1_3]",
    "⊞△ map 1 2 5",
    "∵map [1 1] [8 5]",
    "∵(map 5) [1 0 1]",
    "∵map \"baa\" \"b0c\"",
    "⨬(⇌|+) [0] [3 4] 0",
    "⨬(⍆|⨱) [0] [0 0 1 1] 0",
    "≡≡⊢ ⍆ [[[1 9][0 0]] [[1 0][5 5]]]",
    // round 7 (3ccd0ea): a map made under deshape has a key for each deshaped row
    "⍜♭(map [1 2 3 4]) [1_2 3_4]",
    "⍜♭(map [1]◌) ↯0_4 0 [7]",
];

static PROGRESS: std::sync::atomic::AtomicU64 = std::sync::atomic::AtomicU64::new(u64::MAX);

/// a case that does not finish within a few seconds ends the process (the driver resumes after it)
fn watchdog() {
    std::thread::spawn(|| {
        let mut last = u64::MAX;
        let mut since = std::time::Instant::now();
        loop {
            std::thread::sleep(Duration::from_millis(250));
            let cur = PROGRESS.load(std::sync::atomic::Ordering::SeqCst);
            if cur != last {
                last = cur;
                since = std::time::Instant::now();
            } else if cur != u64::MAX && since.elapsed() > Duration::from_secs(8) {
                println!("{{\"hang\":{cur}}}");
                std::process::exit(3);
            }
        }
    });
}

fn main() {
    let mode = std::env::args().nth(1).unwrap_or_default();
    let a2: u64 = std::env::args().nth(2).and_then(|s| s.parse().ok()).unwrap_or(0);
    let a3: u64 = std::env::args().nth(3).and_then(|s| s.parse().ok()).unwrap_or(100);
    let seed = seed_from_env();
    let prims = prim_table();
    let g = Gen::new(&prims);
    match mode.as_str() {
        "prims" => {
            for p in &prims {
                println!("{} {} {} {} {:?}", p.name, p.text, p.args, p.outs, p.margs);
            }
        }
        "search" => {
            let mut st = Stats::default();
            watchdog();
            if a2 == 0 {
                for (k, src) in REGRESSION.iter().enumerate() {
                    let c = Case { terms: vec![(src.to_string(), vec![format!("regress:{src}")])], args: vec![], header: "# Experimental!\n".into(), bind: false };
                    monitor_case(&g, &c, 1_000_000 + k as u64, &mut st, false);
                    let c = Case { terms: vec![(src.to_string(), vec![format!("regress:{src}")])], args: vec![], header: "# Experimental!\n".into(), bind: true };
                    monitor_case(&g, &c, 2_000_000 + k as u64, &mut st, false);
                }
                println!("{{\"regression\":{}}}", REGRESSION.len());
                // flushed now: a later hang ends the process before the next periodic summary
                print_stats(&st);
                st = Stats::default();
            }
            for i in a2..a3 {
                PROGRESS.store(i, std::sync::atomic::Ordering::SeqCst);
                eprintln!("#{i}");
                if i > a2 && (i - a2) % 100 == 0 {
                    print_stats(&st);
                    st = Stats::default();
                }
                let c = if i % 12 == 8 {
                    let mut r = Rng::new(seed.wrapping_mul(1_000_003).wrapping_add(i));
                    directed_inv(&mut r)
                } else if i % 6 == 5 {
                    let mut r = Rng::new(seed.wrapping_mul(1_000_003).wrapping_add(i));
                    directed_struct(&mut r)
                } else if i % 3 == 2 {
                    let mut r = Rng::new(seed.wrapping_mul(1_000_003).wrapping_add(i));
                    directed(&mut r, &g)
                } else {
                    gen_case(&g, i, seed)
                };
                monitor_case(&g, &c, i, &mut st, false);
            }
            print_stats(&st);
        }
        "one" => {
            let mut st = Stats::default();
            let i = a2;
            let c = if i % 12 == 8 {
                let mut r = Rng::new(seed.wrapping_mul(1_000_003).wrapping_add(i));
                directed_inv(&mut r)
            } else if i % 6 == 5 {
                let mut r = Rng::new(seed.wrapping_mul(1_000_003).wrapping_add(i));
                directed_struct(&mut r)
            } else if i % 3 == 2 {
                let mut r = Rng::new(seed.wrapping_mul(1_000_003).wrapping_add(i));
                directed(&mut r, &g)
            } else {
                gen_case(&g, i, seed)
            };
            monitor_case(&g, &c, i, &mut st, true);
        }
        "corpus" => {
            let mut st = Stats::default();
            watchdog();
            let mut files: Vec<_> = std::fs::read_dir("/repo/tests").map(|d| d.filter_map(|e| e.ok()).map(|e| e.path()).collect()).unwrap_or_default();
            files.sort();
            let mut idx = 0u64;
            for f in files {
                if f.extension().and_then(|e| e.to_str()) != Some("ua") {
                    continue;
                }
                let Ok(text) = std::fs::read_to_string(&f) else { continue };
                let mut chunks: Vec<String> = text.split("\n\n").map(|s| s.to_string()).collect();
                chunks.push(text.clone());
                let exp = text.contains("# Experimental!");
                for ch in chunks {
                    if ch.trim().is_empty() || ch.contains('&') || ch.contains("~ ") {
                        continue;
                    }
                    idx += 1;
                    if a3 > 0 && idx % a3.max(1) != a2 % a3.max(1) {
                        continue;
                    }
                    PROGRESS.store(idx, std::sync::atomic::Ordering::SeqCst);
                    let header = if exp && !ch.contains("# Experimental!") { "# Experimental!\n" } else { "" };
                    let c = Case { terms: vec![(ch.clone(), vec![format!("corpus:{}", f.file_name().unwrap().to_string_lossy())])], args: vec![], header: header.into(), bind: false };
                    monitor_case(&g, &c, idx, &mut st, false);
                }
            }
            print_stats(&st);
        }
        "xcheck" => {
            let mut r = Rng::new(seed);
            let n = a2.max(1);
            let mut k = 0;
            while k < n {
                let kind = r.below(5);
                let shape = small_shape(&mut r, 3, 3);
                let mut v = gen_typed(&mut r, kind, &shape, 0);
                // half of the values come out of the interpreter with truthful marks
                if r.chance(1, 2) {
                    let p = *r.pick(&["⍆", "⇌⍆", "⍏", "⊛", "=0", "⇌", "∘", "≡⍆", "≡□", "⊚", "¬", "⍆◴"]);
                    if let Ok(st) = run_uiua_with(p, &[v.clone()]) {
                        if let Some(x) = st.into_iter().next() {
                            v = x;
                        }
                    }
                }
                if r.chance(2, 3) {
                    mismark(&mut r, &mut v);
                }
                if has_map_deep(&v) {
                    continue;
                }
                let verdict = uiua::verif::check_value(&v);
                println!(
                    "{{\"i\":{k},\"v\":{},\"ft\":{},\"ok\":{},\"msg\":{},\"show\":{}}}",
                    jstr(&coq_value(&v)),
                    jstr(&flag_tree(&v)),
                    verdict.is_ok(),
                    jstr(&verdict.err().unwrap_or_default()),
                    jstr(&show_short(&v))
                );
                k += 1;
            }
        }
        "tie" => {
            tie(a2 as usize, seed);
        }
        _ => eprintln!("usage: c05 search FROM TO | one I | corpus | xcheck N | tie N"),
    }
}

// ------------------------------------------------------------------ tie of the modelled primitives

fn mv(v: &Value) -> String {
    let (b, u, d) = uiua::verif::flags(v);
    format!("(MV {} (FL {b} {u} {d}))", coq_value(v))
}

const CONCRETE: [(&str, &str, usize); 14] = [
    ("CTake", "↙", 1),
    ("CTake", "↙", 1),
    ("CDrop", "↘", 1),
    ("CDrop", "↘", 1),
    ("CReverse", "⇌", 1),
    ("CFirst", "⊢", 1),
    ("CLast", "⊣", 1),
    ("CFix", "¤", 1),
    ("CDeshape", "♭", 1),
    ("CSort", "⍆", 1),
    ("CSortDown", "⇌⍆", 1),
    ("CNeg", "¯", 1),
    ("CCouple", "⊟", 2),
    ("CRange", "⇡", 1),
];
const RULES: [(&str, &str, usize); 21] = [
    ("RKeep", "▽", 2),
    ("RKeep", "▽", 2),
    ("RRotate", "↻", 2),
    ("RRotate", "↻", 2),
    ("RSelect", "⊏", 2),
    ("RSelect", "⊏", 2),
    ("RClassify", "⊛", 1),
    ("RTranspose", "⍉", 1),
    ("RWhere", "⊚", 1),
    ("RFloor", "⌊", 1),
    ("RCeil", "⌈", 1),
    ("RRound", "⁅", 1),
    ("RNot", "¬", 1),
    ("RAbs", "⌵", 1),
    ("RSign", "±", 1),
    ("RAdd", "+", 2),
    ("RSub", "-", 2),
    ("RMul", "×", 2),
    ("RDiv", "÷", 2),
    ("RMin", "↧", 2),
    ("RMax", "↥", 2),
];

fn tie_arg(r: &mut Rng, kind: usize, shape: &[usize]) -> Value {
    let mut v = gen_typed(r, kind, shape, 1);
    let pre = *r.pick(&["", "", "⍆", "⍆", "⇌⍆", "⇌⍆", "◴⍆", "=0", "⍏", "⊛"]);
    if !pre.is_empty() {
        if let Ok(st) = run_uiua_with(pre, &[v.clone()]) {
            if let Some(x) = st.into_iter().next() {
                v = x;
            }
        }
    }
    if r.chance(1, 6) {
        v = uiua::verif::to_num_storage(&v);
    }
    v
}

fn tie(n: usize, seed: u64) {
    let mut r = Rng::new(seed ^ 0xC05);
    let mut k = 0usize;
    while k < n {
        let concrete = r.chance(2, 5);
        let (name, src, nargs) = if concrete { *r.pick(&CONCRETE) } else { *r.pick(&RULES) };
        let shape = {
            let mut s = small_shape(&mut r, 3, 3);
            if s.is_empty() && r.chance(2, 3) {
                s = vec![1 + r.below(4)];
            }
            s
        };
        let numeric = matches!(name, "CNeg" | "RWhere" | "RFloor" | "RCeil" | "RRound" | "RNot" | "RAbs" | "RSign" | "RAdd" | "RSub" | "RMul" | "RDiv" | "RMin" | "RMax");
        let kind = if name == "RWhere" {
            1
        } else if matches!(name, "CNeg" | "RAbs" | "RSign") {
            *r.pick(&[0usize, 1])
        } else if numeric {
            *r.pick(&[0usize, 0, 1, 1, 3, 4, 2])
        } else {
            r.below(5)
        };
        let mut args: Vec<Value> = Vec::new(); // [top, second]
        if name == "CRange" {
            args.push(byte(&[], &[*r.pick(&[0u8, 1, 2, 3, 5, 17, 255])]));
        } else {
            args.push(tie_arg(&mut r, kind, &shape));
        }
        let mut coq_name = name.to_string();
        let mut src = src.to_string();
        if name == "CTake" || name == "CDrop" {
            // one integer amount written into the program; the array has rank >= 1
            let rows = 1 + r.below(4);
            let mut sh = vec![rows];
            if r.chance(1, 3) {
                sh.push(r.below(3));
            }
            let k = r.below(5);
            let from = tie_arg(&mut r, k, &sh);
            if from.rank() == 0 {
                continue;
            }
            let n = from.row_count() as i64;
            let z = r.range(-n - 1, n + 1);
            coq_name = format!("({name} ({z})%Z)");
            src = format!("{src} {}", lit_num(z as f64));
            args.clear();
            args.push(from);
        } else if name == "RKeep" || name == "RRotate" {
            let rows = 1 + r.below(4);
            let mut sh = vec![rows];
            if r.chance(1, 4) {
                sh.push(1 + r.below(2));
            }
            if r.chance(1, 8) {
                sh.clear();
            }
            let k = r.below(5);
            let from = tie_arg(&mut r, k, &sh);
            let n = from.row_count();
            let amount = if name == "RKeep" {
                if from.rank() == 0 || r.chance(1, 3) {
                    byte(&[], &[r.below(4) as u8])
                } else {
                    byte(&[n], &(0..n).map(|_| r.below(3) as u8).collect::<Vec<_>>())
                }
            } else {
                match r.below(6) {
                    0 => num(&[0], &[]),
                    1 => num(&[1], &[r.range(-3, 3) as f64]),
                    _ => num(&[], &[r.range(-3, 3) as f64]),
                }
            };
            args.clear();
            args.push(amount);
            args.push(from);
        } else if name == "RSelect" {
            // [indices (top); selected-from array]: monotone index lists mixing signs, rank 0 or 1
            let rows = 2 + r.below(4);
            let mut sh = vec![rows];
            if r.chance(1, 4) {
                sh.push(1 + r.below(2));
            }
            let k = r.below(5);
            let from = tie_arg(&mut r, k, &sh);
            let n = from.row_count();
            let idx = mono_indices(&mut r, n);
            let iv = if r.chance(1, 8) {
                num(&[], &[idx[0] as f64])
            } else if idx.iter().all(|&x| x >= 0) && r.chance(1, 2) {
                byte(&[idx.len()], &idx.iter().map(|&x| x as u8).collect::<Vec<_>>())
            } else {
                num(&[idx.len()], &idx.iter().map(|&x| x as f64).collect::<Vec<_>>())
            };
            args.clear();
            args.push(iv);
            args.push(from);
        } else if nargs == 2 {
            let second = if name == "CCouple" {
                let mut b = tie_arg(&mut r, kind, &shape);
                if r.chance(1, 4) {
                    b = args[0].clone();
                }
                b
            } else {
                match r.below(4) {
                    0 | 1 => {
                        let x = *r.pick(&[0.0, -0.0, 1.0, -1.0, 2.0, 0.5, -2.5, 255.0, 1e300, f64::INFINITY, f64::NEG_INFINITY, f64::NAN]);
                        if x >= 0.0 && x.fract() == 0.0 && x <= 255.0 && !(x == 0.0 && x.is_sign_negative()) && r.chance(1, 2) { byte(&[], &[x as u8]) } else { num(&[], &[x]) }
                    }
                    2 => tie_arg(&mut r, kind, &shape),
                    _ => {
                        let k2 = *r.pick(&[0usize, 1]);
                        tie_arg(&mut r, k2, &shape)
                    }
                }
            };
            if r.chance(1, 2) {
                args.push(second);
            } else {
                args.insert(0, second);
            }
        }
        if args.iter().any(has_map_deep) {
            continue;
        }
        if name == "CCouple" && (std::mem::discriminant(&args[0]) != std::mem::discriminant(&args[1]) || args[0].shape != args[1].shape) {
            continue;
        }
        // stack order: last pushed = top
        let pushed: Vec<Value> = args.iter().rev().cloned().collect();
        let name_s = coq_name.as_str();
        let out = run_prog(&src, &pushed).stack;
        let argstr = args.iter().map(mv).collect::<Vec<_>>().join(";");
        let show = format!("{src} {}", args.iter().map(show_short).collect::<Vec<_>>().join(" | "));
        match (&out, concrete) {
            (Ok(st), true) if st.len() == 1 => {
                println!("{{\"k\":\"c\",\"p\":{},\"coq\":{},\"show\":{},\"out\":{}}}", jstr(name), jstr(&format!("CC {name_s} [{argstr}] (Some {})", mv(&st[0]))), jstr(&show), jstr(&show_short(&st[0])));
            }
            (Err(e), true) if !e.starts_with("PANIC") => {
                println!("{{\"k\":\"c\",\"p\":{},\"coq\":{},\"show\":{},\"out\":{}}}", jstr(name), jstr(&format!("CC {name_s} [{argstr}] None")), jstr(&show), jstr(e.lines().next().unwrap_or("")));
            }
            (Ok(st), false) if st.len() == 1 => {
                println!("{{\"k\":\"r\",\"p\":{},\"coq\":{},\"show\":{},\"out\":{}}}", jstr(name), jstr(&format!("RC {name} [{argstr}] {}", mv(&st[0]))), jstr(&show), jstr(&show_short(&st[0])));
            }
            _ => continue,
        }
        k += 1;
    }
}
