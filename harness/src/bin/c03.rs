//! C03: un / anti produce true inverses with the dual signature.
//!   c03 dump            -> the catalogue with the templates the inversion engine emits (debug)
//!   c03 export N        -> JSON lines: for catalogue terms (exhaustive to depth 2, then a stratified
//!                          sample to depth 4, N terms in all) the real compiler's F, °F, °°F, ⌝F as
//!                          spine `node`s (Export) with their Rust signatures, and as `tn` templates
//!   c03 search N        -> the four laws on the real interpreter
use std::fmt::Write as _;
use uiua::{ImplPrimitive, Node, Primitive, SigNode, Value};
use uvh::*;

// ---------------------------------------------------------------- catalogue

#[derive(Clone, Copy)]
pub struct Blk {
    pub name: &'static str,
    pub src: &'static str,
    pub args: usize,
    pub outs: usize,
    /// uiua source that leaves the stack as it is or fails: the block's domain
    pub guard: &'static str,
    /// the same for the inverse (the block's range); "!" = no range guard known (the right law
    /// is then only checked on y = F x)
    pub iguard: &'static str,
}

const fn b(name: &'static str, src: &'static str, args: usize, outs: usize, guard: &'static str, iguard: &'static str) -> Blk {
    Blk { name, src, args, outs, guard, iguard }
}

/// ×c / ÷c are in the catalogue on numbers only (on characters × and ÷ only change the case)
const NUMERIC: &str = "⍤\"dom\"×≠1:≠2.type.";
const RANK1: &str = "⍤\"dom\"=1⧻△.";
const RANKGE1: &str = "⍤\"dom\"≥1⧻△.";

/// The exactly-invertible building blocks (monadic ones first)
pub const BLOCKS: &[Blk] = &[
    b("identity", "∘", 1, 1, "", ""),
    b("neg", "¯", 1, 1, "", ""),
    b("not", "¬", 1, 1, "", ""),
    b("reverse", "⇌", 1, 1, "", ""),
    b("transpose", "⍉", 1, 1, "", ""),
    b("box", "□", 1, 1, "", "⍤\"dom\"×=0⧻△:=2type.."),
    b("fix", "¤", 1, 1, "", "⍤\"dom\"=1⊢△."),
    b("add1", "+1", 1, 1, "", ""),
    b("sub2", "-2", 1, 1, "", ""),
    b("mul2", "×2", 1, 1, NUMERIC, NUMERIC),
    b("div2", "÷2", 1, 1, NUMERIC, NUMERIC),
    b("rsub5", "˜-5", 1, 1, "", ""),
    b("rot1", "↻1", 1, 1, RANKGE1, RANKGE1),
    b("rotm2", "↻¯2", 1, 1, RANKGE1, RANKGE1),
    b("join1", "⊂1", 1, 1, "⍤\"dom\"=1⧻△. ⍤\"dom\"=0type.", "!"),
    b("bits", "⋯", 1, 1, "⍤\"dom\"/×♭≥0. ⍤\"dom\"=0type.", "!"),
    b("utf8", "utf₈", 1, 1, "⍤\"dom\"=1⧻△. ⍤\"dom\"=1type.", "!"),
    b("flip", ":", 2, 2, "", ""),
    b("couple", "⊟", 2, 1, "⊃⊙∘(⍤\"dom\"≍∩△) ⊃⊙∘(⍤\"dom\"=∩type)", "⍤\"dom\"=2⊢△."),
    b("join", "⊂", 2, 1, "⊃⊙∘(⍤\"dom\"≍⊙(↘1)∩△) ⊃⊙∘(⍤\"dom\"≥1⧻△⋅∘) ⊃⊙∘(⍤\"dom\"=∩type) ⊃⊙∘(⍤\"dom\"/×>0△⋅∘)", "⍤\"dom\"/×>0△."),
];
pub const N_MONADIC: usize = 17;

/// dyadic functions for on/by and for the anti law
pub const DYADS: &[(&str, &str)] = &[("add", "+"), ("sub", "-"), ("mul", "×"), ("div", "÷"), ("rotate", "↻"), ("rsub", "˜-")];
/// domain of ⟜F / ⊸F: the kept argument must not be stretched by the pervasive pairing
const SAME_SHAPE: &str = "⊃⊙∘(⍤\"dom\"≍∩△) ⊃⊙∘(⍤\"dom\"×∩(≠2type)) ⊃⊙∘(⍤\"dom\"=∩type)";
const ROT_DOM: &str = "⊃⊙∘(⍤\"dom\"×⊓(=0⧻△|≥1⧻△)) ⊃⊙∘(⍤\"dom\"×∩(≠2type))";
fn dyad_guard(i: usize) -> &'static str {
    if DYADS[i].0 == "rotate" { ROT_DOM } else { SAME_SHAPE }
}
/// which of them are exactly invertible in the first-argument-kept form (⟜F / ⊸F)
pub const ON_DYADS: &[usize] = &[0, 1, 4, 5];

#[derive(Clone, Debug, PartialEq)]
pub enum T {
    B(usize),
    Seq(Vec<T>),
    Dip(Box<T>),
    Both(Box<T>),
    Bracket(Box<T>, Box<T>),
    Rows(Box<T>),
    On(usize),
    By(usize),
    Fill(Box<T>),
}

impl T {
    pub fn depth(&self) -> usize {
        match self {
            T::B(_) | T::On(_) | T::By(_) => 1,
            T::Seq(v) => 1 + v.iter().map(|t| t.depth()).max().unwrap_or(0),
            T::Dip(f) | T::Both(f) | T::Rows(f) | T::Fill(f) => 1 + f.depth(),
            T::Bracket(f, g) => 1 + f.depth().max(g.depth()),
        }
    }
    /// mode 0 = plain source; 1 = with domain guards; 2 = the structural inverse with range guards
    pub fn src(&self, mode: u8) -> Option<String> {
        Some(match self {
            T::B(i) => {
                let bl = &BLOCKS[*i];
                match mode {
                    0 => format!("({})", bl.src),
                    1 => format!("({} {})", bl.src, bl.guard),
                    _ => {
                        if bl.iguard == "!" {
                            return None;
                        }
                        format!("(°({}) {})", bl.src, bl.iguard)
                    }
                }
            }
            T::Seq(v) => {
                let mut parts: Vec<String> = Vec::new();
                for t in v {
                    parts.push(t.src(mode)?);
                }
                if mode != 2 {
                    parts.reverse(); // source is written right to left
                }
                format!("({})", parts.join(" "))
            }
            T::Dip(f) => format!("⊙{}", f.src(mode)?),
            T::Both(f) => format!("∩{}", f.src(mode)?),
            T::Rows(f) => {
                if mode == 2 && f.has_box() {
                    return None; // un-boxing rows of different shapes: no range guard
                }
                if mode == 0 {
                    format!("≡{}", f.src(mode)?)
                } else {
                    // rank-0 operands are outside the law (a scalar is its own only row)
                    format!("(≡{} ⍤\"dom\">0⊢△. {RANKGE1})", f.src(mode)?)
                }
            }
            T::Fill(f) => {
                if f.has_rotate() || f.has_block(&["utf8", "bits"]) {
                    // a filled rotation is not a bijection (the engine refuses or loses rows); under a fill the rows of a
                    // block whose result length depends on the values (utf8, bits) are padded to a common length: no bijection either
                    return None;
                }
                if mode == 2 {
                    return None; // a fill makes the inverse total where it is not injective
                }
                format!("⬚0{}", f.src(mode)?)
            }
            T::Bracket(f, g) => format!("⊓{}{}", f.src(mode)?, g.src(mode)?),
            T::On(i) => {
                if mode == 2 {
                    return None;
                }
                if mode == 1 { format!("(⟜({}) {})", DYADS[*i].1, dyad_guard(*i)) } else { format!("⟜({})", DYADS[*i].1) }
            }
            T::By(i) => {
                if mode == 2 {
                    return None;
                }
                if mode == 1 { format!("(⊸({}) {})", DYADS[*i].1, dyad_guard(*i)) } else { format!("⊸({})", DYADS[*i].1) }
            }
        })
    }
    pub fn has_box(&self) -> bool {
        match self {
            T::B(i) => BLOCKS[*i].name == "box",
            T::On(_) | T::By(_) => false,
            T::Seq(v) => v.iter().any(|t| t.has_box()),
            T::Dip(f) | T::Both(f) | T::Rows(f) | T::Fill(f) => f.has_box(),
            T::Bracket(f, g) => f.has_box() || g.has_box(),
        }
    }
    pub fn has_block(&self, names: &[&str]) -> bool {
        match self {
            T::B(i) => names.contains(&BLOCKS[*i].name),
            T::On(_) | T::By(_) => false,
            T::Seq(v) => v.iter().any(|t| t.has_block(names)),
            T::Dip(f) | T::Both(f) | T::Rows(f) | T::Fill(f) => f.has_block(names),
            T::Bracket(f, g) => f.has_block(names) || g.has_block(names),
        }
    }
    pub fn has_rotate(&self) -> bool {
        match self {
            T::B(i) => BLOCKS[*i].name.starts_with("rot"),
            T::On(i) | T::By(i) => DYADS[*i].0 == "rotate",
            T::Seq(v) => v.iter().any(|t| t.has_rotate()),
            T::Dip(f) | T::Both(f) | T::Rows(f) | T::Fill(f) => f.has_rotate(),
            T::Bracket(f, g) => f.has_rotate() || g.has_rotate(),
        }
    }
    pub fn name(&self) -> String {
        match self {
            T::B(i) => BLOCKS[*i].name.to_string(),
            T::Seq(v) => format!("seq[{}]", v.iter().map(|t| t.name()).collect::<Vec<_>>().join(",")),
            T::Dip(f) => format!("dip({})", f.name()),
            T::Both(f) => format!("both({})", f.name()),
            T::Rows(f) => format!("rows({})", f.name()),
            T::Fill(f) => format!("fill({})", f.name()),
            T::Bracket(f, g) => format!("bracket({},{})", f.name(), g.name()),
            T::On(i) => format!("on({})", DYADS[*i].0),
            T::By(i) => format!("by({})", DYADS[*i].0),
        }
    }
}

pub fn leaves() -> Vec<T> {
    let mut v: Vec<T> = (0..BLOCKS.len()).map(T::B).collect();
    for &i in ON_DYADS {
        v.push(T::On(i));
        v.push(T::By(i));
    }
    v
}

/// every term of depth <= 2
pub fn depth2() -> Vec<T> {
    let l = leaves();
    let mut v = l.clone();
    for f in &l {
        v.push(T::Dip(f.clone().into()));
        v.push(T::Both(f.clone().into()));
        v.push(T::Fill(f.clone().into()));
        if let T::B(i) = f {
            if BLOCKS[*i].args == 1 {
                v.push(T::Rows(f.clone().into()));
            }
        }
    }
    for f in &l {
        for g in &l {
            v.push(T::Seq(vec![f.clone(), g.clone()]));
            v.push(T::Bracket(f.clone().into(), g.clone().into()));
        }
    }
    v
}

pub fn gen_term(r: &mut Rng, depth: usize) -> T {
    let l = leaves();
    if depth <= 1 {
        return r.pick(&l).clone();
    }
    match r.below(10) {
        0..=3 => {
            let n = 2 + r.below(2);
            T::Seq(
                (0..n)
                    .map(|i| {
                        let d = if i == 0 { depth - 1 } else { 1 + r.below(depth - 1) };
                        gen_term(r, d)
                    })
                    .collect(),
            )
        }
        4 => T::Dip(gen_term(r, depth - 1).into()),
        5 => T::Both(gen_term(r, depth - 1).into()),
        6 => {
            let d = 1 + r.below(depth - 1);
            T::Bracket(gen_term(r, depth - 1).into(), gen_term(r, d).into())
        }
        7 => {
            // rows of a monadic term
            let mut t = gen_term(r, depth - 1);
            for _ in 0..20 {
                if term_monadic(&t) {
                    break;
                }
                t = gen_term(r, depth - 1);
            }
            if term_monadic(&t) { T::Rows(t.into()) } else { T::Dip(t.into()) }
        }
        8 => T::Fill(gen_term(r, depth - 1).into()),
        _ => T::Dip(gen_term(r, depth - 1).into()),
    }
}

fn term_monadic(t: &T) -> bool {
    match t {
        T::B(i) => BLOCKS[*i].args == 1 && BLOCKS[*i].outs == 1,
        T::Seq(v) => v.iter().all(term_monadic),
        T::Rows(f) | T::Fill(f) => term_monadic(f),
        _ => false,
    }
}

// ---------------------------------------------------------------- structure around joins (un.rs JoinPat)

fn flat<'a>(t: &'a T, out: &mut Vec<&'a T>) {
    match t {
        T::Seq(v) => v.iter().for_each(|x| flat(x, out)),
        x => out.push(x),
    }
}
/// outputs minus arguments
fn net(t: &T) -> i64 {
    match t {
        T::B(i) => BLOCKS[*i].outs as i64 - BLOCKS[*i].args as i64,
        T::On(_) | T::By(_) => 0,
        T::Seq(v) => v.iter().map(net).sum(),
        T::Dip(f) | T::Rows(f) | T::Fill(f) => net(f),
        T::Both(f) => 2 * net(f),
        T::Bracket(f, g) => net(f) + net(g),
    }
}
fn is_join(t: &T) -> bool {
    matches!(t, T::B(i) if BLOCKS[*i].name == "join")
}
fn contains_join(t: &T) -> bool {
    let mut v = Vec::new();
    flat(t, &mut v);
    v.iter().any(|x| is_join(x) || matches!(x, T::Dip(f) if contains_join(f)))
}
fn pure_chain(t: &T) -> bool {
    let mut v = Vec::new();
    flat(t, &mut v);
    v.iter().all(|x| is_join(x) || matches!(x, T::Dip(f) if pure_chain(f)))
}
/// "chain" = somewhere a bare `⊙⊂` link precedes a join: the engine gives that part back as a one-row
/// list, so inputs whose part is a row (what the block guards admit) are outside the calibrated domain;
/// chains are covered by the directed family.  Everything else around a join is an ordinary term.
pub fn join_class(t: &T) -> Option<&'static str> {
    let mut v = Vec::new();
    flat(t, &mut v);
    if let Some(j) = v.iter().rposition(|x| is_join(x)) {
        for x in &v[..j] {
            if let T::Dip(f) = x {
                let mut w = Vec::new();
                flat(f, &mut w);
                if w.len() == 1 && is_join(w[0]) {
                    return Some("chain");
                }
            }
        }
    }
    for x in v {
        let sub = match x {
            T::Dip(f) | T::Both(f) | T::Rows(f) | T::Fill(f) => join_class(f),
            T::Bracket(f, g) => join_class(f).or_else(|| join_class(g)),
            _ => None,
        };
        if sub.is_some() {
            return sub;
        }
    }
    None
}

// ---------------------------------------------------------------- template exporter (Model/Invert.v `tn`)

const PNAMES: &[&str] = &[
    "Identity", "Flip", "Neg", "Not", "Reverse", "Transpose", "Couple", "UnCouple", "Box", "UnBox", "Fix", "UnFix",
    "Add", "Sub", "Mul", "Div", "Rotate", "AntiRotate", "Join", "UnJoin", "UnJoinShape", "UnJoinShape2", "MatchPattern",
    "Shape", "Dup", "Over", "Pop", "Bits", "UnBits", "Utf8", "UnUtf8", "Where", "UnWhere", "Len", "First", "Last",
    "Deshape", "Take", "Drop", "Select", "Pick", "Keep", "Rise", "Fall", "Sort", "Classify", "Deduplicate", "Range",
    "Reshape", "Rerank", "UndoFirst", "UndoLast", "UndoTake", "UndoDrop", "UndoSelect", "UndoPick", "UndoKeep",
    "UndoDeshape", "UndoFix", "UndoRotate", "UndoReverse", "UndoReshape", "UndoRerank", "UndoWhere", "UndoInsert",
    "UndoRemove", "UndoGet", "Get", "Insert", "Remove", "AntiDrop", "AntiSelect", "AntiPick", "AntiKeep", "UndoUnBits",
    "UndoJoin", "UndoClassify", "UndoDeduplicate", "UndoSort", "UndoRise", "UndoFall", "Unique", "UndoPartition1",
    "UndoPartition2", "UndoGroup1", "UndoGroup2", "Has",
];

pub fn tn_list(n: &Node, unk: &mut usize) -> String {
    let mut s = String::from("[");
    for (i, x) in n.as_slice().iter().enumerate() {
        if i > 0 {
            s.push(';');
        }
        s.push_str(&tn(x, unk));
    }
    s.push(']');
    s
}

fn tn_prim(name: &str, unk: &mut usize) -> String {
    if let Some(rest) = name.strip_prefix("TransposeN(") {
        let k: i64 = rest.trim_end_matches(')').parse().unwrap_or(0);
        return format!("(TP (P_TransposeN ({k})))");
    }
    if PNAMES.contains(&name) {
        format!("(TP P_{name})")
    } else {
        *unk += 1;
        "TOther".into()
    }
}

fn tn_op(sn: &SigNode, unk: &mut usize) -> String {
    format!("{} {} {}", sn.sig.args(), sn.sig.outputs(), tn_list(&sn.node, unk))
}

pub fn tn(n: &Node, unk: &mut usize) -> String {
    match n {
        Node::Push(v) => {
            if v.rank() == 0 {
                let x = match v {
                    Value::Num(a) => a.elements().next().copied(),
                    Value::Byte(a) => a.elements().next().map(|b| *b as f64),
                    _ => None,
                };
                if let Some(x) = x {
                    if x.fract() == 0.0 && x.abs() < 1e15 {
                        return format!("(TPush ({})%Z)", x as i64);
                    }
                }
            }
            *unk += 1;
            "TOther".into()
        }
        Node::Prim(p, _) => tn_prim(&format!("{p:?}"), unk),
        Node::ImplPrim(p, _) => tn_prim(&format!("{p:?}"), unk),
        Node::Run(_) => format!("(TRun {})", tn_list(n, unk)),
        Node::Mod(p, args, _) => match (p, args.as_slice()) {
            (Primitive::Dip, [f]) => format!("(TDip {})", tn_list(&f.node, unk)),
            (Primitive::Both, [f]) => format!("(TBoth {})", tn_op(f, unk)),
            (Primitive::Bracket, [f, g]) => format!("(TBracket {} {})", tn_op(f, unk), tn_op(g, unk)),
            (Primitive::Rows, [f]) => format!("(TRows {})", tn_op(f, unk)),
            (Primitive::On, [f]) => format!("(TOn {})", tn_op(f, unk)),
            (Primitive::By, [f]) => format!("(TBy {})", tn_op(f, unk)),
            (Primitive::Fill, [fl, f]) => format!("(TFill {} {})", tn_list(&fl.node, unk), tn_list(&f.node, unk)),
            _ => {
                *unk += 1;
                "TOther".into()
            }
        },
        Node::ImplMod(p, args, _) => match (p, args.as_slice()) {
            (ImplPrimitive::UnBothImpl(sub), [f]) if sub.side.is_none() && sub.num.is_none() => format!("(TUnBoth {})", tn_op(f, unk)),
            (ImplPrimitive::BothImpl(sub), [f]) if sub.side.is_none() && sub.num.is_none() => format!("(TBoth {})", tn_op(f, unk)),
            (ImplPrimitive::UnBracket, [f, g]) => format!("(TUnBracket {} {})", tn_op(f, unk), tn_op(g, unk)),
            (ImplPrimitive::DipN(k), [f]) => format!("(TDipN {k} {})", tn_list(&f.node, unk)),
            _ => {
                *unk += 1;
                "TOther".into()
            }
        },
        Node::PushUnder(k, _) => format!("(TPushU {k})"),
        Node::CopyToUnder(k, _) => format!("(TCopyU {k})"),
        Node::PopUnder(k, _) => format!("(TPopU {k})"),
        _ => {
            *unk += 1;
            "TOther".into()
        }
    }
}

// ---------------------------------------------------------------- semantic tie (Model/Invert.v trun ~ interpreter)

/// a value as a term of Model/Prims.v `arr` (integer-valued numbers, characters, boxes of such), or None
fn arr_term(v: &Value) -> Option<String> {
    fn elems(v: &Value) -> Option<(String, Vec<String>)> {
        Some(match v {
            Value::Num(a) => {
                let mut out = Vec::new();
                for x in a.elements() {
                    if x.fract() != 0.0 || x.abs() >= 9e15 || (*x == 0.0 && x.is_sign_negative()) {
                        return None;
                    }
                    out.push(format!("ENum ({})", *x as i64));
                }
                ("TNum".into(), out)
            }
            Value::Byte(a) => ("TNum".into(), a.elements().map(|x| format!("ENum ({x})")).collect()),
            Value::Char(a) => ("TChar".into(), a.elements().map(|c| format!("EChar {}%N", *c as u32)).collect()),
            Value::Box(a) => {
                let mut out = Vec::new();
                for b in a.elements() {
                    let (t, d) = elems(&b.0)?;
                    let sh: Vec<String> = b.0.shape.iter().map(|d| d.to_string()).collect();
                    out.push(format!("EBox {t} [{}]%nat [{}]", sh.join(";"), d.join(";")));
                }
                ("TBox".into(), out)
            }
            _ => return None,
        })
    }
    let (t, d) = elems(v)?;
    let sh: Vec<String> = v.shape.iter().map(|d| d.to_string()).collect();
    Some(format!("(Arr {t} [{}]%nat [{}])", sh.join(";"), d.join(";")))
}

/// run catalogue terms and their inverses on the real interpreter and print (template, stack in, stack out)
/// for Coq to replay with [trun]
fn sem_tie(r: &mut Rng, n: usize) {
    let d2 = depth2();
    let mut emitted = 0;
    let mut tries = 0;
    while emitted < n && tries < n * 30 {
        tries += 1;
        let t = if tries % 4 == 0 { gen_term(r, 3) } else { r.pick(&d2).clone() };
        let Some(src) = t.src(0) else { continue };
        let seed = r.next();
        let name = t.name();
        let lines = fresh_thread(move || {
            let mut out = Vec::new();
            let mut r = Rng::new(seed);
            let Ok(ti) = compile_term(&src) else { return out };
            let mut unk = 0usize;
            let f_tn = tn_list(&ti.f, &mut unk);
            if unk > 0 {
                return out;
            }
            let un = ti.un.clone().ok();
            for _ in 0..3 {
                let x = gen_args(&mut r, ti.sig.args());
                let Ok(y) = run_node(&ti.asm, &ti.f, &x) else { continue };
                let (Some(xs), Some(ys)) = (x.iter().rev().map(arr_term).collect::<Option<Vec<_>>>(), y.iter().rev().map(arr_term).collect::<Option<Vec<_>>>()) else { continue };
                out.push(format!("{{\"sem\":{},\"tn\":{},\"ins\":{},\"outs\":{}}}", jstr(&name), jstr(&f_tn), jstr(&format!("[{}]", xs.join(";"))), jstr(&format!("[{}]", ys.join(";")))));
                // and the emitted inverse on the result
                if let Some(u) = &un {
                    let mut unk2 = 0usize;
                    let u_tn = tn_list(u, &mut unk2);
                    if unk2 == 0 {
                        if let Ok(x2) = run_node(&ti.asm, u, &y) {
                            if let Some(x2s) = x2.iter().rev().map(arr_term).collect::<Option<Vec<_>>>() {
                                out.push(format!("{{\"sem\":{},\"tn\":{},\"ins\":{},\"outs\":{}}}", jstr(&format!("°{name}")), jstr(&u_tn), jstr(&format!("[{}]", ys.join(";"))), jstr(&format!("[{}]", x2s.join(";")))));
                            }
                        }
                    }
                }
            }
            out
        });
        for l in lines {
            println!("{l}");
            emitted += 1;
        }
    }
    println!("{{\"summary\":true,\"emitted\":{emitted},\"tries\":{tries}}}");
}

// ---------------------------------------------------------------- running

pub fn fresh_thread<R: Send + 'static>(f: impl FnOnce() -> R + Send + 'static) -> R {
    // the inversion engine memoises per thread (C12): one thread per term keeps results history-free
    std::thread::Builder::new().stack_size(64 << 20).spawn(f).unwrap().join().unwrap()
}

/// run a node with the given values pushed (last = top); returns the stack bottom first
pub fn run_node(asm: &uiua::Assembly, node: &Node, args: &[Value]) -> Result<Vec<Value>, String> {
    let mut asm = asm.clone();
    asm.root = node.clone();
    let mut env = uiua::Uiua::with_safe_sys().with_execution_limit(std::time::Duration::from_secs(5));
    for a in args {
        env.push(a.clone());
    }
    match catch(|| env.run_asm(asm).map_err(|e| e.to_string())) {
        Ok(Ok(())) => Ok(env.take_stack()),
        Ok(Err(e)) => Err(e),
        Err(p) => Err(format!("PANIC: {p}")),
    }
}

pub fn gv(r: &mut Rng, kind: usize, shape: &[usize], depth: usize) -> Value {
    let n = shape_len(shape);
    match kind {
        0 => {
            let d: Vec<f64> = (0..n).map(|_| if r.chance(1, 6) { r.range(-300, 70000) as f64 } else { r.range(-3, 5) as f64 }).collect();
            num(shape, &d)
        }
        1 => {
            let d: Vec<u8> = (0..n).map(|_| if r.chance(1, 5) { r.below(256) as u8 } else { r.below(3) as u8 }).collect();
            byte(shape, &d)
        }
        2 => {
            let d: Vec<char> = (0..n).map(|_| *r.pick(&['a', 'b', 'z', ' ', 'é', 'λ', '0'])).collect();
            chars(shape, &d)
        }
        3 => {
            let d: Vec<uiua::Complex> = (0..n).map(|_| uiua::Complex::new(r.range(-3, 4) as f64, r.range(-2, 3) as f64)).collect();
            cplx(shape, &d)
        }
        _ => {
            let d: Vec<Value> = (0..n)
                .map(|_| {
                    let k = if depth >= 1 { r.below(4) } else { r.below(5) };
                    let sh = gshape(r, 2);
                    gv(r, k, &sh, depth + 1)
                })
                .collect();
            boxes(shape, d)
        }
    }
}

pub fn gshape(r: &mut Rng, max_rank: usize) -> Vec<usize> {
    let rank = r.below(max_rank + 1);
    (0..rank).map(|_| if r.chance(1, 10) { 0 } else { 1 + r.below(3) }).collect()
}

/// `n` stack values; neighbours often share type and shape (or are a row of one another)
pub fn gen_args(r: &mut Rng, n: usize) -> Vec<Value> {
    let mut out: Vec<Value> = Vec::new();
    let mut kind = *r.pick(&[0usize, 0, 0, 1, 2, 3, 4]);
    let mut shape = gshape(r, 3);
    for i in 0..n {
        if i > 0 {
            match r.below(6) {
                0 => {
                    kind = *r.pick(&[0usize, 0, 1, 2, 3, 4]);
                    shape = gshape(r, 3);
                }
                1 => {
                    if !shape.is_empty() {
                        shape.remove(0);
                    }
                }
                2 => shape.insert(0, 1 + r.below(3)),
                3 => {
                    if kind == 1 {
                        kind = 0
                    } else if kind == 0 {
                        kind = 1
                    }
                }
                _ => {}
            }
            if shape.len() > 3 {
                shape.truncate(3);
            }
        }
        out.push(gv(r, kind, &shape, 0));
    }
    out
}

pub fn show(vs: &[Value]) -> String {
    let mut s = String::new();
    for (i, v) in vs.iter().enumerate() {
        if i > 0 {
            s.push_str(" | ");
        }
        let t = match v {
            Value::Num(_) => "num",
            Value::Byte(_) => "byte",
            Value::Char(_) => "char",
            Value::Complex(_) => "complex",
            Value::Box(_) => "box",
        };
        let _ = write!(s, "{t}{:?}:{}", v.shape.iter().collect::<Vec<_>>(), v.show().replace('\n', "⏎"));
    }
    s
}

fn same(a: &[Value], b: &[Value]) -> bool {
    a.len() == b.len() && a.iter().zip(b).all(|(x, y)| x == y && x.shape == y.shape)
}

struct TermInfo {
    /// the operand exactly as the compiler hands it to the inversion engine
    f: Node,
    /// what the compiler made of `°F`
    un: Result<Node, String>,
    asm: uiua::Assembly,
    sig: uiua::Signature,
}

/// compile `°(F)`: the compiler keeps the operand and its inverse in a CustomInverse node
fn compile_term(src: &str) -> Result<TermInfo, String> {
    let asm = compile(&format!("# Experimental!\n°({src})\n"), uiua::PreEvalMode::Lazy)?;
    match asm.root.as_slice() {
        [Node::CustomInverse(cust, _)] if cust.un.is_some() => {
            let sn = cust.un.clone().unwrap();
            let un = match &cust.normal {
                Ok(n) => Ok(n.node.clone()),
                Err(e) => Err(e.to_string()),
            };
            Ok(TermInfo { f: sn.node.clone(), un, sig: sn.sig, asm })
        }
        _ => {
            // the inverse was itself a custom inverse: fall back to the plain operand
            let asm = compile(&format!("# Experimental!\n{src}\n"), uiua::PreEvalMode::Lazy)?;
            let f = asm.root.clone();
            let sig = f.sig().map_err(|e| e.to_string())?;
            let un = match catch(|| f.un_inverse(&asm)) {
                Ok(Ok(u)) => Ok(u),
                Ok(Err(e)) => Err(e.to_string()),
                Err(p) => Err(format!("PANIC: {p}")),
            };
            Ok(TermInfo { f, un, asm, sig })
        }
    }
}

fn sigs(n: &Node) -> String {
    match catch(|| n.sig()) {
        Ok(Ok(s)) => jstr(&coq_sig(s)),
        _ => "null".into(),
    }
}

fn export_term(t: &T, out: &mut Vec<String>) {
    let Some(src) = t.src(0) else { return };
    let name = t.name();
    let depth = t.depth();
    let line = fresh_thread(move || {
        let ti = match compile_term(&src) {
            Ok(ti) => ti,
            Err(e) => return format!("{{\"term\":{},\"src\":{},\"compile_error\":{}}}", jstr(&name), jstr(&src), jstr(&e)),
        };
        let mut s = format!("{{\"term\":{},\"src\":{},\"depth\":{depth}", jstr(&name), jstr(&src));
        let mut ex = Export::new();
        let mut unk = 0usize;
        let _ = write!(s, ",\"f\":{},\"f_sig\":{},\"f_tn\":{}", jstr(&ex.node(&ti.f)), sigs(&ti.f), jstr(&tn_list(&ti.f, &mut unk)));
        let _ = write!(s, ",\"f_unk\":{unk}");
        match ti.un.clone() {
            Ok(u) => {
                let mut unk = 0usize;
                let tnl = tn_list(&u, &mut unk);
                let _ = write!(s, ",\"un\":{},\"un_sig\":{},\"un_tn\":{},\"un_unk\":{unk}", jstr(&ex.node(&u)), sigs(&u), jstr(&tnl));
                match catch(|| u.un_inverse(&ti.asm)) {
                    Ok(Ok(uu)) => {
                        let mut unk = 0usize;
                        let tnl = tn_list(&uu, &mut unk);
                        let _ = write!(s, ",\"unun\":{},\"unun_sig\":{},\"unun_tn\":{},\"unun_unk\":{unk}", jstr(&ex.node(&uu)), sigs(&uu), jstr(&tnl));
                    }
                    Ok(Err(e)) => {
                        let _ = write!(s, ",\"unun_error\":{}", jstr(&e.to_string()));
                    }
                    Err(p) => {
                        let _ = write!(s, ",\"unun_panic\":{}", jstr(&p));
                    }
                }
            }
            Err(e) => {
                let _ = write!(s, ",\"un_error\":{}", jstr(&e));
            }
        }
        if ti.sig.args() >= 2 {
            if let Ok(Ok(a)) = catch(|| ti.f.anti_inverse(&ti.asm)) {
                let _ = write!(s, ",\"anti\":{},\"anti_sig\":{}", jstr(&ex.node(&a)), sigs(&a));
            }
        }
        let _ = write!(s, ",\"opaque\":{}}}", ex.opaque);
        s
    });
    out.push(line);
}

#[derive(Default)]
struct Stats {
    evals: usize,
    in_dom: usize,
    out_dom: usize,
    left_checked: usize,
    right_checked: usize,
    right_random_checked: usize,
    unun_checked: usize,
    anti_checked: usize,
    chain_terms_skipped: usize,
    unun_node_agree: usize,
    unun_node_differ: usize,
    anti_both_fail: usize,
    no_inverse: usize,
    compile_fail: usize,
    by_depth: [usize; 6],
    by_kind: [usize; 5],
    by_rank: [usize; 4],
}

fn viol(law: &str, term: &str, src: &str, input: &[Value], detail: &str) {
    println!(
        "{{\"violation\":{},\"term\":{},\"src\":{},\"input\":{},\"detail\":{}}}",
        jstr(law),
        jstr(term),
        jstr(src),
        jstr(&show(input)),
        jstr(detail)
    );
}

fn kind_of(v: &Value) -> usize {
    match v {
        Value::Num(_) => 0,
        Value::Byte(_) => 1,
        Value::Char(_) => 2,
        Value::Complex(_) => 3,
        Value::Box(_) => 4,
    }
}

fn search_term(t: &T, seed: u64, per: usize, st: &mut Stats) {
    let Some(src) = t.src(0) else { return };
    let gsrc = t.src(1).unwrap_or_default();
    let isrc = t.src(2);
    let jc = join_class(t);
    if jc == Some("chain") {
        st.chain_terms_skipped += 1;
        return;
    }
    let name = match jc {
        Some(c) => format!("{}#join:{c}", t.name()),
        None => t.name(),
    };
    let depth = t.depth();
    let res = fresh_thread(move || {
        let mut st = Stats::default();
        let mut r = Rng::new(seed);
        let ti = match compile_term(&src) {
            Ok(ti) => ti,
            Err(_) => {
                st.compile_fail += 1;
                return st;
            }
        };
        let un = match ti.un.clone() {
            Ok(u) => u,
            _ => {
                st.no_inverse += 1;
                return st;
            }
        };
        let unun = catch(|| un.un_inverse(&ti.asm)).ok().and_then(|x| x.ok());
        let usrc = format!("°({src})");
        let uusrc = format!("°°({src})");
        let (a, o) = (ti.sig.args(), ti.sig.outputs());
        st.by_depth[depth.min(5)] += 1;
        // fixed corpus: the reproducing inputs of the known findings are exercised on every run
        let mut fixed: Vec<Vec<Value>> = match name.split('#').next().unwrap_or("") {
            "seq[dip(neg),join]" => vec![vec![num(&[1], &[4.0]), Value::from(3.0)]],
            "seq[neg,sub2]" => vec![vec![chars(&[2], &[' ', '0'])]],
            "seq[sub2,mul2]" => vec![vec![Value::from(7.0)]],
            _ => vec![],
        };
        for _ in 0..per + fixed.len() {
            let x = match fixed.pop() {
                Some(x) => x,
                None => gen_args(&mut r, a),
            };
            st.evals += 1;
            // domain: the guarded term succeeds
            let y = match run_uiua_with(&gsrc, &x) {
                Ok(y) => y,
                Err(e) => {
                    if e.starts_with("PANIC") {
                        viol("panic", &name, &gsrc, &x, &e);
                    }
                    st.out_dom += 1;
                    continue;
                }
            };
            st.in_dom += 1;
            for v in &x {
                st.by_kind[kind_of(v)] += 1;
                st.by_rank[v.rank().min(3)] += 1;
            }
            if y.len() != o {
                viol("arity", &name, &src, &x, &format!("F left {} values, signature says {o}", y.len()));
                continue;
            }
            // left law on the source-level inverse and on the engine's node
            match run_uiua_with(&usrc, &y) {
                Ok(x2) => {
                    st.left_checked += 1;
                    if !same(&x2, &x) {
                        viol("left", &name, &usrc, &x, &format!("°F F x = {} but x = {}", show(&x2), show(&x)));
                    }
                }
                Err(e) => viol("left", &name, &usrc, &x, &format!("°F fails on F x = {}: {e}", show(&y))),
            }
            match run_node(&ti.asm, &un, &y) {
                Ok(x2) => {
                    if !same(&x2, &x) {
                        viol("left-node", &name, &usrc, &x, &format!("un_inverse(F) on F x = {} but x = {}", show(&x2), show(&x)));
                    }
                }
                Err(e) => viol("left-node", &name, &usrc, &x, &format!("un_inverse(F) fails on F x: {e}")),
            }
            // right law on y = F x
            match run_uiua_with(&format!("{src} {usrc}"), &y) {
                Ok(y2) => {
                    st.right_checked += 1;
                    if !same(&y2, &y) {
                        viol("right", &name, &src, &x, &format!("F °F y = {} but y = {}", show(&y2), show(&y)));
                    }
                }
                Err(e) => viol("right", &name, &src, &x, &format!("F °F fails on y = {}: {e}", show(&y))),
            }
            // °°F behaves like F (source level: the compiler's own double inverse; node level: inverse of the inverse)
            match run_uiua_with(&uusrc, &x) {
                Ok(y2) => {
                    st.unun_checked += 1;
                    if !same(&y2, &y) {
                        viol("unun", &name, &uusrc, &x, &format!("°°F x = {} but F x = {}", show(&y2), show(&y)));
                    }
                }
                Err(e) => viol("unun", &name, &uusrc, &x, &format!("°°F fails where F succeeds: {e}")),
            }
            if let Some(uu) = &unun {
                // informational only: inverting the emitted inverse again is not something the compiler does
                match run_node(&ti.asm, uu, &x) {
                    Ok(y2) if same(&y2, &y) => st.unun_node_agree += 1,
                    _ => st.unun_node_differ += 1,
                }
            }
        }
        // right law on arbitrary y of the range (decided by the range guards)
        if let Some(isrc) = isrc {
            for _ in 0..per {
                let y = gen_args(&mut r, o);
                st.evals += 1;
                let Ok(x) = run_uiua_with(&isrc, &y) else { continue };
                match run_uiua_with(&src, &x) {
                    Ok(y2) => {
                        st.right_random_checked += 1;
                        if !same(&y2, &y) {
                            viol("right-range", &name, &src, &y, &format!("F °F y = {} but y = {}", show(&y2), show(&y)));
                        }
                    }
                    Err(e) => viol("right-range", &name, &src, &y, &format!("F fails on °F y = {}: {e}", show(&x))),
                }
            }
        }
        st
    });
    st.evals += res.evals;
    st.in_dom += res.in_dom;
    st.out_dom += res.out_dom;
    st.left_checked += res.left_checked;
    st.right_checked += res.right_checked;
    st.right_random_checked += res.right_random_checked;
    st.unun_checked += res.unun_checked;
    st.unun_node_agree += res.unun_node_agree;
    st.unun_node_differ += res.unun_node_differ;
    st.no_inverse += res.no_inverse;
    st.compile_fail += res.compile_fail;
    for i in 0..6 {
        st.by_depth[i] += res.by_depth[i];
    }
    for i in 0..5 {
        st.by_kind[i] += res.by_kind[i];
    }
    for i in 0..4 {
        st.by_rank[i] += res.by_rank[i];
    }
}

/// Powers through the algebra solver (compile/algebra.rs Expr::pow, 19b72c7): `°(ⁿk …)` and `⍜(ⁿk …)` for
/// small and huge whole k on non-negative inputs; results are compared up to rounding (roots are not exact),
/// and every program must finish quickly (inverting a power must not take time proportional to k).
fn search_power(st: &mut Stats) -> usize {
    let small = ["ⁿ2", "ⁿ3", "ⁿ4", "ⁿ10", "ⁿ2×2", "ⁿ3×2", "ⁿ10×2", "+1ⁿ2×3", "ⁿ2+1", "×2ⁿ2"];
    let huge = ["ⁿ1024×1", "ⁿ1025×1", "ⁿ5000×1", "ⁿ1e6×1", "ⁿ1e9×1", "ⁿ1e9", "ⁿ1e15"];
    let mut n = 0;
    let close = |a: &[Value], b: &[Value]| {
        a.len() == b.len()
            && a.iter().zip(b).all(|(x, y)| {
                x.shape == y.shape
                    && {
                        let fx: Vec<f64> = match x { Value::Num(a) => a.elements().copied().collect(), Value::Byte(a) => a.elements().map(|b| *b as f64).collect(), _ => return false };
                        let fy: Vec<f64> = match y { Value::Num(a) => a.elements().copied().collect(), Value::Byte(a) => a.elements().map(|b| *b as f64).collect(), _ => return false };
                        fx.iter().zip(&fy).all(|(p, q)| (p - q).abs() <= 1e-9 * (1.0 + p.abs().max(q.abs())))
                    }
            })
    };
    for (fs, xs) in small.iter().map(|f| (*f, "[0 1 2 3]")).chain(huge.iter().map(|f| (*f, "[0 1]"))) {
        n += 1;
        let (fsrc, xsrc) = (fs.to_string(), xs.to_string());
        let name = format!("directed:power:{fs}");
        let (tx, rx) = std::sync::mpsc::channel();
        let name2 = name.clone();
        std::thread::Builder::new()
            .stack_size(64 << 20)
            .spawn(move || {
                let mut out: Vec<(String, String, Vec<Value>, String)> = Vec::new();
                let mut cnt = [0usize; 3];
                if let Ok(x) = run_uiua(&xsrc) {
                    if let Ok(y) = run_uiua_with(&format!("({fsrc})"), &x) {
                        cnt[0] += 1;
                        for (law, prog, arg, want) in [
                            ("left", format!("°({fsrc})"), &y, &x),
                            ("right", format!("({fsrc}) °({fsrc})"), &y, &y),
                            ("get-put", format!("⍜({fsrc})(×1)"), &x, &x),
                        ] {
                            match run_uiua_with(&prog, arg) {
                                Ok(got) => {
                                    cnt[1] += 1;
                                    if !close(&got, want) {
                                        out.push((law.to_string(), prog.clone(), x.clone(), format!("got {} but expected {}", show(&got), show(want))));
                                    }
                                }
                                Err(e) => out.push((law.to_string(), prog.clone(), x.clone(), format!("fails: {e}"))),
                            }
                        }
                    }
                }
                let _ = tx.send((out, cnt));
                let _ = name2;
            })
            .unwrap();
        match rx.recv_timeout(std::time::Duration::from_secs(30)) {
            Ok((out, cnt)) => {
                st.evals += 1;
                st.in_dom += cnt[0];
                st.left_checked += cnt[1];
                for (law, prog, x, detail) in out {
                    viol(&law, &name, &prog, &x, &detail);
                }
            }
            Err(_) => viol("hang", &name, fs, &[], "compiling or running the inverse of the power did not finish within 30 s"),
        }
    }
    n
}

/// Regression inputs of repaired defects that are not catalogue terms
fn search_regress(st: &mut Stats) -> usize {
    let mut n = 0;
    // 9a425ad: anti must refuse a function whose trailing un-inversion leaves nodes over (gave 4.5)
    for (src, want) in [("⌝(⁅+) 1 5.5", "No inverse found")] {
        n += 1;
        st.evals += 1;
        let src2 = src.to_string();
        let res = fresh_thread(move || run_uiua(&format!("# Experimental!\n{src2}")));
        match res {
            Err(e) if e.contains(want) => {}
            other => viol("regression", "directed:regression:anti-leftover", src, &[], &format!("expected the error '{want}', got {:?}", other.map(|v| show(&v)))),
        }
    }
    // 261768c: the anti cache is keyed on for_un: ⌝ℂ 1 and °(ℂ 1) must not depend on which was compiled first
    let (a, b) = ("⌝ℂ 1 ℂ0 5", "°(ℂ 1) ℂ0 5");
    let run_seq = |order: Vec<&'static str>| {
        fresh_thread(move || order.iter().map(|s| (s.to_string(), run_uiua(s).map(|v| show(&v)))).collect::<Vec<_>>())
    };
    let alone_a = run_seq(vec![a]);
    let alone_b = run_seq(vec![b]);
    let ab = run_seq(vec![a, b]);
    let ba = run_seq(vec![b, a]);
    n += 2;
    st.evals += 6;
    let norm = |r: &Result<String, String>| match r {
        Ok(v) => format!("ok {v}"),
        Err(e) => format!("err {}", e.split(':').last().unwrap_or("").trim()),
    };
    if norm(&ab[0].1) != norm(&alone_a[0].1) || norm(&ba[1].1) != norm(&alone_a[0].1) {
        viol("regression", "directed:regression:anti-cache-for-un", a, &[], &format!("alone {:?}, first {:?}, second {:?}", alone_a[0].1, ab[0].1, ba[1].1));
    }
    if norm(&ab[1].1) != norm(&alone_b[0].1) || norm(&ba[0].1) != norm(&alone_b[0].1) {
        viol("regression", "directed:regression:anti-cache-for-un", b, &[], &format!("alone {:?}, second {:?}, first {:?}", alone_b[0].1, ab[1].1, ba[0].1));
    }
    n
}

/// Arithmetic chains that reach the algebra solver (compile/algebra.rs algebraic_inverse): every chain
/// of 2 steps and chains of 3 steps over steps x -> m*x + k with every sign / magnitude class of the
/// net slope and zero / non-zero net constant; exact on the (binary) inputs used.  Numbers only: on
/// characters the re-derivation is the known finding C03-algebra-chars.
const ARITH: &[(&str, f64, f64)] = &[
    ("+1", 1.0, 1.0), ("-1", 1.0, -1.0), ("+2", 1.0, 2.0), ("-2", 1.0, -2.0),
    ("×2", 2.0, 0.0), ("÷2", 0.5, 0.0), ("×¯2", -2.0, 0.0), ("÷¯2", -0.5, 0.0),
    ("¯", -1.0, 0.0), ("¬", -1.0, 1.0), ("˜-5", -1.0, 5.0), ("×¯1", -1.0, 0.0),
];

fn slope_class(b: f64, c: f64) -> usize {
    let sc = if b > 1.0 { 0 } else if b == 1.0 { 1 } else if b > 0.0 { 2 } else if b > -1.0 { 3 } else if b == -1.0 { 4 } else { 5 };
    sc * 2 + if c == 0.0 { 0 } else { 1 }
}

/// returns (chains run, chains without an inverse, chains per class [slope >1, =1, (0,1), (-1,0), =-1, <-1] x [c = 0, c != 0])
fn search_arith(r: &mut Rng, three_step_sample: usize, st: &mut Stats) -> (usize, usize, [usize; 12]) {
    let mut chains: Vec<Vec<usize>> = Vec::new();
    for a in 0..ARITH.len() {
        for b in 0..ARITH.len() {
            chains.push(vec![a, b]);
        }
    }
    let mut three: Vec<Vec<usize>> = Vec::new();
    for a in 0..ARITH.len() {
        for b in 0..ARITH.len() {
            for c in 0..ARITH.len() {
                three.push(vec![a, b, c]);
            }
        }
    }
    for i in (1..three.len()).rev() {
        let j = r.below(i + 1);
        three.swap(i, j);
    }
    three.truncate(three_step_sample.min(three.len()));
    chains.extend(three);
    let inputs = ["5", "[0 1 ¯3]", "[2_4 6_8]", "=1[1 0 1]", "¯0.5"];
    let mut classes = [0usize; 12];
    let (mut ran, mut noinv) = (0, 0);
    for ch in chains {
        let (mut b, mut c) = (1.0f64, 0.0f64);
        let mut parts: Vec<&str> = Vec::new();
        for &i in &ch {
            let (src, m, k) = ARITH[i];
            b *= m;
            c = m * c + k;
            parts.push(src);
        }
        parts.reverse(); // source is written right to left
        let fsrc = parts.join("");
        classes[slope_class(b, c)] += 1;
        ran += 1;
        let res = fresh_thread(move || {
            let mut st = Stats::default();
            let name = format!("directed:arith:{fsrc}");
            let usrc = format!("°({fsrc})");
            if compile(&format!("# Experimental!\n{usrc}\n"), uiua::PreEvalMode::Lazy).is_err() {
                st.no_inverse += 1;
                return st;
            }
            for xs in inputs {
                let Ok(x) = run_uiua(xs) else { continue };
                st.evals += 1;
                let Ok(y) = run_uiua_with(&format!("({fsrc})"), &x) else { continue };
                st.in_dom += 1;
                // the model of the chain itself: y = b*x + c (guards the bookkeeping of the classes)
                match run_uiua_with(&usrc, &y) {
                    Ok(x2) => {
                        st.left_checked += 1;
                        if !same(&x2, &x) {
                            viol("left", &name, &usrc, &x, &format!("°F F x = {} but x = {} (net slope {b}, constant {c})", show(&x2), show(&x)));
                        }
                    }
                    Err(e) => viol("left", &name, &usrc, &x, &format!("°F fails on F x = {}: {e}", show(&y))),
                }
                match run_uiua_with(&format!("({fsrc}) {usrc}"), &y) {
                    Ok(y2) => {
                        st.right_checked += 1;
                        if !same(&y2, &y) {
                            viol("right", &name, &fsrc, &x, &format!("F °F y = {} but y = {} (net slope {b}, constant {c})", show(&y2), show(&y)));
                        }
                    }
                    Err(e) => viol("right", &name, &fsrc, &x, &format!("F °F fails on y = {}: {e}", show(&y))),
                }
                match run_uiua_with(&format!("°°({fsrc})"), &x) {
                    Ok(y2) => {
                        st.unun_checked += 1;
                        if !same(&y2, &y) {
                            viol("unun", &name, &fsrc, &x, &format!("°°F x = {} but F x = {}", show(&y2), show(&y)));
                        }
                    }
                    Err(e) => viol("unun", &name, &fsrc, &x, &format!("°°F fails where F succeeds: {e}")),
                }
            }
            st
        });
        noinv += res.no_inverse;
        st.evals += res.evals;
        st.in_dom += res.in_dom;
        st.left_checked += res.left_checked;
        st.right_checked += res.right_checked;
        st.unun_checked += res.unun_checked;
    }
    (ran, noinv, classes)
}

/// Directed families around un-join (JoinPat): functions written literally with the inputs given as
/// uiua source (pushed by running it).  The engine's convention (un.rs JoinPat invert_inner, since
/// 2e21ff6): a bare `⊙⊂` link of a chain of joins gives its part back as a one-row list, every other
/// dipped piece is inverted as it is (so its first part comes back as a row).  The inputs follow that
/// convention and bypass the block guards.  Every entry is a regression: the classes name the repaired
/// findings (join-dip: 8f54207; nonchain: 2e21ff6; segment-order: 6d27c00).
const DIRECTED: &[(&str, &str, &str)] = &[
    ("regression:join-dip", "⊂⊙¯", "3 [¯4]"),
    ("regression:join-dip", "⊂⊙(-2)", "3 [1]"),
    ("regression:join-dip", "⊂⊙⇌", "1 [2 3]"),
    ("regression:join-dip", "⊂¯⊙¯", "3 [4]"),
    ("regression:join-dip", "⊂⊙(+1¯)", "3 [4 5]"),
    ("regression:join-chain", "⊂⊙⊂", "1 [2] [3 4]"),
    ("regression:join-chain", "⊂⊙(⊂⊙¯)", "1 2 [3 4]"),
    ("regression:join-chain", "⊂⊙⊂⊙⊙¯", "1 [2] [3 4]"),
    ("regression:join-prefix", "⊂+1¯", "3 [4]"),
    ("regression:join-prefix", "⊂¬⊙¯+1", "3 [4]"),
    ("regression:nonchain", "⊂⊙(¯⊂)", "1 2 [3 4]"),
    ("regression:nonchain", "⊂⊙(⊂¯)", "1 2 [3 4]"),
    ("regression:nonchain", "⊂⊙(⇌⊂)", "1 2 [3 4]"),
    ("regression:nonchain", "⊂⊙(⊂⊙⊂)", "1 2 [3] [4 5]"),
    ("regression:nonchain", "⊂⊙⊟", "[1 2] [3 4] [5 6]"),
    ("regression:segment-order", "⊂+1⊙¯¯", "3 [4]"),
    ("regression:segment-order", "⊂-2⊙⇌¯", "3 [4 5]"),
];

fn search_directed(st: &mut Stats) -> usize {
    let mut n = 0;
    for (class, fsrc, xsrc) in DIRECTED {
        let (class, fsrc, xsrc) = (class.to_string(), fsrc.to_string(), xsrc.to_string());
        let res = fresh_thread(move || {
            let mut st = Stats::default();
            let name = format!("directed:{class}:{fsrc}");
            let Ok(x) = run_uiua(&xsrc) else { return st };
            st.evals += 1;
            let y = match run_uiua_with(&format!("({fsrc})"), &x) {
                Ok(y) => y,
                Err(e) => {
                    viol("directed-setup", &name, &fsrc, &x, &format!("F fails on the directed input: {e}"));
                    return st;
                }
            };
            st.in_dom += 1;
            let usrc = format!("°({fsrc})");
            match run_uiua_with(&usrc, &y) {
                Ok(x2) => {
                    st.left_checked += 1;
                    if !same(&x2, &x) {
                        viol("left", &name, &usrc, &x, &format!("°F F x = {} but x = {}", show(&x2), show(&x)));
                    }
                    match run_uiua_with(&format!("({fsrc})"), &x2) {
                        Ok(y2) => {
                            st.right_checked += 1;
                            if !same(&y2, &y) {
                                viol("right", &name, &fsrc, &x, &format!("F °F y = {} but y = {}", show(&y2), show(&y)));
                            }
                        }
                        Err(e) => viol("right", &name, &fsrc, &x, &format!("F fails on °F y = {}: {e}", show(&x2))),
                    }
                }
                Err(e) => viol("left", &name, &usrc, &x, &format!("°F fails on F x = {}: {e}", show(&y))),
            }
            st
        });
        st.evals += res.evals;
        st.in_dom += res.in_dom;
        st.left_checked += res.left_checked;
        st.right_checked += res.right_checked;
        n += 1;
    }
    n
}

/// ⌝F a b = °(F a) b for the dyadic blocks (both sides may fail, but then both must)
fn search_anti(seed: u64, per: usize, st: &mut Stats) {
    for (di, (dname, dsrc)) in DYADS.iter().enumerate() {
        let dsrc = dsrc.to_string();
        let dname = dname.to_string();
        let res = fresh_thread(move || {
            let mut st = Stats::default();
            let mut r = Rng::new(seed ^ (di as u64 * 7919));
            let Ok(ti) = compile_term(&dsrc) else {
                st.compile_fail += 1;
                return st;
            };
            let asrc = format!("⌝({dsrc})");
            for _ in 0..per {
                let ab = gen_args(&mut r, 2); // [b, a], a on top
                st.evals += 1;
                let lhs = run_uiua_with(&asrc, &ab);
                let mut fa = Node::new_push(ab[1].clone());
                fa.push(ti.f.clone());
                let rhs = match catch(|| fa.un_inverse(&ti.asm)) {
                    Ok(Ok(u)) => run_node(&ti.asm, &u, &ab[..1]),
                    Ok(Err(e)) => Err(format!("no inverse: {e}")),
                    Err(p) => Err(format!("PANIC: {p}")),
                };
                match (&lhs, &rhs) {
                    (Ok(l), Ok(rr)) => {
                        st.anti_checked += 1;
                        if !same(l, rr) {
                            viol("anti", &dname, &asrc, &ab, &format!("⌝F a b = {} but °(F a) b = {}", show(l), show(rr)));
                        }
                    }
                    (Err(_), Err(_)) => st.anti_both_fail += 1,
                    (Ok(l), Err(e)) => viol("anti", &dname, &asrc, &ab, &format!("⌝F a b = {} but °(F a) b fails: {e}", show(l))),
                    (Err(e), Ok(rr)) => viol("anti", &dname, &asrc, &ab, &format!("⌝F a b fails ({e}) but °(F a) b = {}", show(rr))),
                }
            }
            st
        });
        st.evals += res.evals;
        st.anti_checked += res.anti_checked;
        st.anti_both_fail += res.anti_both_fail;
    }
}

fn main() {
    let mode = std::env::args().nth(1).unwrap_or_default();
    let n: usize = std::env::args().nth(2).and_then(|s| s.parse().ok()).unwrap_or(200);
    let mut r = Rng::new(seed_from_env());
    match mode.as_str() {
        "dump" => {
            let what = std::env::args().nth(2).unwrap_or_default();
            let terms: Vec<T> = if what == "2" { depth2() } else { leaves() };
            for t in terms {
                let src = t.src(0).unwrap();
                let name = t.name();
                fresh_thread(move || match compile_term(&src) {
                    Ok(ti) => {
                        println!("{name}  {src}  sig {}", ti.sig);
                        println!("    F   = {:?}", ti.f);
                        match ti.un.clone() {
                            Ok(u) => {
                                println!("    °F  = {:?}   sig {:?}", u, u.sig().ok());
                                match u.un_inverse(&ti.asm) {
                                    Ok(uu) => println!("    °°F = {:?}", uu),
                                    Err(e) => println!("    °°F : {e}"),
                                }
                            }
                            Err(e) => println!("    °F : {e}"),
                        }
                        if let Ok(a) = ti.f.anti_inverse(&ti.asm) {
                            println!("    ⌝F  = {:?}   sig {:?}", a, a.sig().ok());
                        }
                    }
                    Err(e) => println!("{name} {src}: compile error {e}"),
                });
            }
        }
        "export" => {
            let mut terms = depth2();
            // deterministic shuffle of the depth-2 closure, leaves first
            let nl = leaves().len();
            for i in (nl + 1..terms.len()).rev() {
                let j = nl + r.below(i + 1 - nl);
                terms.swap(i, j);
            }
            let exhaustive = terms.len();
            let take2 = if n >= exhaustive * 2 { exhaustive } else { (n * 2 / 3).max(nl).min(exhaustive) };
            terms.truncate(take2);
            while terms.len() < n.max(take2) {
                let d = 3 + r.below(2);
                terms.push(gen_term(&mut r, d));
            }
            // the templates of the repaired un-join findings are validated on every run
            let blk = |n: &str| T::B(BLOCKS.iter().position(|b| b.name == n).unwrap());
            terms.push(T::Seq(vec![T::Dip(blk("neg").into()), blk("join")]));
            terms.push(T::Seq(vec![T::Dip(T::Seq(vec![blk("join"), blk("neg")]).into()), blk("join")]));
            terms.push(T::Seq(vec![T::Dip(T::Seq(vec![blk("neg"), blk("join")]).into()), blk("join")]));
            terms.push(T::Seq(vec![T::Dip(T::Seq(vec![blk("join"), blk("reverse")]).into()), blk("join")]));
            terms.push(T::Seq(vec![blk("neg"), T::Dip(blk("neg").into()), blk("add1"), blk("join")]));
            terms.push(T::Seq(vec![blk("neg"), T::Dip(blk("reverse").into()), blk("sub2"), blk("join")]));
            let mut out = Vec::new();
            for t in &terms {
                export_term(t, &mut out);
            }
            for l in out {
                println!("{l}");
            }
            println!("{{\"summary\":true,\"terms\":{},\"depth2_total\":{exhaustive},\"depth2_exported\":{take2}}}", terms.len());
        }
        "search" => {
            let mut st = Stats::default();
            let d2 = depth2();
            let per = 6;
            let mut terms: Vec<T> = leaves();
            let blk = |n: &str| T::B(BLOCKS.iter().position(|b| b.name == n).unwrap());
            terms.push(T::Seq(vec![T::Dip(blk("neg").into()), blk("join")]));
            terms.push(T::Seq(vec![blk("neg"), blk("sub2")]));
            terms.push(T::Seq(vec![blk("sub2"), blk("mul2")]));
            let budget = n / (per * 2);
            // a stratified sample: all leaves, then depth-2 terms, then depth 3 and 4
            let mut i = 0;
            while terms.len() < budget.max(leaves().len()) {
                match i % 3 {
                    0 => terms.push(r.pick(&d2).clone()),
                    1 => terms.push(gen_term(&mut r, 3)),
                    _ => terms.push(gen_term(&mut r, 4)),
                }
                i += 1;
            }
            for (k, t) in terms.iter().enumerate() {
                let seed = r.next();
                let per_t = if k < leaves().len() + 3 { per * 6 } else { per };
                search_term(t, seed, per_t, &mut st);
            }
            search_anti(r.next(), (n / 40).max(20), &mut st);
            let directed = search_directed(&mut st);
            println!("{{\"directed\":true,\"programs\":{directed}}}");
            let powers = search_power(&mut st);
            println!("{{\"power\":true,\"programs\":{powers}}}");
            let regress = search_regress(&mut st);
            println!("{{\"regress\":true,\"programs\":{regress}}}");
            let (ran, noinv, classes) = search_arith(&mut r, (n / 12).max(300), &mut st);
            println!(
                "{{\"arith\":true,\"chains\":{ran},\"without_inverse\":{noinv},\"chains_by_class_slope_gt1_eq1_0to1_m1to0_eqm1_ltm1_x_const_zero_nonzero\":{classes:?}}}"
            );
            println!(
                "{{\"summary\":true,\"terms\":{},\"evaluations\":{},\"in_domain\":{},\"outside_domain_skipped\":{},\"left_checked\":{},\"right_checked\":{},\"right_range_checked\":{},\"unun_checked\":{},\"unun_node_agree\":{},\"unun_node_differ\":{},\"anti_checked\":{},\"anti_both_fail\":{},\"join_chain_terms_skipped\":{},\"no_inverse\":{},\"compile_fail\":{},\"terms_by_depth\":{:?},\"values_by_kind_num_byte_char_complex_box\":{:?},\"values_by_rank\":{:?}}}",
                terms.len(), st.evals, st.in_dom, st.out_dom, st.left_checked, st.right_checked, st.right_random_checked, st.unun_checked,
                st.unun_node_agree, st.unun_node_differ, st.anti_checked, st.anti_both_fail, st.chain_terms_skipped, st.no_inverse, st.compile_fail, st.by_depth, st.by_kind, st.by_rank
            );
        }
        "sem" => sem_tie(&mut r, n),
        _ => eprintln!("usage: c03 dump|export N|search N|sem N"),
    }
}
