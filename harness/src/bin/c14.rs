//! C14: naming code does not change it.
//!   c14 tie N      -> JSON lines: pairs (P, P') of compiled programs, exported as Gallina terms
//!                     (families inline / abstract / macro / module / fillcross), rewrites off
//!   c14 search N   -> P and P' run on the real interpreter, values and error messages compared
//!   c14 corpus N   -> call sites of top-level bindings in tests/ and examples/ inlined textually
//!   c14 names N    -> privacy and rebinding: compile outcomes and results against expectations
use std::collections::BTreeMap;
use uiua::Value;
use uvh::*;

// ------------------------------------------------------------------ program generator

#[derive(Clone, Debug)]
enum It {
    A(String),              // a token
    M(String, Vec<Vec<It>>), // modifier with parenthesised operands
    Sw(Vec<Vec<It>>),       // switch
    P(Vec<It>),             // a parenthesised body written in place
}

fn render(items: &[It]) -> String {
    // items are in execution order; source is right-to-left
    let mut parts: Vec<String> = items.iter().map(render1).collect();
    parts.reverse();
    parts.join(" ")
}
fn render1(it: &It) -> String {
    match it {
        It::A(s) => s.clone(),
        It::M(m, ops) => format!("{m}{}", ops.iter().map(|o| format!("({})", render(o))).collect::<String>()),
        It::Sw(brs) => format!("⨬({})", brs.iter().map(|o| render(o)).collect::<Vec<_>>().join("|")),
        It::P(b) => format!("({})", render(b)),
    }
}

const MONADIC: [&str; 5] = ["¯", "¬", "⌵", "±", "∘"];
const DYADIC: [&str; 10] = ["+", "-", "×", "<", ">", "≠", "≤", "≥", "↥", "↧"];
const A_MONADIC: [&str; 12] = ["⇌", "⊢", "♭", "△", "⧻", "¯", "⍏", "⊸⧻", "⊝", "⇡", "□", "°□"];
const A_DYADIC: [&str; 10] = ["+", "⊂", "⊏", "↙", "↻", "▽", "⊟", "≍", "×", "↯"];
const A_LITS: [&str; 10] = ["[1 2 3]", "[[1 2][3 4]]", "\"abc\"", "2", "[]", "[0 1 0]", "{1 \"ab\"}", "[5]", "1", "[3 1 2]"];

struct Gen {
    nfns: usize,
    arr: bool,
    fill: bool, // may generate ⬚ (only in the fill family)
}

impl Gen {
    fn body(&self, r: &mut Rng, depth: usize, len: usize) -> Vec<It> {
        let mut items = Vec::new();
        for _ in 0..len {
            let k = r.below(100);
            let it = if k < 22 {
                if self.arr { It::A(r.pick(&A_LITS).to_string()) } else { It::A(format!("{}", r.range(0, 4))) }
            } else if k < 34 {
                It::A(if self.arr { r.pick(&A_MONADIC) } else { r.pick(&MONADIC) }.to_string())
            } else if k < 52 {
                It::A(if self.arr { r.pick(&A_DYADIC) } else { r.pick(&DYADIC) }.to_string())
            } else if k < 58 {
                It::A(r.pick(&[".", ":", "◌"]).to_string())
            } else if k < 62 {
                It::A("⍤\"x\"".to_string())
            } else if k < 70 && self.nfns > 0 {
                It::A(format!("F{}", (b'a' + r.below(self.nfns) as u8) as char))
            } else if depth == 0 {
                It::A(format!("{}", r.range(0, 3)))
            } else if k < 90 {
                let ms: &[&str] = if self.arr { &["⊙", "⋅", "⟜", "⊸", "≡", "⍜⊢", "/", "\\", "∩", "⍚"] } else { &["⊙", "⋅", "⟜", "⊸", "⤙", "⤚", "◡", "∩", "⍩"] };
                let m = *r.pick(ms);
                let l = 1 + r.below(3);
                It::M(m.to_string(), vec![self.body(r, depth - 1, l)])
            } else if k < 96 {
                let m = *r.pick(&["⊃", "⊓", "⍣"]);
                let (l1, l2) = (1 + r.below(3), 1 + r.below(3));
                It::M(m.to_string(), vec![self.body(r, depth - 1, l1), self.body(r, depth - 1, l2)])
            } else if !self.arr {
                let (l1, l2) = (1 + r.below(3), 1 + r.below(3));
                It::Sw(vec![self.body(r, depth - 1, l1), self.body(r, depth - 1, l2)])
            } else {
                It::A("⊸⊢".to_string())
            };
            items.push(it);
        }
        items
    }
}

#[derive(Clone)]
struct Prog {
    defs: Vec<(String, Vec<It>)>, // in definition order
    extra: Vec<String>,           // raw definition lines placed after defs (macros)
    main: Vec<It>,
    lits: Vec<String>,
}

impl Prog {
    fn src(&self) -> String {
        let mut s = String::from("# Experimental!\n");
        for (n, b) in &self.defs {
            s.push_str(&format!("{n} ← {}\n", render(b)));
        }
        for e in &self.extra {
            s.push_str(e);
            s.push('\n');
        }
        s.push_str(&format!("{} {}\n", render(&self.main), self.lits.join(" ")));
        s
    }
    fn src_module(&self, private_unused: bool) -> String {
        let mut s = String::from("# Experimental!\n┌─╴Mod\n");
        let main_txt = render(&self.main);
        for (n, b) in &self.defs {
            let arrow = if private_unused && !main_txt.contains(n.as_str()) { "↚" } else { "←" };
            s.push_str(&format!("  {n} {arrow} {}\n", render(b)));
        }
        s.push_str("└─╴\n");
        let mut m = main_txt;
        for (n, _) in &self.defs {
            m = m.replace(n.as_str(), &format!("Mod~{n}"));
        }
        s.push_str(&format!("{} {}\n", m, self.lits.join(" ")));
        s
    }
}

fn gen_prog(r: &mut Rng, arr: bool) -> Prog {
    let nf = 1 + r.below(3);
    let mut defs = Vec::new();
    for i in 0..nf {
        let g = Gen { nfns: i, arr, fill: false };
        let l = 1 + r.below(4);
        defs.push((format!("F{}", (b'a' + i as u8) as char), g.body(r, 2, l)));
    }
    let g = Gen { nfns: nf, arr, fill: false };
    let l = 2 + r.below(6);
    let mut main = g.body(r, 3, l);
    // make sure main calls something
    let pos = r.below(main.len() + 1);
    main.insert(pos, It::A(format!("F{}", (b'a' + r.below(nf) as u8) as char)));
    let lits: Vec<String> = (0..6)
        .map(|_| if arr { r.pick(&A_LITS).to_string() } else { format!("{}", r.range(0, 3)) })
        .collect();
    let _ = g.fill;
    Prog { defs, extra: vec![], main, lits }
}

/// all sequences reachable in a body, addressed by a path of (item index, operand index)
fn seqs<'a>(items: &'a [It], path: Vec<(usize, usize)>, out: &mut Vec<Vec<(usize, usize)>>) {
    out.push(path.clone());
    for (i, it) in items.iter().enumerate() {
        match it {
            It::M(_, ops) | It::Sw(ops) => {
                for (j, o) in ops.iter().enumerate() {
                    let mut p = path.clone();
                    p.push((i, j));
                    seqs(o, p, out);
                }
            }
            It::P(b) => {
                let mut p = path.clone();
                p.push((i, 0));
                seqs(b, p, out);
            }
            It::A(_) => {}
        }
    }
}
fn seq_mut<'a>(items: &'a mut Vec<It>, path: &[(usize, usize)]) -> &'a mut Vec<It> {
    if path.is_empty() {
        return items;
    }
    let (i, j) = path[0];
    match &mut items[i] {
        It::M(_, ops) | It::Sw(ops) => seq_mut(&mut ops[j], &path[1..]),
        It::P(b) => seq_mut(b, &path[1..]),
        It::A(_) => unreachable!(),
    }
}

/// (i) inline one call of a named function by its parenthesised body
fn t_inline(r: &mut Rng, p: &Prog) -> Option<(Prog, String)> {
    let mut q = p.clone();
    // occurrences in main and in later definitions
    let mut places: Vec<(usize, Vec<(usize, usize)>, usize, String)> = Vec::new(); // (where: 0 = main, k+1 = def k)
    let mut scan = |w: usize, items: &Vec<It>| {
        let mut ss = Vec::new();
        seqs(items, vec![], &mut ss);
        let mut items2 = items.clone();
        for path in ss {
            let s = seq_mut(&mut items2, &path).clone();
            for (i, it) in s.iter().enumerate() {
                if let It::A(name) = it {
                    if name.len() == 2 && name.starts_with('F') {
                        places.push((w, path.clone(), i, name.clone()));
                    }
                }
            }
        }
    };
    scan(0, &p.main);
    for (k, (_, b)) in p.defs.iter().enumerate() {
        scan(k + 1, b);
    }
    if places.is_empty() {
        return None;
    }
    let (w, path, i, name) = places[r.below(places.len())].clone();
    let body = p.defs.iter().find(|(n, _)| *n == name)?.1.clone();
    let target = if w == 0 { &mut q.main } else { &mut q.defs[w - 1].1 };
    seq_mut(target, &path)[i] = It::P(body);
    Some((q, format!("call of {name} in {}", if w == 0 { "main".to_string() } else { p.defs[w - 1].0.clone() })))
}

/// (ii) give a sub-expression of main a fresh name and call it
fn t_abstract(r: &mut Rng, p: &Prog) -> Option<(Prog, String)> {
    let mut q = p.clone();
    let mut ss = Vec::new();
    seqs(&p.main, vec![], &mut ss);
    let path = ss[r.below(ss.len())].clone();
    let s = seq_mut(&mut q.main, &path);
    if s.is_empty() {
        return None;
    }
    let i = r.below(s.len());
    let j = i + 1 + r.below(s.len() - i);
    let sub: Vec<It> = s[i..j].to_vec();
    s.splice(i..j, [It::A("Zq".to_string())]);
    let txt = render(&sub);
    q.defs.push(("Zq".to_string(), sub));
    Some((q, format!("abstracted `{txt}`")))
}

const TEMPLATES1: [&str; 6] = ["^0 ^0", "⊙^0", "^0 ⊙^0", "⊃^0 ^0", "⊸^0", "^0 1 ^0"];
const TEMPLATES2: [&str; 5] = ["⊃^0 ^1", "^1 ^0", "⊓^0 ^1", "^0 ^1 ^0", "⍣^0 ^1"];

/// (iii) an index macro call against its expansion written by hand
fn t_macro(r: &mut Rng, p: &Prog) -> Option<(Prog, Prog, String)> {
    let g = Gen { nfns: p.defs.len(), arr: false, fill: false };
    let two = r.chance(1, 3);
    let tmpl = if two { *r.pick(&TEMPLATES2) } else { *r.pick(&TEMPLATES1) };
    let (l0, l1) = (1 + r.below(3), 1 + r.below(3));
    let f0 = render(&g.body(r, 1, l0));
    let f1 = render(&g.body(r, 1, l1));
    let mut a = p.clone();
    let mut b = p.clone();
    let name = if two { "Mq‼" } else { "Mq!" };
    a.extra.push(format!("{name} ← {tmpl}"));
    let call = if two { format!("{name}({f0})({f1})") } else { format!("{name}({f0})") };
    let exp = format!("({})", tmpl.replace("^0", &format!("({f0})")).replace("^1", &format!("({f1})")));
    let pos = r.below(p.main.len() + 1);
    a.main.insert(pos, It::A(call.clone()));
    b.main.insert(pos, It::A(exp));
    Some((a, b, format!("{call} with {name} ← {tmpl}")))
}

// ------------------------------------------------------------------ running

fn err_msg(e: &uiua::UiuaError) -> String {
    match &*e.kind {
        uiua::UiuaErrorKind::Run { message, .. } => message.value.clone(),
        uiua::UiuaErrorKind::Throw(v, ..) => format!("throw {}", v.show()),
        _ => e.to_string(),
    }
}

/// Ok(stack bottom first) or Err((phase, message without location or trace))
fn run_msg(src: &str) -> Result<Vec<Value>, (String, String)> {
    let mut env = uiua::Uiua::with_safe_sys().with_execution_limit(std::time::Duration::from_secs(3));
    let asm = match catch(|| {
        let mut c = uiua::Compiler::new();
        c.load_str(src).map(|c| c.finish()).map_err(|e| err_msg(&e))
    }) {
        Ok(Ok(a)) => a,
        Ok(Err(e)) => return Err(("compile".into(), e)),
        Err(p) => return Err(("panic".into(), p)),
    };
    match catch(|| env.run_asm(asm).map_err(|e| err_msg(&e))) {
        Ok(Ok(())) => Ok(env.take_stack()),
        Ok(Err(e)) => Err(("run".into(), e)),
        Err(p) => Err(("panic".into(), p)),
    }
}

fn show_res(r: &Result<Vec<Value>, (String, String)>) -> String {
    match r {
        Ok(vs) => format!("ok [{}]", vs.iter().map(|v| v.show()).collect::<Vec<_>>().join(" | ")),
        Err((ph, m)) => format!("{ph} error: {m}"),
    }
}

/// error values caught by `try` carry "line:col: " prefixes: locations are not results
fn strip_locs(s: &str) -> String {
    let cs: Vec<char> = s.chars().collect();
    let mut out = String::new();
    let mut i = 0;
    while i < cs.len() {
        if cs[i].is_ascii_digit() && (i == 0 || !cs[i - 1].is_ascii_digit()) {
            let mut j = i;
            while j < cs.len() && cs[j].is_ascii_digit() {
                j += 1;
            }
            if j < cs.len() && cs[j] == ':' {
                let mut k = j + 1;
                while k < cs.len() && cs[k].is_ascii_digit() {
                    k += 1;
                }
                if k > j + 1 && k < cs.len() && cs[k] == ':' {
                    out.push_str("L:C:");
                    i = k + 1;
                    continue;
                }
            }
        }
        out.push(cs[i]);
        i += 1;
    }
    out
}

fn same_res(a: &Result<Vec<Value>, (String, String)>, b: &Result<Vec<Value>, (String, String)>) -> bool {
    match (a, b) {
        (Ok(x), Ok(y)) => x.len() == y.len() && x.iter().zip(y).all(|(u, v)| (u == v && u.shape == v.shape && u.type_name() == v.type_name()) || (u.shape == v.shape && u.type_name() == v.type_name() && strip_locs(&u.show()) == strip_locs(&v.show()) && u.show().contains(':'))),
        (Err((p1, m1)), Err((p2, m2))) => p1 == p2 && (strip_locs(m1) == strip_locs(m2) || p1 == "compile"),
        _ => false,
    }
}

fn compile_quiet(src: &str) -> Result<uiua::Assembly, String> {
    uiua::verif::set_rewrites(false);
    let r = compile(src, uiua::PreEvalMode::Lazy);
    uiua::verif::set_rewrites(true);
    r
}

fn has_const_binding(asm: &uiua::Assembly) -> bool {
    asm.bindings.iter().any(|b| matches!(b.kind, uiua::BindingKind::Const(_)))
}

fn export(asm: &uiua::Assembly) -> Option<(String, String)> {
    let mut ex = Export::new();
    let root = ex.node(&asm.root);
    let funs: Vec<String> = asm.functions.iter().map(|f| ex.node(f)).collect();
    let funs = format!("[{}]", funs.join(";"));
    if root.len() + funs.len() > 30000 {
        return None;
    }
    Some((funs, root))
}

/// every definition compiles to a function: a |0.1 expression bound to a name is a constant,
/// evaluated once when it is bound (binding.rs:487), and not a call
fn defs_are_functions(p: &Prog) -> bool {
    let mut s = String::from("# Experimental!\n");
    for (n, b) in &p.defs {
        s.push_str(&format!("{n} ← {}\n", render(b)));
    }
    match compile_quiet(&s) {
        Ok(asm) => !has_const_binding(&asm),
        Err(_) => false,
    }
}

// ------------------------------------------------------------------ nested index macros

/// body of an index macro, in SOURCE order
#[derive(Clone, Debug)]
enum Mx {
    Tok(String),
    Ph(usize),
    Call(usize, Vec<Vec<Mx>>), // call of an earlier macro with operands
}

struct Mac {
    name: String,
    body: Vec<Mx>,
}

fn mx_src(body: &[Mx], macs: &[Mac]) -> String {
    body.iter()
        .map(|m| match m {
            Mx::Tok(t) => t.clone(),
            Mx::Ph(i) => format!("^{i}"),
            Mx::Call(k, ops) => format!("{}{}", macs[*k].name, ops.iter().map(|o| format!("({})", mx_src(o, macs))).collect::<String>()),
        })
        .collect::<Vec<_>>()
        .join(" ")
}

/// the expansion written by hand: every placeholder replaced by the parenthesised operand text
fn mx_expand(body: &[Mx], args: &[String], macs: &[Mac]) -> String {
    body.iter()
        .map(|m| match m {
            Mx::Tok(t) => t.clone(),
            Mx::Ph(i) => format!("({})", args.get(*i).cloned().unwrap_or_default()),
            Mx::Call(k, ops) => {
                let a: Vec<String> = ops.iter().map(|o| mx_expand(o, args, macs)).collect();
                format!("({})", mx_expand(&macs[*k].body, &a, macs))
            }
        })
        .collect::<Vec<_>>()
        .join(" ")
}

/// index macros nested 2-3 deep whose bodies mention definition-site names, against the by-hand
/// expansion placed in the DEFINING scope; used (a) in the defining scope, (b) through a module
/// path from outside with a same-named outer binding, (c) after the mentioned names were rebound
fn gen_nested_macro(r: &mut Rng) -> Option<(String, String, String, String)> {
    let nh = 1 + r.below(2);
    let helpers: Vec<(String, String)> = (0..nh)
        .map(|i| {
            let op = *r.pick(&["+", "×", "-"]);
            (if i == 0 { "Hx".to_string() } else { "Hy".to_string() }, format!("{op}{}", r.range(2, 9) * if r.chance(1, 2) { 100 } else { 1 }))
        })
        .collect();
    let two = r.chance(1, 3);
    let k_body: Vec<Mx> = if two {
        match r.below(3) {
            0 => vec![Mx::Tok("⊃".into()), Mx::Ph(0), Mx::Ph(1)],
            1 => vec![Mx::Ph(1), Mx::Ph(0)],
            _ => vec![Mx::Tok("⊓".into()), Mx::Ph(0), Mx::Ph(1)],
        }
    } else {
        match r.below(5) {
            0 => vec![Mx::Ph(0), Mx::Ph(0)],
            1 => vec![Mx::Tok("⊙".into()), Mx::Ph(0)],
            2 => vec![Mx::Ph(0), Mx::Tok("⊙".into()), Mx::Ph(0)],
            3 => vec![Mx::Tok("⊃".into()), Mx::Ph(0), Mx::Ph(0)],
            _ => vec![Mx::Tok("⊸".into()), Mx::Ph(0)],
        }
    };
    let mut macs = vec![Mac { name: if two { "Kq‼".into() } else { "Kq!".into() }, body: k_body }];
    let depth = 2 + r.below(2);
    for d in 1..depth {
        let name = if d == 1 { "Jq!" } else { "Lq!" };
        // an operand that mentions a definition-site name
        let operand = |r: &mut Rng, with_ph: bool| -> Vec<Mx> {
            let h = Mx::Tok(helpers[r.below(helpers.len())].0.clone());
            let mut v = vec![h];
            if with_ph {
                let pos = r.below(2);
                v.insert(pos, Mx::Ph(0));
            }
            if r.chance(1, 4) {
                v.push(Mx::Tok((*r.pick(&["¯", "+1", "⌵"])).to_string()));
            }
            v
        };
        let callee = r.below(macs.len());
        let nargs = if macs[callee].name.ends_with('‼') { 2 } else { 1 };
        let mut ops = Vec::new();
        for i in 0..nargs {
            let w = i == 0 || r.chance(1, 2);
            ops.push(operand(r, w));
        }
        let mut body = vec![Mx::Call(callee, ops)];
        if r.chance(1, 3) {
            // a second nested call or a bare helper next to it
            if r.chance(1, 2) {
                body.push(Mx::Tok(helpers[r.below(helpers.len())].0.clone()));
            } else {
                let c2 = r.below(macs.len());
                let n2 = if macs[c2].name.ends_with('‼') { 2 } else { 1 };
                let ops2 = (0..n2).map(|_| { let w = r.chance(1, 2); operand(r, w) }).collect();
                body.insert(0, Mx::Call(c2, ops2));
            }
        }
        macs.push(Mac { name: name.to_string(), body });
    }
    let top = macs.len() - 1;
    let f = (*r.pick(&["×2", "+1", "¯", "-3", "×3 +1"])).to_string();
    let call = format!("{}({f})", macs[top].name);
    let exp = format!("({})", mx_expand(&macs[top].body, &[f.clone()], &macs));
    let lits: Vec<String> = (0..4).map(|_| format!("{}", r.range(1, 9))).collect();
    let lits = lits.join(" ");
    let scenario = r.below(4);
    let in_module = scenario != 2;
    let ind = if in_module { "  " } else { "" };
    let mut defs = String::new();
    for (n, b) in &helpers {
        let arrow = if in_module && r.chance(1, 2) { "↚" } else { "←" };
        defs.push_str(&format!("{ind}{n} {arrow} {b}\n"));
    }
    for m in &macs {
        defs.push_str(&format!("{ind}{} ← {}\n", m.name, mx_src(&m.body, &macs)));
    }
    let outer: String = helpers.iter().map(|(n, _)| format!("{n} ← +7\n")).collect();
    let hdr = "# Experimental!\n";
    let (s1, s2, what) = match scenario {
        0 => (
            // (a) used in the defining scope (a module)
            format!("{hdr}┌─╴Mod\n{defs}  Ra ← {call}\n└─╴\nMod~Ra {lits}\n"),
            format!("{hdr}┌─╴Mod\n{defs}  Ra ← {exp}\n└─╴\nMod~Ra {lits}\n"),
            "in the defining module",
        ),
        1 => (
            // (b) through a module path from outside, with same-named outer bindings
            format!("{hdr}┌─╴Mod\n{defs}└─╴\n{outer}Mod~{call} {lits}\n"),
            format!("{hdr}┌─╴Mod\n{defs}  Ra ← {exp}\n└─╴\n{outer}Mod~Ra {lits}\n"),
            "through a module path, outer bindings of the same names",
        ),
        2 => (
            // (c) after the mentioned names were rebound
            format!("{hdr}{defs}{outer}{call} {lits}\n"),
            format!("{hdr}{defs}Ra ← {exp}\n{outer}Ra {lits}\n"),
            "after the mentioned names were rebound",
        ),
        _ => (
            // (b)+(c): outer bindings exist BEFORE the module as well as after
            format!("{hdr}{outer}┌─╴Mod\n{defs}└─╴\n{outer}Mod~{call} {lits}\n"),
            format!("{hdr}{outer}┌─╴Mod\n{defs}  Ra ← {exp}\n└─╴\n{outer}Mod~Ra {lits}\n"),
            "through a module path, same names bound before and after the module",
        ),
    };
    Some(("nestedmacro".to_string(), s1, s2, format!("{call} nested {depth} deep, {what}; by hand: {exp}")))
}

/// a named function whose body sets its OWN un-fill value (°⬚v F, or the undo half of ⍜⬚v F G),
/// called inside 0-2 enclosing ⬚ contexts, against its body written in place.  The value is set
/// inside the function, so this is not the documented fill-crossing exception: results must agree.
/// (search only: the call is under a fill, where the structural validator keeps it)
fn gen_unfill(r: &mut Rng) -> (String, String, String, String) {
    const BODIES: [(&str, &[&str]); 8] = [
        ("°⬚0↙", &["[1 2 3 0 0]", "[4 0]", "[0 0 0]", "[1 2]", "[[1 0][0 0]]"]),
        ("°⬚1↙", &["[1 2 3 1 1]", "[1 1]", "[2 1 3]"]),
        ("°⬚@ ↙", &["\"ab  \"", "\"  \"", "\"abc\""]),
        ("°⬚0▽", &["[1 1 0 2 2]", "[0 0 1]", "[3 3 3]"]),
        ("⍜⬚0↙(+1)", &["5 [1 2 3]", "2 [1 2 3]", "4 []"]),
        ("⍜⬚0⊏(+1)", &["[0 5] [1 2 3]", "[1 1] [1 2 3]"]),
        ("⍜⬚0↙⇌", &["5 [1 2 3]", "1 [1 2 3]"]),
        ("°⬚0⊂", &["[0 1 2]", "[5]"]),
    ];
    let (body, args) = *r.pick(&BODIES);
    let arg = *r.pick(args);
    let depth = r.below(3);
    let two_level = r.chance(1, 3);
    let mut open = String::new();
    let mut close = String::new();
    for d in 0..depth {
        open.push_str(&format!("⬚{}(", if d == 0 { r.range(5, 9).to_string() } else { "@x".to_string() }));
        close.push(')');
    }
    let defs = if two_level { format!("Fa ← {body}\nFb ← ∘ Fa\n") } else { format!("Fa ← {body}\n") };
    let name = if two_level { "Fb" } else { "Fa" };
    let inl = if two_level { format!("(∘ ({body}))") } else { format!("({body})") };
    (
        "unfill".to_string(),
        format!("# Experimental!\n{defs}{open}{name} {arg}{close}\n"),
        format!("# Experimental!\n{defs}{open}{inl} {arg}{close}\n"),
        format!("{name} ← {body} (sets its own un-fill) called inside {depth} enclosing fill context(s)"),
    )
}

/// one (P, P') pair of a family; None when the transformation does not apply
fn gen_pair(r: &mut Rng, fam: usize, arr: bool) -> Option<(String, String, String, String)> {
    if fam == 5 {
        return gen_nested_macro(r);
    }
    if fam == 6 {
        return Some(gen_unfill(r));
    }
    let p = gen_prog(r, arr);
    if fam != 4 && !defs_are_functions(&p) {
        return None;
    }
    match fam {
        0 => t_inline(r, &p).map(|(q, d)| ("inline".to_string(), p.src(), q.src(), d)),
        1 => t_abstract(r, &p).filter(|(q, _)| defs_are_functions(q)).map(|(q, d)| ("abstract".to_string(), p.src(), q.src(), d)),
        2 => {
            if arr {
                return None;
            }
            t_macro(r, &p).map(|(a, b, d)| ("macro".to_string(), a.src(), b.src(), d))
        }
        3 => {
            let private = r.chance(1, 2);
            Some(("module".to_string(), p.src(), p.src_module(private), format!("definitions moved into a module{}", if private { ", unused ones private" } else { "" })))
        }
        _ => {
            // the documented exception: a fill crosses the boundary
            let bodies = ["↙4", "⊂⊸↙3", "↯2_3", "⬚∘⊟ [7]", "⊟ [7 8]", "+ [1 2 3]", "≡⊂ [1 2]"];
            let b = *r.pick(&bodies);
            let arg = *r.pick(&["[1 2]", "[5]", "[1 2 3 4 5]", "[[1 2][3 4]]"]);
            let fillv = r.range(0, 9);
            Some((
                "fillcross".to_string(),
                format!("# Experimental!\nFa ← {b}\n⬚{fillv}(Fa {arg})\n"),
                format!("# Experimental!\nFa ← {b}\n⬚{fillv}(({b}) {arg})\n"),
                format!("fill {fillv} around a call of Fa ← {b}"),
            ))
        }
    }
}

// ------------------------------------------------------------------ corpus

fn corpus_chunks() -> Vec<(String, String)> {
    let mut out = Vec::new();
    for dir in ["/repo/tests", "/repo/examples"] {
        let Ok(rd) = std::fs::read_dir(dir) else { continue };
        let mut files: Vec<_> = rd.filter_map(|e| e.ok()).map(|e| e.path()).collect();
        files.sort();
        for f in files {
            if f.extension().and_then(|e| e.to_str()) != Some("ua") {
                continue;
            }
            let Ok(text) = std::fs::read_to_string(&f) else { continue };
            for (k, chunk) in text.split("\n\n").enumerate() {
                let c = chunk.trim();
                if c.is_empty() || c.len() > 2500 {
                    continue;
                }
                out.push((format!("{}#{k}", f.file_name().unwrap().to_string_lossy()), format!("# Experimental!\n{c}\n")));
            }
            if text.len() < 30000 {
                out.push((format!("{}#file", f.file_name().unwrap().to_string_lossy()), format!("# Experimental!\n{text}\n")));
            }
        }
    }
    out
}

struct Site {
    name: String,
    body: String,
    start: usize,
    end: usize,
}

/// call sites of single-line, signature-free, non-macro top-level bindings
fn corpus_sites(src: &str) -> Vec<Site> {
    let mut inputs = uiua::Inputs::default();
    let (items, errs, _) = uiua::parse::parse(src, (), &mut inputs);
    if !errs.is_empty() {
        return vec![];
    }
    let mut inputs2 = uiua::Inputs::default();
    let (tokens, lerrs, _) = uiua::lex(src, (), &mut inputs2);
    if !lerrs.is_empty() {
        return vec![];
    }
    // names bound more than once anywhere (any arrow after an identifier) are left alone
    let mut bound: BTreeMap<String, usize> = BTreeMap::new();
    for w in tokens.windows(3) {
        if let uiua::Token::Ident(n) = &w[0].value {
            let arrow = |t: &uiua::Token| matches!(t, uiua::Token::LeftArrow | uiua::Token::LeftStrokeArrow) || matches!(t, uiua::Token::Simple(s) if format!("{s:?}").contains("Equal"));
            if arrow(&w[1].value) || (matches!(w[1].value, uiua::Token::Spaces) && arrow(&w[2].value)) {
                *bound.entry(n.to_string()).or_default() += 1;
            }
        }
    }
    let mut sites = Vec::new();
    for item in &items {
        let uiua::ast::Item::Binding(b) = item else { continue };
        let name = b.name.value.to_string();
        if b.code_macro || b.signature.is_some() || name.contains('!') || name.contains('‼') || bound.get(&name) != Some(&1) {
            continue;
        }
        let code: Vec<_> = b.words.iter().filter(|w| w.value.is_code()).collect();
        let (Some(first), Some(last)) = (code.first(), code.last()) else { continue };
        if first.span.start.line != last.span.end.line || first.span.start.line != b.name.span.start.line {
            continue;
        }
        let body = &src[first.span.start.byte_pos as usize..last.span.end.byte_pos as usize];
        if body.contains('^') || body.contains(name.as_str()) {
            continue;
        }
        let after = last.span.end.byte_pos as usize;
        for (ti, t) in tokens.iter().enumerate() {
            let uiua::Token::Ident(n) = &t.value else { continue };
            let (s, e) = (t.span.start.byte_pos as usize, t.span.end.byte_pos as usize);
            if n.as_str() != name || s < after {
                continue;
            }
            let prev = src[..s].chars().next_back();
            let next = src[e..].chars().next();
            if prev == Some('~') || next == Some('~') || next.is_some_and(|c| "₀₁₂₃₄₅₆₇₈₉₋!‼.ₙ".contains(c)) {
                continue;
            }
            // not the left-hand side of another binding
            let mut k = ti + 1;
            while k < tokens.len() && matches!(tokens[k].value, uiua::Token::Spaces) {
                k += 1;
            }
            if k < tokens.len() && matches!(tokens[k].value, uiua::Token::LeftArrow | uiua::Token::LeftStrokeArrow) {
                continue;
            }
            sites.push(Site { name: name.clone(), body: body.to_string(), start: s, end: e });
        }
    }
    sites
}

// ------------------------------------------------------------------ main

fn main() {
    let mode = std::env::args().nth(1).unwrap_or_default();
    let n: usize = std::env::args().nth(2).and_then(|s| s.parse().ok()).unwrap_or(200);
    let mut r = Rng::new(seed_from_env());
    match mode.as_str() {
        "tie" => {
            let mut emitted = 0;
            let mut tries = 0;
            let mut fams: BTreeMap<String, usize> = BTreeMap::new();
            let mut skipped_const = 0;
            let mut opt_same = 0;
            let mut opt_total = 0;
            while emitted < n && tries < n * 30 {
                tries += 1;
                let fam = if r.chance(1, 25) { 4 } else if r.chance(1, 7) { 5 } else { r.below(4) };
                let arr = r.chance(1, 4);
                let Some((fname, s1, s2, what)) = gen_pair(&mut r, fam, arr) else { continue };
                let (Ok(a1), Ok(a2)) = (compile_quiet(&s1), compile_quiet(&s2)) else { continue };
                if has_const_binding(&a1) || has_const_binding(&a2) {
                    // a |0.1 binding is evaluated once at compile time (binding.rs:487): not a function
                    skipped_const += 1;
                    continue;
                }
                let (Some((f1, r1)), Some((f2, r2))) = (export(&a1), export(&a2)) else { continue };
                // informational: the same pair with the optimiser and push-inlining on
                let mut opt = String::from("null");
                if let (Ok(o1), Ok(o2)) = (compile(&s1, uiua::PreEvalMode::Lazy), compile(&s2, uiua::PreEvalMode::Lazy)) {
                    if let (Some((g1, q1)), Some((g2, q2))) = (export(&o1), export(&o2)) {
                        opt = format!("{{\"funs1\":{},\"root1\":{},\"funs2\":{},\"root2\":{}}}", jstr(&g1), jstr(&q1), jstr(&g2), jstr(&q2));
                        opt_total += 1;
                        if g1 == g2 && q1 == q2 {
                            opt_same += 1;
                        }
                    }
                }
                *fams.entry(fname.clone()).or_default() += 1;
                let same = same_res(&run_msg(&s1), &run_msg(&s2));
                println!(
                    "{{\"fam\":{},\"same_results\":{same},\"arr\":{arr},\"src1\":{},\"src2\":{},\"what\":{},\"funs1\":{},\"root1\":{},\"funs2\":{},\"root2\":{},\"opt\":{opt}}}",
                    jstr(&fname), jstr(&s1), jstr(&s2), jstr(&what), jstr(&f1), jstr(&r1), jstr(&f2), jstr(&r2)
                );
                emitted += 1;
            }
            println!(
                "{{\"summary\":true,\"emitted\":{emitted},\"tries\":{tries},\"skipped_constant_binding\":{skipped_const},\"families\":{},\"opt_pairs\":{opt_total},\"opt_identical_exports\":{opt_same}}}",
                serde_json::to_string(&fams).unwrap()
            );
        }
        "search" => {
            let mut done = 0;
            let mut tries = 0;
            let mut fams: BTreeMap<String, [usize; 4]> = BTreeMap::new(); // pairs, both ok, both error, differ
            let mut samples = 0;
            while done < n && tries < n * 30 {
                tries += 1;
                let fam = if r.chance(1, 25) { 4 } else if r.chance(1, 7) { 5 } else if r.chance(1, 10) { 6 } else { r.below(4) };
                let arr = r.chance(1, 3);
                let Some((fname, s1, s2, what)) = gen_pair(&mut r, fam, arr) else { continue };
                let a = run_msg(&s1);
                if matches!(&a, Err((ph, _)) if ph == "compile") && !r.chance(1, 10) {
                    // mostly look at programs that compile
                    let b = run_msg(&s2);
                    if b.is_ok() || matches!(&b, Err((ph, _)) if ph != "compile") {
                        println!(
                            "{{\"violation\":\"compile-outcome\",\"fam\":{},\"src1\":{},\"src2\":{},\"what\":{},\"res1\":{},\"res2\":{}}}",
                            jstr(&fname), jstr(&s1), jstr(&s2), jstr(&what), jstr(&show_res(&a)), jstr(&show_res(&b))
                        );
                    }
                    continue;
                }
                let b = run_msg(&s2);
                done += 1;
                let e = fams.entry(fname.clone()).or_default();
                e[0] += 1;
                let same = same_res(&a, &b);
                if a.is_ok() && b.is_ok() {
                    e[1] += 1;
                } else if a.is_err() && b.is_err() {
                    e[2] += 1;
                }
                if !same {
                    e[3] += 1;
                    if fname == "fillcross" {
                        if samples < 40 {
                            println!("{{\"documented\":\"fill\",\"src1\":{},\"src2\":{},\"res1\":{},\"res2\":{}}}", jstr(&s1), jstr(&s2), jstr(&show_res(&a)), jstr(&show_res(&b)));
                        }
                    } else {
                        let kind = if matches!(&a, Err((ph, _)) if ph == "panic") || matches!(&b, Err((ph, _)) if ph == "panic") { "panic" } else { "result" };
                        println!(
                            "{{\"violation\":{},\"fam\":{},\"src1\":{},\"src2\":{},\"what\":{},\"res1\":{},\"res2\":{}}}",
                            jstr(kind), jstr(&fname), jstr(&s1), jstr(&s2), jstr(&what), jstr(&show_res(&a)), jstr(&show_res(&b))
                        );
                    }
                } else if samples < 6 {
                    samples += 1;
                    println!("{{\"sample\":true,\"fam\":{},\"src1\":{},\"src2\":{},\"what\":{},\"res\":{}}}", jstr(&fname), jstr(&s1), jstr(&s2), jstr(&what), jstr(&show_res(&a)));
                }
            }
            println!("{{\"summary\":true,\"pairs\":{done},\"tries\":{tries},\"families\":{}}}", serde_json::to_string(&fams).unwrap());
        }
        "corpus" => {
            let chunks = corpus_chunks();
            let mut sites_total = 0;
            let mut pairs = 0;
            let mut both_ok = 0;
            let mut both_err = 0;
            let mut fill_chunks = 0;
            let mut chunks_with_sites = 0;
            let mut order: Vec<usize> = (0..chunks.len()).collect();
            for i in (1..order.len()).rev() {
                let j = r.below(i + 1);
                order.swap(i, j);
            }
            for ci in order {
                if pairs >= n {
                    break;
                }
                let (id, src) = &chunks[ci];
                // impure or caller-dependent chunks: the value of a name is fixed when it is bound
                if ["⚂", "&", "now", "tag", "Track caller", "~ \"", "recur", "↬", "memo", "comptime", "⍥⚂"].iter().any(|k| src.contains(k)) {
                    continue;
                }
                let sites = corpus_sites(src);
                if sites.is_empty() {
                    continue;
                }
                chunks_with_sites += 1;
                sites_total += sites.len();
                let base = run_msg(src);
                if matches!(&base, Err((ph, _)) if ph == "compile") {
                    continue;
                }
                let has_fill = src.contains('⬚');
                if has_fill {
                    fill_chunks += 1;
                }
                // up to 4 sites per chunk
                let mut idx: Vec<usize> = (0..sites.len()).collect();
                for i in (1..idx.len()).rev() {
                    let j = r.below(i + 1);
                    idx.swap(i, j);
                }
                for &si in idx.iter().take(if id.ends_with("#file") { 10 } else { 4 }) {
                    let s = &sites[si];
                    let src2 = format!("{}({}){}", &src[..s.start], s.body, &src[s.end..]);
                    let res2 = run_msg(&src2);
                    pairs += 1;
                    if base.is_ok() && res2.is_ok() {
                        both_ok += 1;
                    } else if base.is_err() && res2.is_err() {
                        both_err += 1;
                    }
                    if !same_res(&base, &res2) {
                        let kind = if has_fill { "documented-fill-candidate" } else { "corpus" };
                        println!(
                            "{{\"{}\":{},\"fam\":\"corpus\",\"id\":{},\"name\":{},\"src1\":{},\"src2\":{},\"what\":{},\"res1\":{},\"res2\":{}}}",
                            if has_fill { "documented" } else { "violation" },
                            jstr(kind), jstr(id), jstr(&s.name), jstr(src), jstr(&src2),
                            jstr(&format!("call of {} at byte {} replaced by ({})", s.name, s.start, s.body)),
                            jstr(&show_res(&base)), jstr(&show_res(&res2))
                        );
                    } else if pairs <= 3 {
                        println!("{{\"sample\":true,\"fam\":\"corpus\",\"id\":{},\"what\":{},\"res\":{}}}", jstr(id), jstr(&format!("call of {} replaced by ({})", s.name, s.body)), jstr(&show_res(&base)[..show_res(&base).len().min(200)].to_string()));
                    }
                }
            }
            println!("{{\"summary\":true,\"chunks\":{},\"chunks_with_sites\":{chunks_with_sites},\"sites\":{sites_total},\"pairs\":{pairs},\"both_ok\":{both_ok},\"both_err\":{both_err},\"chunks_with_fill\":{fill_chunks}}}", chunks.len());
        }
        "names" => {
            // privacy and rebinding: expectations are computed by the generator
            let mut cases = 0;
            let mut bad = 0;
            let mut kinds: BTreeMap<&str, usize> = BTreeMap::new();
            let mut emit = |kind: &'static str, src: String, expect: String, kinds: &mut BTreeMap<&str, usize>, cases: &mut usize, bad: &mut usize| {
                let res = run_msg(&src);
                let got = match &res {
                    Ok(vs) => match ints_of(vs) {
                        Some(v) => format!("ok {v:?}"),
                        None => show_res(&res),
                    },
                    Err((ph, m)) => {
                        if ph == "compile" && m.contains("private") { "private".to_string() } else { format!("{ph} error: {m}") }
                    }
                };
                *kinds.entry(kind).or_default() += 1;
                *cases += 1;
                if got != expect {
                    *bad += 1;
                    println!("{{\"violation\":\"names\",\"kind\":{},\"src\":{},\"expect\":{},\"got\":{}}}", jstr(kind), jstr(&src), jstr(&expect), jstr(&got));
                } else if *cases <= 4 {
                    println!("{{\"sample\":true,\"kind\":{},\"src\":{},\"got\":{}}}", jstr(kind), jstr(&src), jstr(&got));
                }
            };
            emit("rebind", "F ← +1\nG ← F\nF ← ×2\nG 5\n".into(), "ok [6]".into(), &mut kinds, &mut cases, &mut bad);
            // regression (C14-F2, repaired by 22fc111): whether a switch branch is "known to throw" must not
            // depend on whether it is written in place or named; a recursive or a non-throwing named branch stays rigid
            emit("switch-flex-inline", "⨬(¯|3 4 5 ⍤\"x\" 3) 0 5\n".into(), "ok [-5]".into(), &mut kinds, &mut cases, &mut bad);
            emit("switch-flex-named", "Fa ← 3 4 5 ⍤\"x\" 3\n⨬(¯|Fa) 0 5\n".into(), "ok [-5]".into(), &mut kinds, &mut cases, &mut bad);
            emit("switch-flex-aliased-twice", "Fa ← 3 4 5 ⍤\"x\" 3\nFb ← Fa\nFc ← Fb\n⨬(¯|Fc) 0 5\n".into(), "ok [-5]".into(), &mut kinds, &mut cases, &mut bad);
            emit("switch-rigid-recursive", "Fr ← |1.3 ⨬(1 2 3 ◌|Fr -1) ⊸>0\n⨬(¯|Fr) 0 5\n".into(), "compile error: Switch branch's signature |1.3 is incompatible with previous branches |1.1".into(), &mut kinds, &mut cases, &mut bad);
            emit("switch-rigid-named", "Fa ← 3 4 5\n⨬(¯|Fa) 0 5\n".into(), "compile error: Switch branch's signature |0.3 is incompatible with previous branches |1.1".into(), &mut kinds, &mut cases, &mut bad);
            // a module's header import line must not make a private name reachable outside the module
            emit("private-header-import", "┌─╴M ~ F\n  F ↚ +1\n└─╴\nF 5\n".into(), "private".into(), &mut kinds, &mut cases, &mut bad);
            emit("private-header-import", "┌─╴M ~ P\n  P ↚ 5\n└─╴\nP\n".into(), "private".into(), &mut kinds, &mut cases, &mut bad);
            emit("public-header-import", "┌─╴M ~ F\n  F ← +1\n└─╴\nF 5\n".into(), "ok [6]".into(), &mut kinds, &mut cases, &mut bad);
            for _ in 0..n {
                let (a, b, x) = (r.range(1, 9), r.range(2, 9), r.range(0, 9));
                match r.below(9) {
                    0 => emit("rebind-alias", format!("F ← +{a}\nG ← F\nF ← ×{b}\nG {x}\n"), format!("ok [{}]", x + a), &mut kinds, &mut cases, &mut bad),
                    1 => emit("rebind-call", format!("F ← +{a}\nG ← F F\nF ← ×{b}\nG {x}\n"), format!("ok [{}]", x + 2 * a), &mut kinds, &mut cases, &mut bad),
                    2 => emit("rebind-in-module", format!("┌─╴M\n  F ← +{a}\n  G ← +1 F\n└─╴\nF ← ×{b}\nM~G {x}\n"), format!("ok [{}]", x + a + 1), &mut kinds, &mut cases, &mut bad),
                    3 => emit("rebind-const", format!("X ← {a}\nG ← +X\nX ← {b}\nG {x}\n"), format!("ok [{}]", x + a), &mut kinds, &mut cases, &mut bad),
                    4 => emit("rebind-both-visible", format!("F ← +{a}\nG ← F\nF ← ×{b}\n⊃G F {x}\n"), format!("ok [{:?}]", vec![x * b, x + a]).replace("[[", "[").replace("]]", "]"), &mut kinds, &mut cases, &mut bad),
                    5 => {
                        // private name referenced from outside / inside
                        let private = r.chance(1, 2);
                        let arrow = if private { "↚" } else { "←" };
                        emit(if private { "private-outside" } else { "public-outside" }, format!("┌─╴M\n  F {arrow} +{a}\n└─╴\nM~F {x}\n"), if private { "private".into() } else { format!("ok [{}]", x + a) }, &mut kinds, &mut cases, &mut bad)
                    }
                    6 => emit("private-inside", format!("┌─╴M\n  F ↚ +{a}\n  G ← F F\n└─╴\nM~G {x}\n"), format!("ok [{}]", x + 2 * a), &mut kinds, &mut cases, &mut bad),
                    7 => {
                        let private = r.chance(1, 2);
                        let arrow = if private { "↚" } else { "←" };
                        emit(if private { "private-nested" } else { "public-nested" }, format!("┌─╴M\n  ┌─╴N\n    F {arrow} +{a}\n    H ← F\n  └─╴\n  G ← N~H\n└─╴\nM~N~F {x}\n"), if private { "private".into() } else { format!("ok [{}]", x + a) }, &mut kinds, &mut cases, &mut bad)
                    }
                    _ => {
                        // importing a private name by an import line of the module
                        let private = r.chance(1, 2);
                        let arrow = if private { "↚" } else { "←" };
                        emit(if private { "private-import-line" } else { "public-import-line" }, format!("┌─╴M\n  F {arrow} +{a}\n└─╴\nG ← M~F\nG {x}\n"), if private { "private".into() } else { format!("ok [{}]", x + a) }, &mut kinds, &mut cases, &mut bad)
                    }
                }
            }
            println!("{{\"summary\":true,\"cases\":{cases},\"mismatches\":{bad},\"kinds\":{}}}", serde_json::to_string(&kinds).unwrap());
        }
        _ => eprintln!("usage: c14 tie|search|corpus|names N"),
    }
}
