//! C20: the sandboxed backend confines programs; compiling performs no effects.
//!   c20 tables        -> JSON lines: purity/arity of every Primitive, SysOp, ImplPrimitive (by name), modifier kinds
//!   c20 ops N         -> JSON lines: every system function / primitive executed on the RECORDING backend
//!                        (deny-all and canned), observed backend methods; the same under SafeSys
//!   c20 compile N DIR -> JSON lines: generated programs compiled in the four PreEvalModes with the recording
//!                        backend attached to the compiler; call log, scratch directory, open descriptors
//!   c20 gate N        -> JSON lines: exported trees with the implementation's is_pure / is_min_purity(Impure) /
//!                        is_limit_bounded, for the correspondence with coq/Model/Gate.v
//!   c20 session N DIR -> JSON lines: ONE compiler reused over snippets (failing ones first), compared after every
//!                        snippet with a compiler that saw only the successful ones; saved state must be restored
//!   c20 hostdep 0 DIR -> JSON lines: every system function under SafeSys and under a backend without overrides,
//!                        on targets that exist on the host and on ones that do not: same outcome required
//!   c20 items N DIR   -> JSON lines: programs of one item kind each (Gate.citem) with what each mode evaluated and called
//!   c20 one MODE SRC  -> compile one program (replay / experiments)
use std::any::Any;
use std::borrow::Cow;
use std::collections::{BTreeMap, BTreeSet, HashMap};
use std::net::SocketAddr;
use std::path::{Path, PathBuf};
use std::sync::{Arc, Mutex};
use std::time::Duration;

use uiua::{
    AudioStreamFn, BigConstant, BindingKind, Compiler, FfiArg, FfiType, GitTarget, Handle, ImplPrimitive, MetaPtr, Node,
    PreEvalMode, Primitive, Purity, ReadLinesReturnFn, SafeSys, StreamSeek, SysBackend, SysOp, Uiua, Value,
};
use uvh::*;

// ------------------------------------------------------------------ the recording backend

type Log = Arc<Mutex<Vec<(String, String)>>>;

/// A backend that records every call (method name + rendered arguments).  `canned = false`: every
/// fallible method answers Err("not supported (recorder)"); `canned = true`: harmless canned answers so
/// that system functions proceed to their later backend calls.  It touches nothing outside `files`.
struct Rec {
    log: Log,
    canned: bool,
    files: Arc<Mutex<HashMap<PathBuf, Vec<u8>>>>,
}

impl Rec {
    fn new(canned: bool) -> (Self, Log) {
        let log: Log = Default::default();
        (Rec { log: log.clone(), canned, files: Default::default() }, log)
    }
    fn with_files(canned: bool, files: &[(&str, &str)]) -> (Self, Log) {
        let (r, l) = Rec::new(canned);
        for (p, c) in files {
            r.files.lock().unwrap().insert(PathBuf::from(p), c.as_bytes().to_vec());
        }
        (r, l)
    }
    fn rec(&self, m: &str, a: String) {
        self.log.lock().unwrap().push((m.to_string(), a));
    }
    fn r<T>(&self, ok: T) -> Result<T, String> {
        if self.canned { Ok(ok) } else { Err("not supported (recorder)".into()) }
    }
}

fn short(b: &[u8]) -> String {
    let s = String::from_utf8_lossy(&b[..b.len().min(24)]).to_string();
    format!("{}b:{s}", b.len())
}
fn addr() -> SocketAddr {
    "127.0.0.1:1".parse().unwrap()
}

impl SysBackend for Rec {
    fn any(&self) -> &dyn Any {
        self
    }
    fn any_mut(&mut self) -> &mut dyn Any {
        self
    }
    fn save_error_color(&self, _message: String, _colored: String) {
        self.rec("save_error_color", String::new());
    }
    fn output_enabled(&self) -> bool {
        self.rec("output_enabled", String::new());
        true
    }
    fn set_output_enabled(&self, enabled: bool) -> bool {
        self.rec("set_output_enabled", format!("{enabled}"));
        true
    }
    fn print_str_stdout(&self, s: &str) -> Result<(), String> {
        self.rec("print_str_stdout", short(s.as_bytes()));
        self.r(())
    }
    fn print_bytes_stdout(&self, bytes: &[u8]) -> Result<(), String> {
        self.rec("print_bytes_stdout", short(bytes));
        self.r(())
    }
    fn print_str_stderr(&self, s: &str) -> Result<(), String> {
        self.rec("print_str_stderr", short(s.as_bytes()));
        self.r(())
    }
    fn print_bytes_stderr(&self, bytes: &[u8]) -> Result<(), String> {
        self.rec("print_bytes_stderr", short(bytes));
        self.r(())
    }
    fn print_str_trace(&self, s: &str) {
        self.rec("print_str_trace", short(s.as_bytes()));
    }
    fn show(&self, value: Value) -> Result<(), String> {
        self.rec("show", format!("{:?}", value.shape));
        self.r(())
    }
    fn scan_line_stdin(&self) -> Result<Option<String>, String> {
        self.rec("scan_line_stdin", String::new());
        self.r(Some("line".into()))
    }
    fn scan_stdin(&self, count: Option<usize>) -> Result<Vec<u8>, String> {
        self.rec("scan_stdin", format!("{count:?}"));
        self.r(b"ab".to_vec())
    }
    fn scan_until_stdin(&self, delim: &[u8]) -> Result<Vec<u8>, String> {
        self.rec("scan_until_stdin", short(delim));
        self.r(b"ab".to_vec())
    }
    fn set_raw_mode(&self, raw_mode: bool) -> Result<(), String> {
        self.rec("set_raw_mode", format!("{raw_mode}"));
        self.r(())
    }
    fn get_raw_mode(&self) -> Result<bool, String> {
        self.rec("get_raw_mode", String::new());
        self.r(false)
    }
    fn var(&self, name: &str) -> Option<String> {
        self.rec("var", name.into());
        if self.canned { Some("v".into()) } else { None }
    }
    fn term_size(&self) -> Result<(usize, usize), String> {
        self.rec("term_size", String::new());
        self.r((80, 24))
    }
    fn exit(&self, status: i32) -> Result<(), String> {
        self.rec("exit", format!("{status}"));
        Err("not supported (recorder)".into())
    }
    fn file_exists(&self, path: &str) -> bool {
        self.rec("file_exists", path.into());
        self.canned
    }
    fn list_dir(&self, path: &str) -> Result<Vec<String>, String> {
        self.rec("list_dir", path.into());
        self.r(vec!["a".into()])
    }
    fn is_file(&self, path: &str) -> Result<bool, String> {
        self.rec("is_file", path.into());
        self.r(true)
    }
    fn delete(&self, path: &str) -> Result<(), String> {
        self.rec("delete", path.into());
        self.r(())
    }
    fn trash(&self, path: &str) -> Result<(), String> {
        self.rec("trash", path.into());
        self.r(())
    }
    fn read(&self, handle: Handle, count: usize) -> Result<Vec<u8>, String> {
        self.rec("read", format!("{} {count}", handle.0));
        self.r(b"x".to_vec())
    }
    fn read_all(&self, handle: Handle) -> Result<Vec<u8>, String> {
        self.rec("read_all", format!("{}", handle.0));
        self.r(b"HTTP/1.1 200 OK\r\n\r\nbody".to_vec())
    }
    fn read_until(&self, handle: Handle, delim: &[u8]) -> Result<Vec<u8>, String> {
        self.rec("read_until", format!("{} {}", handle.0, short(delim)));
        self.r(b"x".to_vec())
    }
    fn read_lines<'a>(&self, handle: Handle) -> Result<ReadLinesReturnFn<'a>, String> {
        self.rec("read_lines", format!("{}", handle.0));
        Err("not supported (recorder)".into())
    }
    fn write(&self, handle: Handle, contents: &[u8]) -> Result<(), String> {
        self.rec("write", format!("{} {}", handle.0, short(contents)));
        self.r(())
    }
    fn seek(&self, handle: Handle, offset: StreamSeek) -> Result<(), String> {
        let _ = offset;
        self.rec("seek", format!("{}", handle.0));
        self.r(())
    }
    fn create_file(&self, path: &Path) -> Result<Handle, String> {
        self.rec("create_file", path.display().to_string());
        self.r(Handle(10))
    }
    fn open_file(&self, path: &Path, write: bool) -> Result<Handle, String> {
        self.rec(if write { "open_file:w" } else { "open_file:r" }, path.display().to_string());
        self.r(Handle(11))
    }
    fn make_dir(&self, path: &Path) -> Result<(), String> {
        self.rec("make_dir", path.display().to_string());
        self.r(())
    }
    fn file_read_all(&self, path: &Path) -> Result<Vec<u8>, String> {
        self.rec("file_read_all", path.display().to_string());
        if let Some(b) = self.files.lock().unwrap().get(path) {
            return Ok(b.clone());
        }
        self.r(b"data".to_vec())
    }
    fn file_write_all(&self, path: &Path, contents: &[u8]) -> Result<(), String> {
        self.rec("file_write_all", format!("{} {}", path.display(), contents.len()));
        self.r(())
    }
    fn clipboard(&self) -> Result<String, String> {
        self.rec("clipboard", String::new());
        self.r("c".into())
    }
    fn set_clipboard(&self, contents: &str) -> Result<(), String> {
        self.rec("set_clipboard", short(contents.as_bytes()));
        self.r(())
    }
    fn sleep(&self, seconds: f64) -> Result<(), String> {
        self.rec("sleep", format!("{seconds}"));
        self.r(())
    }
    fn allow_thread_spawning(&self) -> bool {
        self.rec("allow_thread_spawning", String::new());
        false
    }
    fn show_gif(&self, gif_bytes: Vec<u8>, _label: Option<&str>) -> Result<(), String> {
        self.rec("show_gif", format!("{}", gif_bytes.len()));
        self.r(())
    }
    fn show_apng(&self, apng_bytes: Vec<u8>, _label: Option<&str>) -> Result<(), String> {
        self.rec("show_apng", format!("{}", apng_bytes.len()));
        self.r(())
    }
    fn play_audio(&self, wave_bytes: Vec<u8>, _label: Option<&str>) -> Result<(), String> {
        self.rec("play_audio", format!("{}", wave_bytes.len()));
        self.r(())
    }
    fn audio_sample_rate(&self) -> u32 {
        self.rec("audio_sample_rate", String::new());
        44100
    }
    fn stream_audio(&self, _f: AudioStreamFn) -> Result<(), String> {
        self.rec("stream_audio", String::new());
        Err("not supported (recorder)".into())
    }
    fn now(&self) -> f64 {
        self.rec("now", String::new());
        std::time::SystemTime::now().duration_since(std::time::UNIX_EPOCH).map(|d| d.as_secs_f64()).unwrap_or(0.0)
    }
    fn tcp_listen(&self, addr: &str) -> Result<Handle, String> {
        self.rec("tcp_listen", addr.into());
        self.r(Handle(12))
    }
    fn tls_listen(&self, addr: &str, _cert: &[u8], _key: &[u8]) -> Result<Handle, String> {
        self.rec("tls_listen", addr.into());
        self.r(Handle(13))
    }
    fn tcp_accept(&self, handle: Handle) -> Result<Handle, String> {
        self.rec("tcp_accept", format!("{}", handle.0));
        self.r(Handle(14))
    }
    fn tcp_connect(&self, addr: &str) -> Result<Handle, String> {
        self.rec("tcp_connect", addr.into());
        self.r(Handle(15))
    }
    fn tls_connect(&self, addr: &str) -> Result<Handle, String> {
        self.rec("tls_connect", addr.into());
        self.r(Handle(16))
    }
    fn tcp_addr(&self, handle: Handle) -> Result<SocketAddr, String> {
        self.rec("tcp_addr", format!("{}", handle.0));
        self.r(addr())
    }
    fn tcp_set_non_blocking(&self, handle: Handle, non_blocking: bool) -> Result<(), String> {
        self.rec("tcp_set_non_blocking", format!("{} {non_blocking}", handle.0));
        self.r(())
    }
    fn tcp_set_read_timeout(&self, handle: Handle, timeout: Option<Duration>) -> Result<(), String> {
        self.rec("tcp_set_read_timeout", format!("{} {timeout:?}", handle.0));
        self.r(())
    }
    fn tcp_set_write_timeout(&self, handle: Handle, timeout: Option<Duration>) -> Result<(), String> {
        self.rec("tcp_set_write_timeout", format!("{} {timeout:?}", handle.0));
        self.r(())
    }
    fn fetch(&self, url: &str) -> Result<Vec<u8>, String> {
        self.rec("fetch", url.into());
        self.r(b"body".to_vec())
    }
    fn udp_bind(&self, addr: &str) -> Result<Handle, String> {
        self.rec("udp_bind", addr.into());
        self.r(Handle(17))
    }
    fn udp_recv(&self, handle: Handle) -> Result<(Vec<u8>, SocketAddr), String> {
        self.rec("udp_recv", format!("{}", handle.0));
        self.r((b"x".to_vec(), addr()))
    }
    fn udp_send(&self, handle: Handle, packet: &[u8], addr: &str) -> Result<(), String> {
        self.rec("udp_send", format!("{} {} {addr}", handle.0, short(packet)));
        self.r(())
    }
    fn udp_set_max_msg_length(&self, handle: Handle, max_len: usize) -> Result<(), String> {
        self.rec("udp_set_max_msg_length", format!("{} {max_len}", handle.0));
        self.r(())
    }
    fn close(&self, handle: Handle) -> Result<(), String> {
        self.rec("close", format!("{}", handle.0));
        self.r(())
    }
    fn invoke(&self, path: &str) -> Result<(), String> {
        self.rec("invoke", path.into());
        self.r(())
    }
    fn run_command_inherit(&self, command: &str, args: &[&str]) -> Result<i32, String> {
        self.rec("run_command_inherit", format!("{command} {args:?}"));
        self.r(0)
    }
    fn run_command_capture(&self, command: &str, args: &[&str]) -> Result<(i32, String, String), String> {
        self.rec("run_command_capture", format!("{command} {args:?}"));
        self.r((0, String::new(), String::new()))
    }
    fn run_command_stream(&self, command: &str, args: &[&str]) -> Result<[Handle; 3], String> {
        self.rec("run_command_stream", format!("{command} {args:?}"));
        self.r([Handle(18), Handle(19), Handle(20)])
    }
    fn change_directory(&self, path: &str) -> Result<(), String> {
        self.rec("change_directory", path.into());
        self.r(())
    }
    fn get_current_directory(&self) -> Result<String, String> {
        self.rec("get_current_directory", String::new());
        self.r("/".into())
    }
    fn webcam_capture(&self, index: usize) -> Result<(), String> {
        self.rec("webcam_capture", format!("{index}"));
        Err("not supported (recorder)".into())
    }
    fn webcam_list(&self) -> Result<Vec<String>, String> {
        self.rec("webcam_list", String::new());
        self.r(vec![])
    }
    fn ffi(&self, file: &str, _result_ty: FfiType, name: &str, _arg_tys: &[FfiArg], _args: Vec<Value>) -> Result<Value, String> {
        self.rec("ffi", format!("{file} {name}"));
        Err("not supported (recorder)".into())
    }
    fn mem_copy(&self, _ptr: MetaPtr, len: usize) -> Result<Value, String> {
        self.rec("mem_copy", format!("{len}"));
        Err("not supported (recorder)".into())
    }
    fn mem_set(&self, _ptr: MetaPtr, idx: usize, _value: Value) -> Result<(), String> {
        self.rec("mem_set", format!("{idx}"));
        Err("not supported (recorder)".into())
    }
    fn mem_free(&self, _ptr: &MetaPtr) -> Result<(), String> {
        self.rec("mem_free", String::new());
        Err("not supported (recorder)".into())
    }
    fn mem_allocate(&self, size: usize) -> Result<Value, String> {
        self.rec("mem_allocate", format!("{size}"));
        Err("not supported (recorder)".into())
    }
    fn load_git_module(&self, url: &str, _target: GitTarget, _subfolder: Option<&str>) -> Result<PathBuf, String> {
        self.rec("load_git_module", url.into());
        Err("not supported (recorder)".into())
    }
    fn timezone(&self) -> Result<f64, String> {
        self.rec("timezone", String::new());
        self.r(0.0)
    }
    fn big_constant(&self, key: BigConstant) -> Result<Cow<'static, [u8]>, String> {
        self.rec("big_constant", format!("{key:?}"));
        Err("not supported (recorder)".into())
    }
}

/// methods the interpreter itself calls for bookkeeping (clock for the execution limit, flags); never an effect
const AMBIENT: [&str; 6] = ["any", "any_mut", "now", "output_enabled", "allow_thread_spawning", "save_error_color"];

fn take_log(log: &Log) -> Vec<(String, String)> {
    std::mem::take(&mut *log.lock().unwrap())
}
fn methods_of(l: &[(String, String)]) -> BTreeSet<String> {
    l.iter().map(|(m, _)| m.clone()).filter(|m| !AMBIENT.contains(&m.as_str())).collect()
}
fn jlist<I: IntoIterator<Item = String>>(xs: I) -> String {
    let v: Vec<String> = xs.into_iter().map(|s| jstr(&s)).collect();
    format!("[{}]", v.join(","))
}
fn pur(p: Purity) -> &'static str {
    match p {
        Purity::Pure => "Pure",
        Purity::Impure => "Impure",
        Purity::Mutating => "Mutating",
    }
}

// ------------------------------------------------------------------ tables

/// id of a primitive node as the spine exporter prints it
fn exported_id(n: &Node) -> u64 {
    let s = Export::new().node(n);
    let s = s.trim_start_matches("(PrimIndet ").trim_start_matches("(Prim ");
    s.split(|c: char| !c.is_ascii_digit()).next().and_then(|d| d.parse().ok()).unwrap_or(0)
}

fn screaming(name: &str) -> String {
    let mut out = String::new();
    for (i, c) in name.chars().enumerate() {
        if c.is_ascii_uppercase() && i > 0 {
            out.push('_');
        }
        out.push(c.to_ascii_uppercase());
    }
    out
}

/// ImplPrimitives reachable by name: unit variants parsed from src/impl_prim.rs and rebuilt through serde,
/// plus samples of the parameterised variants
fn impl_prims() -> (Vec<ImplPrimitive>, Vec<String>) {
    let src = std::fs::read_to_string("/repo/src/impl_prim.rs").unwrap_or_default();
    let mut out = Vec::new();
    let mut missed = Vec::new();
    let mut in_macro = false;
    for line in src.lines() {
        let t = line.trim();
        if t.starts_with("impl_primitive!(") {
            in_macro = true;
            continue;
        }
        if !in_macro || !t.starts_with('(') {
            continue;
        }
        // ( arity , Variant [(types)] [, Purity] ),
        let inner = t.trim_start_matches('(');
        let Some(comma) = inner.find(", ") else { continue };
        let rest = &inner[comma + 2..];
        let name: String = rest.chars().take_while(|c| c.is_ascii_alphanumeric()).collect();
        if name.is_empty() {
            continue;
        }
        let after = &rest[name.len()..];
        if after.starts_with('(') {
            missed.push(name); // parameterised: sampled below
            continue;
        }
        match serde_json::from_str::<ImplPrimitive>(&format!("\"{}\"", screaming(&name))) {
            Ok(p) => out.push(p),
            Err(_) => missed.push(name),
        }
    }
    use ImplPrimitive::*;
    for n in 0..4usize {
        out.extend([OnSub(n), BySub(n), WithSub(n), OffSub(n), ReduceDepth(n), MaxRowCount(n), MaxRank(n), UndoRotate(n)]);
        out.push(StackN { n, inverse: false });
        out.push(StackN { n, inverse: true });
        out.push(UndoReverse { n, all: false });
        out.push(UndoTransposeN(n, 1));
        out.push(EachSub(n as i32));
    }
    out.extend([UndoDeshape(None), UndoDeshape(Some(1))]);
    (out, missed)
}

fn tables() {
    let mut sys_seen = 0;
    for p in Primitive::all() {
        let is_sys = matches!(p, Primitive::Sys(_));
        if is_sys {
            sys_seen += 1;
        }
        let id = exported_id(&Node::Prim(p, 0));
        let sendrecv = matches!(p, Primitive::Send | Primitive::Recv);
        let opt = |x: Option<usize>| x.map(|v| v.to_string()).unwrap_or("null".into());
        println!(
            "{{\"k\":\"prim\",\"id\":{id},\"name\":{},\"dbg\":{},\"pur\":\"{}\",\"sys\":{is_sys},\"sendrecv\":{sendrecv},\"args\":{},\"outs\":{},\"mod\":{}}}",
            jstr(&p.name()),
            jstr(&format!("{p:?}")),
            pur(p.purity()),
            opt(p.args()),
            opt(p.outputs()),
            opt(p.modifier_args())
        );
        if p.modifier_args().is_some() {
            let term = Export::new().modk(&p);
            println!("{{\"k\":\"modk\",\"term\":{},\"pur\":\"{}\",\"name\":{}}}", jstr(&term), pur(p.purity()), jstr(&format!("{p:?}")));
        }
    }
    for op in SysOp::ALL {
        let p = Primitive::Sys(op);
        println!(
            "{{\"k\":\"sysop\",\"id\":{},\"name\":{},\"dbg\":{},\"pur\":\"{}\",\"pur_prim\":\"{}\",\"args\":{},\"outs\":{},\"mod\":{},\"in_all\":{}}}",
            exported_id(&Node::Prim(p, 0)),
            jstr(op.name()),
            jstr(&format!("{op:?}")),
            pur(op.purity()),
            pur(p.purity()),
            op.args(),
            op.outputs(),
            op.modifier_args().map(|v| v.to_string()).unwrap_or("null".into()),
            Primitive::all().any(|q| q == p)
        );
    }
    let (ips, missed) = impl_prims();
    for p in &ips {
        let id = exported_id(&Node::ImplPrim(*p, 0));
        println!(
            "{{\"k\":\"impl\",\"id\":{id},\"dbg\":{},\"pur\":\"{}\",\"mod\":{}}}",
            jstr(&format!("{p:?}")),
            pur(p.purity()),
            p.modifier_args().map(|v| v.to_string()).unwrap_or("null".into())
        );
        if p.modifier_args().is_some() {
            let term = Export::new().implmodk(p);
            println!("{{\"k\":\"modk\",\"term\":{},\"pur\":\"{}\",\"name\":{}}}", jstr(&term), pur(p.purity()), jstr(&format!("{p:?}")));
        }
    }
    println!(
        "{{\"k\":\"summary\",\"prims\":{},\"sys_in_all\":{sys_seen},\"sysops\":{},\"impl\":{},\"impl_not_enumerated\":{}}}",
        Primitive::all().count(),
        SysOp::ALL.len(),
        ips.len(),
        jlist(missed)
    );
}

// ------------------------------------------------------------------ every system function on the recorder

/// candidate argument values: strings, numbers, byte arrays, boxed command lines and handle values obtained
/// from a canned backend
fn arg_pool(scr: &str) -> Vec<(String, Value)> {
    let mut pool: Vec<(String, Value)> = Vec::new();
    let (rec, _log) = Rec::new(true);
    let mut env = Uiua::with_backend(rec).with_execution_limit(Duration::from_secs(2));
    let src = format!(
        "# Experimental!\n\"{scr}/in.txt\"\n\"{scr}\"\n\"127.0.0.1:0\"\n\"HOME\"\n3\n0\n[104 105]\n{{\"true\"}}\n{{\"touch\" \"{scr}/touched\"}}\n&fo \"{scr}/in.txt\"\n&tcpl \"127.0.0.1:0\"\n&tcpc \"127.0.0.1:9\"\n&udpb \"127.0.0.1:0\"\n\"ab\"\n[0.1 0.2]\n"
    );
    let names = ["path", "dir", "addr", "varname", "three", "zero", "bytes", "cmd", "cmd_touch", "hfile", "hlisten", "hsock", "hudp", "str", "nums"];
    if let Ok(Ok(())) = catch(|| env.run_str(&src).map(|_| ()).map_err(|e| e.to_string())) {
        let st = env.take_stack();
        for (n, v) in names.iter().zip(st) {
            pool.push((n.to_string(), v));
        }
    }
    pool
}

fn run_node_on(rec: Rec, log: &Log, node: Node, args: &[Value]) -> (BTreeSet<String>, Vec<(String, String)>, Result<(), String>) {
    let mut env = Uiua::with_backend(rec);
    take_log(log);
    for a in args.iter().rev() {
        env.push(a.clone());
    }
    let r = catch(|| env.exec(node).map_err(|e| e.to_string()));
    let r = match r {
        Ok(x) => x,
        Err(p) => Err(format!("PANIC: {p}")),
    };
    let l = take_log(log);
    (methods_of(&l), l, r)
}

fn ops(n: usize, scr: &str) {
    let mut rng = Rng::new(seed_from_env());
    let pool = arg_pool(scr);
    if pool.len() < 10 {
        println!("{{\"k\":\"error\",\"what\":\"argument pool could not be built\"}}");
    }
    let mut items: Vec<(String, String, Purity, bool, Node, usize)> = Vec::new(); // kind, name, purity, sys, node, args
    for p in Primitive::all() {
        if p.modifier_args().is_some() {
            continue;
        }
        let Some(a) = p.args() else { continue };
        let kind = if matches!(p, Primitive::Sys(_)) { "sys" } else { "prim" };
        items.push((kind.into(), format!("{p:?}"), p.purity(), kind == "sys", Node::Prim(p, 0), a));
    }
    for p in impl_prims().0 {
        if p.modifier_args().is_some() {
            continue;
        }
        let Some(a) = p.args() else { continue };
        items.push(("impl".into(), format!("{p:?}"), p.purity(), false, Node::ImplPrim(p, 0), a));
    }
    let mut runs = 0usize;
    for (kind, name, purity, is_sys, node, nargs) in items {
        // threads and blocking receives are exercised by C13; the recorder forbids spawning anyway
        if matches!(name.as_str(), "Recv" | "Wait" | "Send" | "TryRecv") {
            continue;
        }
        let np = pool.len().max(1);
        let interesting = is_sys || purity != Purity::Pure || nargs <= 1;
        let tries = if !interesting {
            (n / 4).max(2)
        } else {
            match nargs {
                0 => 1,
                1 => np,
                2 => np * np,
                _ => np * np + 20 * n,
            }
        };
        let mut deny: BTreeSet<String> = BTreeSet::new();
        let mut canned: BTreeSet<String> = BTreeSet::new();
        let mut safe_errs: BTreeMap<String, usize> = BTreeMap::new();
        let mut safe_ok = 0usize;
        let mut sample = String::new();
        let mut ok_canned = 0usize;
        for t in 0..tries {
            let args: Vec<Value> = (0..nargs)
                .map(|i| {
                    // first tries: systematic choices, then random
                    let k = if !interesting {
                        rng.below(np)
                    } else if t < np * np && i < 2 {
                        if i == 0 { t % np } else { (t / np) % np }
                    } else {
                        rng.below(np)
                    };
                    pool[k].1.clone()
                })
                .collect();
            let (r1, l1) = Rec::new(false);
            let (m, _, _) = run_node_on(r1, &l1, node.clone(), &args);
            deny.extend(m);
            let (r2, l2) = Rec::new(true);
            let (m, l, res) = run_node_on(r2, &l2, node.clone(), &args);
            if res.is_ok() {
                ok_canned += 1;
            }
            if sample.is_empty() && !m.is_empty() {
                sample = format!("{:?}", l.iter().filter(|(m, _)| !AMBIENT.contains(&m.as_str())).take(4).collect::<Vec<_>>());
            }
            canned.extend(m);
            // the safe backend itself
            if is_sys || purity != Purity::Pure {
                // (only the labelled operations are also run on the safe backend itself)
                let mut env = Uiua::with_backend(SafeSys::new());
                for a in args.iter().rev() {
                    env.push(a.clone());
                }
                let r = catch(|| env.exec(node.clone()).map_err(|e| e.to_string()));
                match r {
                    Ok(Ok(())) => safe_ok += 1,
                    Ok(Err(e)) => {
                        let e = e.lines().next().unwrap_or("").to_string();
                        let cls = if e.contains("not supported") { "not supported".to_string() } else { e.chars().take(60).collect() };
                        *safe_errs.entry(cls).or_default() += 1;
                    }
                    Err(p) => *safe_errs.entry(format!("PANIC {p}")).or_default() += 1,
                }
            }
            runs += 1;
        }
        let errs: Vec<String> = safe_errs.iter().map(|(k, v)| format!("{}:{}", jstr(k), v)).collect();
        println!(
            "{{\"k\":\"op\",\"kind\":\"{kind}\",\"name\":{},\"pur\":\"{}\",\"args\":{nargs},\"tries\":{tries},\"deny\":{},\"canned\":{},\"canned_ok\":{ok_canned},\"safe_ok\":{safe_ok},\"safe_errs\":{{{}}},\"sample\":{}}}",
            jstr(&name),
            pur(purity),
            jlist(deny),
            jlist(canned),
            errs.join(","),
            jstr(&sample)
        );
    }
    // modifiers with a system function or an impure label, through source text
    let mods: [(&str, &str); 8] = [
        ("ReadLines", "&rl∘ &fo \"SCR/in.txt\""),
        ("AudioStream", "&ast(⊂.)"),
        ("Dump", "dump∘ 1 2"),
        ("UnDump", "°dump∘ 1 2"),
        ("Spawn", "wait spawn(+1) 1"),
        ("Pool", "wait pool(+1) 1"),
        ("UnStack", "°? 5"),
        ("Args", "? 5"),
    ];
    for (name, src) in mods {
        let src = format!("# Experimental!\n{}", src.replace("SCR", scr));
        let mut sets = Vec::new();
        for canned in [false, true] {
            let (rec, log) = Rec::new(canned);
            let mut env = Uiua::with_backend(rec).with_execution_limit(Duration::from_secs(2));
            // compile first so that only the run is recorded
            let mut comp = Compiler::with_backend(Rec::new(canned).0);
            comp.pre_eval_mode(PreEvalMode::Lazy);
            let asm = catch(|| comp.load_str(&src).map(|c| c.finish()).map_err(|e| e.to_string()));
            if let Ok(Ok(asm)) = asm {
                take_log(&log);
                let _ = catch(|| env.run_asm(asm).map_err(|e| e.to_string()));
            }
            sets.push(methods_of(&take_log(&log)));
            runs += 1;
        }
        println!(
            "{{\"k\":\"op\",\"kind\":\"mod\",\"name\":{},\"pur\":\"?\",\"args\":0,\"tries\":1,\"deny\":{},\"canned\":{},\"canned_ok\":0,\"safe_ok\":0,\"safe_errs\":{{}},\"sample\":{}}}",
            jstr(name),
            jlist(sets[0].clone()),
            jlist(sets[1].clone()),
            jstr(&src)
        );
    }
    println!("{{\"k\":\"summary\",\"runs\":{runs}}}");
}

// ------------------------------------------------------------------ programs mixing pure code and system functions

/// (label, void form 0->0, value form 0->1, purity class of the system function used)
fn snippets(scr: &str) -> Vec<(String, String, String)> {
    let raw: Vec<(&str, &str, &str)> = vec![
        ("print", "&p \"x\"", "1 &p \"x\""),
        ("printflush", "&pf \"x\"", "1 &pf \"x\""),
        ("eprint", "&ep \"x\"", "1 &ep \"x\""),
        ("show", "&s 1", "1 &s 1"),
        ("fwriteall", "&fwa \"SCR/out.txt\" \"data\"", "1 &fwa \"SCR/out2.txt\" \"data\""),
        ("freadstr", "◌&fras \"SCR/in.txt\"", "&fras \"SCR/in.txt\""),
        ("freadbytes", "◌&frab \"SCR/in.txt\"", "&frab \"SCR/in.txt\""),
        ("fexists", "◌&fe \"SCR/in.txt\"", "&fe \"SCR/in.txt\""),
        ("flistdir", "◌&fld \"SCR\"", "&fld \"SCR\""),
        ("fisfile", "◌&fif \"SCR/in.txt\"", "&fif \"SCR/in.txt\""),
        ("fopen", "◌&fo \"SCR/in.txt\"", "&fo \"SCR/in.txt\""),
        ("fcreate", "◌&fc \"SCR/new.txt\"", "&fc \"SCR/new2.txt\""),
        ("fmkdir", "&fmd \"SCR/newdir\"", "1 &fmd \"SCR/newdir2\""),
        ("fdelete", "&fde \"SCR/victim.txt\"", "1 &fde \"SCR/victim.txt\""),
        ("ftrash", "&ftr \"SCR/victim.txt\"", "1 &ftr \"SCR/victim.txt\""),
        ("var", "◌&var \"HOME\"", "&var \"HOME\""),
        ("envargs", "◌&args", "&args"),
        ("sleep", "&sl 0", "1 &sl 0"),
        ("runcapture", "◌◌◌&runc {\"touch\" \"SCR/touched\"}", "⊙◌⊙◌&runc {\"touch\" \"SCR/touched2\"}"),
        ("runinherit", "◌&runi {\"touch\" \"SCR/touched3\"}", "&runi {\"touch\" \"SCR/touched4\"}"),
        ("chdir", "&cd \"SCR\"", "1 &cd \"SCR\""),
        ("tcplisten", "◌&tcpl \"127.0.0.1:0\"", "&tcpl \"127.0.0.1:0\""),
        ("tcpconnect", "◌&tcpc \"127.0.0.1:9\"", "&tcpc \"127.0.0.1:9\""),
        ("udpbind", "◌&udpb \"127.0.0.1:0\"", "&udpb \"127.0.0.1:0\""),
        ("clipboard", "◌&clip", "&clip"),
        ("setclip", "°&clip \"x\"", "1 °&clip \"x\""),
        ("samplerate", "◌&asr", "&asr"),
        ("termsize", "◌&ts", "&ts"),
        ("scanline", "◌&sc", "&sc"),
        ("exit", "&exit 3", "1 &exit 3"),
        ("invoke", "&invk \"SCR/in.txt\"", "1 &invk \"SCR/in.txt\""),
        ("rawmode", "&raw 0", "1 &raw 0"),
        ("camlist", "◌&camlist", "&camlist"),
        ("now", "◌now", "now"),
        ("rand", "◌⚂", "⚂"),
        ("timezone", "◌timezone", "timezone"),
        ("trace", "◌? 5", "? 5"),
        ("untrace", "◌°? 5", "°? 5"),
        ("dump", "dump∘", "1 dump∘"),
        ("undump", "°dump∘", "1 °dump∘"),
        ("spawn", "◌spawn(&p \"t\")", "spawn(&p \"t\")"),
        ("fetch", "◌&fetch \"http://127.0.0.1:9/x\"", "&fetch \"http://127.0.0.1:9/x\""),
        ("readstr", "◌&rs 3 &fo \"SCR/in.txt\"", "&rs 3 &fo \"SCR/in.txt\""),
        ("write", "&w \"zz\" &fo \"SCR/in.txt\"", "1 &w \"zz\" &fo \"SCR/in.txt\""),
        ("memfree", "&memfree 0", "1 &memfree 0"),
        ("audioplay", "&ap [0 0.1 0]", "1 &ap [0 0.1 0]"),
        ("gifshow", "&gifs 1 [[[0 1][1 0]]]", "1 &gifs 1 [[[0 1][1 0]]]"),
    ];
    raw.into_iter().map(|(l, v, e)| (l.to_string(), v.replace("SCR", scr), e.replace("SCR", scr))).collect()
}

/// (context label, program, explicit comptime?, files served to the import)
fn contexts(r: &mut Rng, void: &str, val: &str, pure1: &str, scr: &str) -> Vec<(String, String, bool)> {
    let mut v: Vec<(&str, String, bool)> = vec![
        ("toplevel", format!("{void}\n{val}"), false),
        ("toplevel-mixed", format!("+ {pure1} {val}\n{pure1}"), false),
        ("function-uncalled", format!("F ← ({void})\nG ← ({val})"), false),
        ("function-called", format!("F ← ({void})\nG ← +1 {val}\nF\nG"), false),
        ("function-args", format!("F ← +{val}\nF 2"), false),
        ("const-binding", format!("X ← {val}\nY ← +1 X"), false),
        ("array", format!("[{val} 1 2]\n{{{val} \"a\"}}"), false),
        ("fill-arg", format!("⬚({val})+ [1] [1 2]"), false),
        ("fill-body", format!("⬚0({void} +) [1] [1 2]"), false),
        ("un", format!("F ← {void}\n°(F ∘) 1"), false),
        ("un-direct", format!("°({void}) \n°({val})"), false),
        ("under", format!("⍜({void} ∘|+1) 1\n⍜(⊂ {val})(⇌) [1]"), false),
        ("anti", format!("⌝(+ {val}) 1"), false),
        ("obverse", format!("F ← ⌅({void}|{void})\nF\n°F"), false),
        ("index-macro", format!("M! ← ^0 ^0\nM!({void})\nN! ← +1 ^0\nN!({val})"), false),
        ("index-macro-body", format!("M! ← ^0 {void}\nM!(+1) 1\nN! ← ^0 {val}\nN!+ 1"), false),
        ("code-macro-body", format!("C! ←^ \"1\" {void} ◌\nC!(+)"), false),
        ("code-macro-body-uncalled", format!("C! ←^ \"1\" {void} ◌"), false),
        ("code-macro-operand", format!("C! ←^ ∘\nC!({void})\nC!({val})"), false),
        ("code-macro-value", format!("C! ←^ $\"_\" {val} ◌\nC!(+)"), false),
        ("comptime", format!("comptime({val})"), true),
        ("memo", format!("memo({val})"), false),
        ("try", format!("⍣({val})0\n⍣({void})({void})"), false),
        ("repeat", format!("⍥({void})2"), false),
        ("rows", format!("≡(+ {val}) [1 2]\n≡⋅({val}) [1 2]"), false),
        ("reduce-table", format!("/(+ ⊙◌ {val} ⊙∘) [1 2 3]"), false),
        ("switch", format!("⨬({void}|{void}) 0\n⨬({val}|{pure1}) 1"), false),
        ("do", format!("⍢(+1 {void}|<2) 0"), false),
        ("pool", format!("wait pool({val})"), false),
        ("test-scope", format!("---\n{void}\n⍤⤙≍ 1 1\n---"), false),
        ("module", format!("┌─╴M\n  F ← {val}\n  X ← {val}\n  {void}\n└─╴\nM~X"), false),
        ("data-def", format!("~D {{A ← {val}}}\nD"), false),
        ("recursive-macro", format!("R! ← ⨬(R!^0 -1|^0 ◌) ≤0 .\nR!({void}) 2\nR!({val}) 1"), false),
        ("recursion", format!("F ← |1 ⨬(F -1 {void}|∘) ≤0 .\nF 2"), false),
        ("import", format!("~ \"{scr}/imp.ua\"\n~ \"{scr}/imp.ua\" ~ F\nF"), false),
        ("strand-pure", format!("{pure1}\n+1 {pure1}"), false),
        ("subscript-both", format!("∩₂(+ {val}) 1 2 3 4"), false),
        ("on-by", format!("⟜(+ {val}) 1\n⊸(+ {val}) 1"), false),
    ];
    // a few random nestings
    let mods = ["⊙", "⋅", "⟜", "⊸", "∩"];
    let m = *r.pick(&mods);
    v.push(("random-nest", format!("{m}({val}) 1 2\n{m}({void} {pure1}) 1 2"), false));
    v.into_iter().map(|(a, b, c)| (a.to_string(), format!("# Experimental!\n{b}\n"), c)).collect()
}

const READ_ONLY: [&str; 16] = [
    "var", "term_size", "file_exists", "list_dir", "is_file", "open_file:r", "file_read_all", "clipboard", "audio_sample_rate",
    "get_raw_mode", "get_current_directory", "webcam_list", "timezone", "big_constant", "set_output_enabled", "tcp_addr",
];

fn modes() -> [(PreEvalMode, &'static str); 4] {
    [(PreEvalMode::Lazy, "Lazy"), (PreEvalMode::Normal, "Normal"), (PreEvalMode::Line, "Line"), (PreEvalMode::Lsp, "Lsp")]
}

fn dir_snapshot(dir: &Path) -> BTreeMap<String, (u64, u64)> {
    fn walk(d: &Path, base: &Path, out: &mut BTreeMap<String, (u64, u64)>) {
        if let Ok(rd) = std::fs::read_dir(d) {
            for e in rd.flatten() {
                let p = e.path();
                let rel = p.strip_prefix(base).unwrap_or(&p).display().to_string();
                if p.is_dir() {
                    out.insert(rel + "/", (0, 0));
                    walk(&p, base, out);
                } else {
                    let bytes = std::fs::read(&p).unwrap_or_default();
                    let mut h: u64 = 0xcbf29ce484222325;
                    for b in &bytes {
                        h ^= *b as u64;
                        h = h.wrapping_mul(0x100000001b3);
                    }
                    out.insert(rel, (bytes.len() as u64, h));
                }
            }
        }
    }
    let mut out = BTreeMap::new();
    walk(dir, dir, &mut out);
    out
}
fn fd_count() -> usize {
    std::fs::read_dir("/proc/self/fd").map(|d| d.count()).unwrap_or(0)
}
fn child_count() -> usize {
    std::fs::read_to_string("/proc/self/task").ok();
    let me = std::process::id();
    let mut n = 0;
    if let Ok(rd) = std::fs::read_dir("/proc") {
        for e in rd.flatten() {
            let name = e.file_name();
            let Some(pid) = name.to_str().and_then(|s| s.parse::<u32>().ok()) else { continue };
            if let Ok(stat) = std::fs::read_to_string(format!("/proc/{pid}/stat")) {
                // pid (comm) state ppid
                if let Some(rest) = stat.rsplit(") ").next() {
                    let mut it = rest.split(' ');
                    it.next();
                    if it.next().and_then(|p| p.parse::<u32>().ok()) == Some(me) {
                        n += 1;
                    }
                }
            }
        }
    }
    n
}

struct CompileOut {
    log: Vec<(String, String)>,
    result: String,
    folded_root: bool,
    root: String,
}

fn compile_with_rec(src: &str, mode: PreEvalMode, files: &[(&str, &str)]) -> CompileOut {
    uiua::verif::c12::set_bypass(uiua::verif::c12::PURITY | uiua::verif::c12::PRE_EVAL);
    let (rec, log) = Rec::with_files(true, files);
    let r = catch(|| {
        let mut c = Compiler::with_backend(rec);
        c.pre_eval_mode(mode);
        c.print_diagnostics(false);
        let res = c.load_str(src).map(|_| ()).map_err(|e| e.to_string());
        let asm = c.finish();
        let root: String = format!("{:?}", asm.root).chars().take(300).collect();
        (res, asm.root.iter().all(|n| matches!(n, Node::Push(_))) && asm.root.len() > 0, root)
    });
    let (result, folded_root, root) = match r {
        Ok((Ok(()), f, root)) => ("ok".to_string(), f, root),
        Ok((Err(e), f, root)) => (format!("error: {}", e.lines().next().unwrap_or("")), f, root),
        Err(p) => (format!("PANIC: {p}"), false, String::new()),
    };
    CompileOut { log: take_log(&log), result, folded_root, root }
}

fn prepare_scratch(scr: &Path) {
    let _ = std::fs::remove_dir_all(scr);
    std::fs::create_dir_all(scr).unwrap();
    std::fs::write(scr.join("in.txt"), "hello file\n").unwrap();
    std::fs::write(scr.join("victim.txt"), "victim\n").unwrap();
}

fn compile_search(n: usize, scratch: &str) {
    let mut rng = Rng::new(seed_from_env());
    let scr_path = PathBuf::from(scratch);
    prepare_scratch(&scr_path);
    let scr = scr_path.display().to_string();
    let snips = snippets(&scr);
    let mut pg = PGen { fns: vec![] };
    let mut compiles = 0usize;
    let mut by_ctx: BTreeMap<String, usize> = BTreeMap::new();
    let mut by_result: BTreeMap<String, usize> = BTreeMap::new();
    let mut nonempty_logs = 0usize;
    let mut folded = 0usize;
    let mut reported: BTreeSet<String> = BTreeSet::new();
    let snap0 = dir_snapshot(&scr_path);
    let fd0 = fd_count();
    let ch0 = child_count();
    let mut round = 0usize;
    'outer: loop {
        for (label, void, val) in &snips {
            let pure1 = {
                let b = pg.body(&mut rng, 1, 2);
                format!("({b}) 1 2 3")
            };
            let pure1 = if round == 0 { "+1 2".to_string() } else { format!("⍣({pure1})0") };
            let imp_src = format!("# Experimental!\nF ← {val}\nG ← ({void})\nX ← {val}\n{void}\n");
            let imp_path = format!("{scr}/imp.ua");
            for (ctx, prog, explicit) in contexts(&mut rng, void, val, &pure1, &scr) {
                for (mode, mname) in modes() {
                    let files = [(imp_path.as_str(), imp_src.as_str())];
                    let fd_before = fd_count();
                    let out = compile_with_rec(&prog, mode, &files);
                    let fd_after = fd_count();
                    compiles += 1;
                    *by_ctx.entry(ctx.clone()).or_default() += 1;
                    let rkey = out.result.split(':').next().unwrap_or("").to_string();
                    *by_result.entry(rkey).or_default() += 1;
                    if out.folded_root {
                        folded += 1;
                    }
                    let ms = methods_of(&out.log);
                    if !ms.is_empty() {
                        nonempty_logs += 1;
                    }
                    // what is allowed
                    let is_import = ctx == "import";
                    let bad: Vec<&(String, String)> = out
                        .log
                        .iter()
                        .filter(|(m, a)| {
                            if AMBIENT.contains(&m.as_str()) || m == "set_output_enabled" {
                                return false;
                            }
                            if is_import && m == "file_read_all" && (a.ends_with("imp.ua") || a.ends_with(".uasm")) {
                                return false; // reading the explicitly imported file (and its cached assembly)
                            }
                            if explicit {
                                return false;
                            }
                            if mname == "Lsp" {
                                return !READ_ONLY.contains(&m.as_str());
                            }
                            true
                        })
                        .collect();
                    if !bad.is_empty() {
                        let bm: BTreeSet<String> = bad.iter().map(|(m, _)| m.clone()).collect();
                        let class = if mname == "Lsp" { "lsp" } else { "default" };
                        let kind = if is_import && bm.iter().all(|m| m == "make_dir" || m == "file_write_all") {
                            "import-cache-write".to_string()
                        } else {
                            format!("compile-effect/{ctx}/{class}")
                        };
                        let sig = format!("{kind}|{label}|{mname}");
                        if reported.insert(sig) {
                            println!(
                                "{{\"k\":\"violation\",\"key\":{},\"ctx\":{},\"snippet\":{},\"mode\":\"{mname}\",\"methods\":{},\"calls\":{},\"program\":{},\"result\":{}}}",
                                jstr(&kind),
                                jstr(&ctx),
                                jstr(label),
                                jlist(bm),
                                jstr(&format!("{:?}", bad.iter().take(4).collect::<Vec<_>>())),
                                jstr(&prog),
                                jstr(&out.result)
                            );
                        }
                    }
                    if out.root.contains("hello file") && !explicit {
                        let sig = format!("bypass|{label}|{mname}");
                        if reported.insert(sig) {
                            println!(
                                "{{\"k\":\"violation\",\"key\":{},\"ctx\":{},\"snippet\":{},\"mode\":\"{mname}\",\"methods\":[],\"calls\":{},\"program\":{},\"result\":{}}}",
                                jstr(&format!("host-file-read-bypassing-supplied-backend/{}", if mname == "Lsp" { "lsp" } else { "default" })),
                                jstr(&ctx),
                                jstr(label),
                                jstr(&format!("the compiled root holds the real file's contents while the supplied backend saw no call: {}", out.root)),
                                jstr(&prog),
                                jstr(&out.result)
                            );
                        }
                    }
                    if fd_after > fd_before {
                        let sig = format!("fd-leak|{label}|{ctx}|{mname}");
                        if reported.insert(sig) {
                            println!(
                                "{{\"k\":\"violation\",\"key\":{},\"ctx\":{},\"snippet\":{},\"mode\":\"{mname}\",\"methods\":[],\"calls\":{},\"program\":{},\"result\":{}}}",
                                jstr(&format!("descriptor-opened-at-compile-time/{}", if mname == "Lsp" { "lsp" } else { "default" })),
                                jstr(&ctx),
                                jstr(label),
                                jstr(&format!("open descriptors {fd_before} -> {fd_after}")),
                                jstr(&prog),
                                jstr(&out.result)
                            );
                        }
                    }
                    if compiles % 97 == 1 {
                        println!(
                            "{{\"k\":\"sample\",\"ctx\":{},\"mode\":\"{mname}\",\"program\":{},\"result\":{},\"log\":{}}}",
                            jstr(&ctx),
                            jstr(&prog),
                            jstr(&out.result),
                            jlist(ms)
                        );
                    }
                    if compiles >= n {
                        break 'outer;
                    }
                }
            }
        }
        round += 1;
    }
    let snap1 = dir_snapshot(&scr_path);
    let changed: Vec<String> = snap1
        .iter()
        .filter(|(k, v)| snap0.get(*k) != Some(v))
        .map(|(k, _)| k.clone())
        .chain(snap0.keys().filter(|k| !snap1.contains_key(*k)).map(|k| format!("-{k}")))
        .collect();
    if !changed.is_empty() {
        println!(
            "{{\"k\":\"violation\",\"key\":\"scratch-directory-changed-by-compiling\",\"ctx\":\"all\",\"snippet\":\"\",\"mode\":\"all\",\"methods\":[],\"calls\":{},\"program\":\"\",\"result\":\"\"}}",
            jstr(&format!("{changed:?}"))
        );
    }
    let ch1 = child_count();
    let ctxs: Vec<String> = by_ctx.iter().map(|(k, v)| format!("{}:{}", jstr(k), v)).collect();
    let ress: Vec<String> = by_result.iter().map(|(k, v)| format!("{}:{}", jstr(k), v)).collect();
    println!(
        "{{\"k\":\"summary\",\"compiles\":{compiles},\"snippets\":{},\"contexts\":{{{}}},\"results\":{{{}}},\"nonempty_logs\":{nonempty_logs},\"folded_roots\":{folded},\"scratch_changed\":{},\"fd_before\":{fd0},\"fd_after\":{},\"children_before\":{ch0},\"children_after\":{ch1}}}",
        snips.len(),
        ctxs.join(","),
        ress.join(","),
        jlist(changed),
        fd_count()
    );
    let _ = std::fs::remove_dir_all(&scr_path);
}


// ------------------------------------------------------------------ sessions: ONE compiler reused over snippets

/// snippets that fail to compile, at various points: (class, source)
fn failing_snippets() -> Vec<(String, String)> {
    let mut v: Vec<(String, String)> = Vec::new();
    // a function operand whose compilation returns Err, in the operand position of each modifier,
    // bare and parenthesised
    let bad_ops: [(&str, &str); 5] = [
        ("unknown-macro", "Tbl!+"),
        ("unknown-ident", "Foo"),
        ("comptime-args", "comptime(+)"),
        ("unknown-macro-nested", "⊙Tbl!+"),
        ("bad-inverse", "°(⊂⊙(⊂⊙⊂))"),
    ];
    let mods: [(&str, &str, &str); 30] = [
        ("fill", "⬚0 ", " 1_2 [3]"),
        ("fill-sided", "⬚⌞0 ", " 1_2 [3]"),
        ("fill-nested", "⬚0 ⬚1 ", " 1_2 [3]"),
        ("fill-in-try", "⍣(⬚0 ", ")0 1_2 [3]"),
        ("try-in-fill", "⬚0 ⍣", "∘ 1_2 [3]"),
        ("fill-value", "⬚", "+ 1_2 [3]"),
        ("under-f", "⍜", "∘ 1"),
        ("under-g", "⍜∘", " 1"),
        ("try", "⍣", "0 1"),
        ("try-handler", "⍣∘", " 1"),
        ("both", "∩", " 1 2"),
        ("rows", "≡", " [1 2]"),
        ("each", "∵", " [1 2]"),
        ("dip", "⊙", " 1 2"),
        ("on", "⟜", " 1"),
        ("by", "⊸", " 1"),
        ("reduce", "/", " [1 2]"),
        ("scan", "\\", " [1 2]"),
        ("table", "⊞", " [1] [2]"),
        ("repeat", "⍥", "2 1"),
        ("do", "⍢", "∘ 1"),
        ("un", "°", " 1"),
        ("anti", "⌝", " 1 2"),
        ("fork", "⊃", "∘ 1"),
        ("bracket", "⊓", "∘ 1 2"),
        ("switch", "⨬(∘|", ") 0 1"),
        ("memo", "memo", " 1"),
        ("comptime", "comptime", " "),
        ("obverse", "⌅(∘|", ") 1"),
        ("spawn", "spawn", " 1"),
    ];
    for (ml, pre, post) in mods {
        for (ol, op) in bad_ops {
            v.push((format!("{ml}/{ol}/bare"), format!("{pre}{op}{post}")));
            v.push((format!("{ml}/{ol}/paren"), format!("{pre}({op}){post}")));
        }
    }
    let misc: [(&str, &str); 14] = [
        ("signature/switch-branches", "⨬(+|¯) 0 1 2"),
        ("signature/repeat", "⍥(1 2)∞"),
        ("signature/fill-noargs", "⬚(+)+ 1 2"),
        ("signature/do", "⍢(1|1)"),
        ("unbalanced/paren", "(+ 1"),
        ("unbalanced/bracket", "[1 2"),
        ("unbalanced/string", "\"abc"),
        ("unbalanced/fill-paren", "⬚0(+ Tbl! 1_2 [3]"),
        ("unknown-ident-toplevel", "Foo 1"),
        ("code-macro-too-deep", "R! ←^ \"R!+\" ◌\nR!+ 1 2"),
        ("index-macro-too-deep", "M! ← M!^0\nM!+ 1 2"),
        ("code-macro-error", "C! ←^ ⍤\"no\"0 ◌\nC!+ 1 2"),
        ("code-macro-bad-output", "C! ←^ \"(\" ◌\nC!+ 1 2"),
        ("index-macro-unknown-inside", "M! ← ^0 Foo\nM!+ 1 2"),
    ];
    for (l, src) in misc {
        v.push((l.to_string(), src.to_string()));
    }
    v
}

/// later snippets: read-only / effectful system calls with constant arguments, and pure probes
fn probe_snippets(scr: &str) -> Vec<(String, String)> {
    let raw: [(&str, &str); 14] = [
        ("freadstr", "&fras \"SCR/in.txt\""),
        ("freadbytes", "&frab \"SCR/in.txt\""),
        ("flistdir", "&fld \"SCR\""),
        ("fexists", "&fe \"SCR/in.txt\""),
        ("fisfile", "&fif \"SCR/in.txt\""),
        ("var", "&var \"HOME\""),
        ("now", "now"),
        ("clipboard", "&clip"),
        ("samplerate", "&asr"),
        ("rand", "⚂"),
        ("pure-line", "+1 2"),
        ("pure-function", "F ← +1 2\nF"),
        ("freadstr-mixed", "⊂ &fras \"SCR/in.txt\" \"x\""),
        ("print", "&p \"x\""),
    ];
    raw.iter().map(|(l, s)| (l.to_string(), s.replace("SCR", scr))).collect()
}

fn mode_name(m: PreEvalMode) -> &'static str {
    match m {
        PreEvalMode::Lazy => "Lazy",
        PreEvalMode::Line => "Line",
        PreEvalMode::Normal => "Normal",
        PreEvalMode::Lsp => "Lsp",
    }
}

fn new_session_compiler(mode: PreEvalMode) -> (Compiler, Log) {
    let (rec, log) = Rec::new(false);
    let mut c = Compiler::with_backend(rec);
    c.pre_eval_mode(mode);
    c.print_diagnostics(false);
    (c, log)
}

/// what a snippet added: the nodes appended to the root and the functions appended to the table
/// (a rejected snippet may leave nodes of its own in the root; they are not the later snippet's)
fn asm_delta(c: &Compiler, root_before: usize, funcs_before: usize) -> String {
    let a = c.assembly();
    let rb = root_before.min(a.root.len());
    let fb = funcs_before.min(a.functions.len());
    let rs: Vec<String> = a.root[rb..].iter().map(|n| format!("{n:?}")).collect();
    let fs: Vec<String> = a.functions.iter().skip(fb).map(|f| format!("{f:?}")).collect();
    // binding indices depend on the bindings rejected snippets left behind; clock and random values differ per run
    // (and are printed with or without an abbreviating ellipsis): every number becomes '#'
    let text = format!("{} || {}", rs.join(", "), fs.join(" | "));
    let mut out = String::new();
    let mut prev_digit = false;
    for ch in text.chars() {
        if ch.is_ascii_digit() {
            if !prev_digit {
                out.push('#');
            }
            prev_digit = true;
        } else if prev_digit && matches!(ch, '.' | '…' | 'e' | 'E' | '¯' | '-') {
            // inside a number: fraction point, the ellipsis of an abbreviated decimal, exponent, sign
        } else {
            out.push(ch);
            prev_digit = false;
        }
    }
    out
}

fn sessions(n: usize, scratch: &str) {
    uiua::verif::c12::set_bypass(uiua::verif::c12::PURITY | uiua::verif::c12::PRE_EVAL);
    let mut rng = Rng::new(seed_from_env() ^ 0x5e55);
    let scr_path = PathBuf::from(scratch);
    prepare_scratch(&scr_path);
    let scr = scr_path.display().to_string();
    let fails = failing_snippets();
    let probes = probe_snippets(&scr);
    // the plan: every failing snippet alone in front of all probes, default mode first; then
    // random sequences of 2-3 failing snippets interleaved with probes
    let mode_order = [PreEvalMode::Normal, PreEvalMode::Lazy, PreEvalMode::Line, PreEvalMode::Lsp];
    let mut plan: Vec<(PreEvalMode, Vec<usize>)> = Vec::new();
    for m in mode_order {
        // the fill / try / macro classes first (they save and restore compiler state)
        let mut idx: Vec<usize> = (0..fails.len()).collect();
        idx.sort_by_key(|i| {
            let l = &fails[*i].0;
            if l.contains("fill") || l.contains("try") || l.contains("macro") || l.contains("comptime") { 0 } else { 1 }
        });
        for i in idx {
            plan.push((m, vec![i]));
        }
    }
    // a leaked macro depth followed by a macro recursion that is too deep (reaches the depth check of `quote`)
    let find = |l: &str| fails.iter().position(|f| f.0 == l).unwrap_or(0);
    let two_step = vec![find("code-macro-bad-output"), find("code-macro-too-deep")];
    plan.insert(0, (PreEvalMode::Normal, two_step.clone()));
    plan.insert(1, (PreEvalMode::Lsp, two_step));
    while plan.len() < n {
        let m = *rng.pick(&mode_order);
        let k = 2 + rng.below(2);
        plan.push((m, (0..k).map(|_| rng.below(fails.len())).collect()));
    }
    plan.truncate(n.max(1));
    let snap0 = dir_snapshot(&scr_path);
    let fd0 = fd_count();
    let mut reported: BTreeSet<String> = BTreeSet::new();
    let (mut nsess, mut steps, mut failed_steps, mut unexpected_ok, mut compares) = (0usize, 0usize, 0usize, 0usize, 0usize);
    let mut by_class: BTreeMap<String, usize> = BTreeMap::new();
    let mut emit = |reported: &mut BTreeSet<String>, key: String, mode: &str, history: &[String], snippet: &str, detail: String| {
        if reported.insert(format!("{key}|{mode}")) {
            println!(
                "{{\"k\":\"violation\",\"key\":{},\"ctx\":\"session\",\"snippet\":{},\"mode\":\"{mode}\",\"methods\":[],\"calls\":{},\"program\":{},\"result\":\"\"}}",
                jstr(&key),
                jstr(snippet),
                jstr(&detail),
                jstr(&history.join("\n-----\n"))
            );
        }
    };
    for (mode, fidx) in plan {
        nsess += 1;
        let mname = mode_name(mode);
        let (mut comp, log) = new_session_compiler(mode);
        let (mut fresh, _flog) = new_session_compiler(mode);
        let mut good: Vec<String> = Vec::new(); // the snippets that compiled, in order
        let mut history: Vec<String> = Vec::new();
        // both compilers start with the experimental header (a successful snippet)
        let _ = comp.load_str("# Experimental!\n");
        let _ = fresh.load_str("# Experimental!\n");
        good.push("# Experimental!\n".to_string());
        // order of steps: failing snippets interleaved with the probes
        let mut seq: Vec<(bool, String, String)> = Vec::new();
        let mut pi = 0usize;
        for (j, fi) in fidx.iter().enumerate() {
            seq.push((true, fails[*fi].0.clone(), fails[*fi].1.clone()));
            if j + 1 < fidx.len() {
                for _ in 0..2 {
                    let p = &probes[pi % probes.len()];
                    pi += 1;
                    seq.push((false, p.0.clone(), p.1.clone()));
                }
            }
        }
        for k in 0..probes.len() {
            let p = &probes[(pi + k) % probes.len()];
            seq.push((false, p.0.clone(), p.1.clone()));
        }
        let first_class = fails[fidx[0]].0.clone();
        let class0: String = first_class.split('/').next().unwrap_or("").to_string();
        *by_class.entry(class0).or_default() += 1;
        let classes: Vec<String> = fidx.iter().map(|i| fails[*i].0.clone()).collect();
        let cls = classes.join("+");
        for (is_fail, label, src) in seq {
            steps += 1;
            take_log(&log);
            let fd_before = fd_count();
            let (rb, fb) = (comp.assembly().root.len(), comp.assembly().functions.len());
            let (frb, ffb) = (fresh.assembly().root.len(), fresh.assembly().functions.len());
            let st_before = comp.verif_session_state();
            let res = catch(|| comp.load_str(&src).map(|_| ()).map_err(|e| e.to_string()));
            let ok = matches!(res, Ok(Ok(())));
            history.push(format!("{} [{}]", src, if ok { "ok" } else { "rejected" }));
            if is_fail {
                if ok {
                    unexpected_ok += 1;
                } else {
                    failed_steps += 1;
                }
            }
            if let Err(p) = &res {
                emit(&mut reported, format!("session/compiler-panicked:{label}"), mname, &history, &src, p.clone());
                break;
            }
            // (1) the saved state is restored on the Ok and on the Err path
            let (m2, in_fill, in_try, depth) = comp.verif_session_state();
            if is_fail && fidx.len() <= 2 {
                println!(
                    "{{\"k\":\"state\",\"class\":{},\"ok\":{ok},\"before\":[\"{}\",{},{},{}],\"after\":[\"{}\",{in_fill},{in_try},{depth}],\"src\":{}}}",
                    jstr(&label), mode_name(st_before.0), st_before.1, st_before.2, st_before.3, mode_name(m2), jstr(&src)
                );
            }
            if m2 != mode {
                emit(&mut reported, format!("session/state-not-restored:pre_eval_mode:{cls}"), mname, &history, &src,
                     format!("pre_eval_mode is {} after the snippet, the embedder set {mname}", mode_name(m2)));
            }
            if in_fill {
                emit(&mut reported, format!("session/state-not-restored:in_fill:{cls}"), mname, &history, &src, "in_fill stays true".into());
            }
            if in_try {
                emit(&mut reported, format!("session/state-not-restored:in_try:{cls}"), mname, &history, &src, "in_try stays true".into());
            }
            if depth != 0 {
                emit(&mut reported, format!("session/state-not-restored:comptime_depth:{cls}"), mname, &history, &src, format!("comptime_depth stays {depth}"));
            }
            // (2) no backend call while compiling
            let l = take_log(&log);
            let bad: Vec<&(String, String)> = l
                .iter()
                .filter(|(m, _)| !AMBIENT.contains(&m.as_str()) && m != "set_output_enabled")
                .filter(|(m, _)| !(mname == "Lsp" && READ_ONLY.contains(&m.as_str())))
                .filter(|_| !label.starts_with("code-macro"))
                .collect();
            if !bad.is_empty() {
                emit(&mut reported, format!("session/compile-effect:{label}"), mname, &history, &src, format!("{:?}", bad.iter().take(4).collect::<Vec<_>>()));
            }
            // (3) no native effect
            let text = asm_delta(&comp, rb, fb);
            if mname != "Lsp" && text.contains("hello file") {
                emit(&mut reported, format!("session/host-file-read-at-compile-time:{cls}"), mname, &history, &src,
                     format!("the assembly holds the real file's contents, the supplied backend saw no call: {}", text.chars().take(200).collect::<String>()));
            }
            if fd_count() > fd_before {
                emit(&mut reported, format!("session/descriptor-opened:{cls}"), mname, &history, &src, format!("{fd_before} -> {}", fd_count()));
            }
            // (4) the same tree as a compiler that saw only the successful snippets
            if ok {
                good.push(src.clone());
                let fr = catch(|| fresh.load_str(&src).map(|_| ()).map_err(|e| e.to_string()));
                if !matches!(fr, Ok(Ok(()))) {
                    // the reference compiler must not see a failure: rebuild it from the successful snippets
                    let (f2, _) = new_session_compiler(mode);
                    fresh = f2;
                    let mut all_ok = true;
                    for g in &good {
                        all_ok &= matches!(catch(|| fresh.load_str(g).map(|_| ()).map_err(|e| e.to_string())), Ok(Ok(())));
                    }
                    if !all_ok {
                        emit(&mut reported, format!("session/accepts-what-a-fresh-compiler-rejects:{label}:{cls}"), mname, &history, &src, format!("{fr:?}"));
                        break;
                    }
                }
                compares += 1;
                let ft = asm_delta(&fresh, frb, ffb);
                if ft != text {
                    emit(&mut reported, format!("session/compiles-differently-from-fresh:{label}:{cls}"), mname, &history, &src,
                         format!("reused: {} | fresh: {}", text.chars().take(300).collect::<String>(), ft.chars().take(300).collect::<String>()));
                }
            }
        }
    }
    let snap1 = dir_snapshot(&scr_path);
    if snap0 != snap1 {
        println!("{{\"k\":\"violation\",\"key\":\"session/scratch-directory-changed\",\"ctx\":\"session\",\"snippet\":\"\",\"mode\":\"all\",\"methods\":[],\"calls\":\"\",\"program\":\"\",\"result\":\"\"}}");
    }
    let cl: Vec<String> = by_class.iter().map(|(k, v)| format!("{}:{}", jstr(k), v)).collect();
    println!(
        "{{\"k\":\"summary\",\"sessions\":{nsess},\"steps\":{steps},\"failing_snippets\":{},\"probes\":{},\"rejected_steps\":{failed_steps},\"failing_snippets_that_compiled\":{unexpected_ok},\"compared_with_fresh\":{compares},\"classes\":{{{}}},\"fd_before\":{fd0},\"fd_after\":{}}}",
        fails.len(),
        probes.len(),
        cl.join(","),
        fd_count()
    );
    let _ = std::fs::remove_dir_all(&scr_path);
}


// ------------------------------------------------------------------ two compilers with different backends on one thread

fn compile_plain(backend: impl uiua::IntoSysBackend, mode: PreEvalMode, src: &str) -> (String, String) {
    let r = catch(|| {
        let mut c = Compiler::with_backend(backend);
        c.pre_eval_mode(mode);
        c.print_diagnostics(false);
        let res = c.load_str(src).map(|_| ()).map_err(|e| e.to_string());
        (res, format!("{:?}", c.assembly().root).chars().take(200).collect::<String>())
    });
    match r {
        Ok((Ok(()), root)) => ("ok".into(), root),
        Ok((Err(e), root)) => (format!("error: {}", e.lines().next().unwrap_or("")), root),
        Err(p) => (format!("PANIC: {p}"), String::new()),
    }
}

/// The pre-evaluation cache (pre_eval.rs comptime_node) is thread-local and keyed on the node: a first
/// compiler whose backend ALLOWS a read evaluates a snippet at compile time, then a second compiler on
/// the same thread whose backend DENIES everything compiles the same snippet.  No cache bypass here.
fn two_compilers(scratch: &str) {
    uiua::verif::c12::set_bypass(0);
    let scr_path = PathBuf::from(scratch);
    prepare_scratch(&scr_path);
    let scr = scr_path.display().to_string();
    let mut histories = 0usize;
    let cases: Vec<(&str, String)> = vec![
        ("freadstr", format!("&fras \"{scr}/in.txt\"")),
        ("freadbytes", format!("&frab \"{scr}/in.txt\"")),
        ("flistdir", format!("&fld \"{scr}\"")),
        ("var", "&var \"HOME\"".to_string()),
        ("fexists", format!("&fe \"{scr}/in.txt\"")),
    ];
    for (label, src) in &cases {
        for first_kind in ["allowing-recorder", "native"] {
            for second_mode in [PreEvalMode::Lsp, PreEvalMode::Normal] {
                histories += 1;
                // distinct text per history so that earlier histories do not feed the cache
                let src1 = format!("{{\"history {histories}\" {src}}}\n");
                let path = format!("{scr}/in.txt");
                let (first_res, first_root) = if first_kind == "native" {
                    compile_plain(uiua::NativeSys, PreEvalMode::Lsp, &src1)
                } else {
                    let (rec, _l) = Rec::with_files(true, &[(path.as_str(), "SECRET-OF-THE-FIRST-BACKEND")]);
                    compile_plain(rec, PreEvalMode::Lsp, &src1)
                };
                let (deny, dlog) = Rec::new(false);
                let (res2, root2) = compile_plain(deny, second_mode, &src1);
                let calls = methods_of(&take_log(&dlog));
                // reference: the same deny compile on a thread that never saw the first compiler
                let src_ref = src1.clone();
                let reference = std::thread::spawn(move || {
                    uiua::verif::c12::set_bypass(0);
                    let (deny, _l) = Rec::new(false);
                    compile_plain(deny, second_mode, &src_ref)
                })
                .join()
                .unwrap_or(("thread failed".into(), String::new()));
                let leaked = root2 != reference.1;
                println!(
                    "{{\"k\":\"two\",\"snippet\":{},\"first\":\"{first_kind}\",\"second_mode\":\"{}\",\"first_root\":{},\"second_root\":{},\"reference_root\":{},\"second_calls\":{},\"differs\":{leaked}}}",
                    jstr(label), mode_name(second_mode), jstr(&first_root), jstr(&root2), jstr(&reference.1), jlist(calls.clone())
                );
                if leaked {
                    println!(
                        "{{\"k\":\"violation\",\"key\":{},\"ctx\":\"two-compilers\",\"snippet\":{},\"mode\":\"{}\",\"methods\":{},\"calls\":{},\"program\":{},\"result\":{}}}",
                        jstr(&format!("two-compilers/pre-eval-cache-crosses-backends/{}", mode_name(second_mode).to_lowercase())),
                        jstr(label),
                        mode_name(second_mode),
                        jlist(calls),
                        jstr(&format!("compiler 1 ({first_kind} backend, Lsp) compiled it to `{first_root}` [{first_res}]; compiler 2 (deny-all backend, same thread) compiled the same text to `{root2}` [{res2}] although its backend refused every call; on a fresh thread a deny-all compiler gives `{}`", reference.1)),
                        jstr(&src1),
                        jstr(&res2)
                    );
                }
            }
        }
    }
    println!("{{\"k\":\"summary\",\"histories\":{histories}}}");
    let _ = std::fs::remove_dir_all(&scr_path);
}


// ------------------------------------------------------------------ answers must not depend on the host

/// a backend with NO overrides: every method is the trait's default
struct Bare;
impl SysBackend for Bare {
    fn any(&self) -> &dyn Any {
        self
    }
    fn any_mut(&mut self) -> &mut dyn Any {
        self
    }
}

fn outcome_on(backend: impl uiua::IntoSysBackend, node: Node, args: &[Value], target: &str) -> String {
    let mut env = Uiua::with_backend(backend);
    for a in args.iter().rev() {
        env.push(a.clone());
    }
    let r = catch(|| env.exec(node).map_err(|e| e.to_string()));
    let text = match r {
        Ok(Ok(())) => {
            let st: Vec<String> = env.take_stack().iter().map(|v| v.show()).collect();
            format!("Ok[{}]", st.join(" | "))
        }
        Ok(Err(e)) => format!("Err[{}]", e.lines().next().unwrap_or("")),
        Err(p) => format!("PANIC[{p}]"),
    };
    text.replace(target, "<T>")
}

/// Every system function under SafeSys and under the bare backend, on targets that really exist on the
/// host and on counterparts that do not: the outcome must be the same for both (or "not supported").
fn hostdep(scratch: &str) {
    let scr_path = PathBuf::from(scratch);
    prepare_scratch(&scr_path);
    let scr = scr_path.display().to_string();
    // an environment variable that exists / one that does not
    unsafe {
        std::env::set_var("C20_EXISTING_VAR", "value-on-the-host");
        std::env::remove_var("C20_MISSING_VAR");
    }
    let mut targets: Vec<(String, String, &str)> = vec![
        (format!("{scr}/in.txt"), format!("{scr}/no-such-file.txt"), "file"),
        (scr.clone(), format!("{scr}/no-such-dir"), "directory"),
        ("/".to_string(), "/c20-no-such-root-entry".to_string(), "root"),
        (".".to_string(), "./c20-no-such-entry".to_string(), "cwd"),
        ("C20_EXISTING_VAR".to_string(), "C20_MISSING_VAR".to_string(), "env-var"),
        ("PATH".to_string(), "C20_MISSING_VAR".to_string(), "env-var"),
    ];
    if Path::new("/etc/passwd").exists() {
        targets.push(("/etc/passwd".to_string(), "/etc/c20-no-such-file".to_string(), "file"));
    }
    let fillers: Vec<Value> = vec![Value::from("x"), Value::from(1.0)];
    let (mut runs, mut ops_n, mut not_supported, mut equal_ok, mut equal_err) = (0usize, 0usize, 0usize, 0usize, 0usize);
    let mut reported: BTreeSet<String> = BTreeSet::new();
    for op in SysOp::ALL {
        if op.modifier_args().is_some() {
            continue;
        }
        ops_n += 1;
        let nargs = op.args();
        let node = Node::Prim(Primitive::Sys(op), 0);
        if nargs == 0 {
            for bname in ["SafeSys", "Bare"] {
                let o = if bname == "Bare" { outcome_on(Bare, node.clone(), &[], "\u{0}") } else { outcome_on(SafeSys::new(), node.clone(), &[], "\u{0}") };
                println!("{{\"k\":\"noarg\",\"op\":{},\"backend\":\"{bname}\",\"outcome\":{}}}", jstr(&format!("{op:?}")), jstr(&o.chars().take(100).collect::<String>()));
            }
            continue;
        }
        for (exist, missing, kind) in &targets {
            for pos in 0..nargs {
                // the other arguments: every filler (one combination per filler)
                for fi in 0..fillers.len() {
                    let mk = |t: &str| -> Vec<Value> { (0..nargs).map(|i| if i == pos { Value::from(t) } else { fillers[(fi + i) % fillers.len()].clone() }).collect() };
                    for bname in ["SafeSys", "Bare"] {
                        let (a, b) = if bname == "Bare" {
                            (outcome_on(Bare, node.clone(), &mk(exist), exist), outcome_on(Bare, node.clone(), &mk(missing), missing))
                        } else {
                            (outcome_on(SafeSys::new(), node.clone(), &mk(exist), exist), outcome_on(SafeSys::new(), node.clone(), &mk(missing), missing))
                        };
                        runs += 2;
                        if a == b {
                            if a.contains("not supported") {
                                not_supported += 1;
                            } else if a.starts_with("Ok") {
                                equal_ok += 1;
                            } else {
                                equal_err += 1;
                            }
                            continue;
                        }
                        let key = format!("host-dependent-answer/{bname}/{op:?}");
                        if reported.insert(key.clone()) {
                            println!(
                                "{{\"k\":\"violation\",\"key\":{},\"ctx\":\"hostdep\",\"snippet\":{},\"mode\":\"run\",\"methods\":[],\"calls\":{},\"program\":{},\"result\":{}}}",
                                jstr(&key),
                                jstr(op.name()),
                                jstr(&format!("under {bname}, {} applied to the {kind} {exist:?} that exists on the host gives {a}, applied to {missing:?} that does not exist gives {b} (argument {pos} of {nargs})", op.name())),
                                jstr(&format!("{} \"{exist}\"   vs   {} \"{missing}\"", op.name(), op.name())),
                                jstr(&a)
                            );
                        }
                    }
                }
            }
        }
    }
    println!(
        "{{\"k\":\"summary\",\"system_functions\":{ops_n},\"targets\":{},\"runs\":{runs},\"pairs_equal_not_supported\":{not_supported},\"pairs_equal_ok\":{equal_ok},\"pairs_equal_other_error\":{equal_err},\"host_dependent\":{}}}",
        targets.len(),
        reported.len()
    );
    let _ = std::fs::remove_dir_all(&scr_path);
}


// ------------------------------------------------------------------ the items of a compile (Gate.citem)

fn node_list(ex: &mut Export, ns: &[Node]) -> String {
    let v: Vec<String> = ns.iter().map(|n| ex.node(n)).collect();
    format!("[{}]", v.join(";"))
}

/// Programs made of one kind of item each (line / constant binding / function binding / index macro),
/// compiled in Lazy mode for the model's input and in every mode with the recorder attached for what
/// the implementation evaluated (root folded, function bodies folded, binding became a constant) and called.
fn items(n: usize, scratch: &str) {
    uiua::verif::c12::set_bypass(uiua::verif::c12::PURITY | uiua::verif::c12::PRE_EVAL);
    let mut rng = Rng::new(seed_from_env() ^ 0x17e5);
    let scr = scratch.to_string();
    let snips = snippets(&scr);
    let mut pg = PGen { fns: vec![] };
    let mut cases = 0usize;
    'outer: loop {
        for (label, void, val) in &snips {
            let pure1 = format!("⍣({})0 1 2 3", pg.body(&mut rng, 1, 2));
            let progs: Vec<(&str, String)> = vec![
                ("line", format!("{val}")),
                ("line", format!("⊟ 1 {val}")),
                ("line", format!("{void}")),
                ("line", pure1.clone()),
                ("constbind", format!("X ← {val}")),
                ("constbind", format!("X ← ⊟ 1 {val}")),
                ("constbind", format!("X ← {pure1}")),
                ("constbind", "X ← +1 2".to_string()),
                ("constbind", "X ← 5".to_string()),
                ("funcbind", format!("F ← ⊟ {val}")),
                ("funcbind", format!("F ← + {pure1}")),
                ("funcbind", format!("F ← ({void} +1)")),
                ("indexmacro", format!("M! ← ^0 {val}\nM!(⊟)")),
                ("indexmacro", format!("M! ← ^0 ^0\nM!({void})")),
                ("indexmacro", format!("M! ← ⊟^0 +1 2\nM!({val})")),
            ];
            for (kind, body) in progs {
                let prog = format!("# Experimental!\n{body}\n");
                let compile = |mode: PreEvalMode| {
                    let (rec, log) = Rec::new(true);
                    let r = catch(|| {
                        let mut c = Compiler::with_backend(rec);
                        c.pre_eval_mode(mode);
                        c.print_diagnostics(false);
                        let ok = c.load_str(&prog).is_ok();
                        (ok, c.finish())
                    });
                    (r, methods_of(&take_log(&log)))
                };
                let (Ok((lazy_ok, lazy)), _) = compile(PreEvalMode::Lazy) else { continue };
                if !lazy_ok {
                    continue;
                }
                let mut ex = Export::new();
                let funcs: Vec<String> = lazy.functions.iter().map(|f| ex.node(f)).collect();
                let mut fext = vec![false; lazy.functions.len()];
                let mut binds = Vec::new();
                for b in lazy.bindings.iter() {
                    binds.push(match &b.kind {
                        BindingKind::Const(v) => format!("(BConst {})", v.is_some()),
                        BindingKind::Func(f) => {
                            let i = uiua::verif::function_index(f);
                            if b.meta.external && i < fext.len() {
                                fext[i] = true;
                            }
                            format!("(BFunc {i})")
                        }
                        _ => "BOther".to_string(),
                    });
                }
                if has_un_only_custom(&lazy.root) || lazy.functions.iter().any(has_un_only_custom) {
                    continue;
                }
                let root = node_list(&mut ex, lazy.root.as_slice());
                // the unevaluated words of a constant binding: the root is words ++ [BindGlobal]
                let constn: Option<String> = match lazy.root.as_slice() {
                    [words @ .., Node::BindGlobal { .. }] if !words.iter().any(|w| matches!(w, Node::BindGlobal { .. })) => {
                        Some(node_list(&mut ex, words))
                    }
                    _ => None,
                };
                let lazy_const = lazy.bindings.iter().any(|b| matches!(&b.kind, BindingKind::Const(Some(_))));
                let mut labels = BTreeMap::new();
                let mut mlabels = Vec::new();
                labels_in(&lazy.root, &mut labels);
                mod_labels(&lazy.root, &mut mlabels);
                for f in lazy.functions.iter() {
                    labels_in(f, &mut labels);
                    mod_labels(f, &mut mlabels);
                }
                let lazy_root = format!("{:?}", lazy.root);
                let lazy_funcs: Vec<String> = lazy.functions.iter().map(|f| format!("{f:?}")).collect();
                let mut modes_out = Vec::new();
                for (mode, mname) in modes() {
                    let (r, called) = compile(mode);
                    let Ok((_ok, asm)) = r else { continue };
                    let root_folded = format!("{:?}", asm.root) != lazy_root;
                    let fs: Vec<String> = asm.functions.iter().map(|f| format!("{f:?}")).collect();
                    let funcs_folded = fs != lazy_funcs;
                    let is_const = asm.bindings.iter().any(|b| matches!(&b.kind, BindingKind::Const(Some(_))));
                    modes_out.push(format!(
                        "\"{mname}\":{{\"root_folded\":{root_folded},\"funcs_folded\":{funcs_folded},\"const\":{is_const},\"called\":{}}}",
                        jlist(called)
                    ));
                }
                let labs: Vec<String> = labels
                    .iter()
                    .map(|(id, (name, p, sys, sr))| format!("{{\"id\":{id},\"name\":{},\"pur\":\"{}\",\"sys\":{sys},\"sendrecv\":{sr}}}", jstr(name), pur(*p)))
                    .collect();
                let mlabs: Vec<String> = mlabels.iter().map(|(t, p)| format!("{{\"term\":{},\"pur\":\"{}\"}}", jstr(t), pur(*p))).collect();
                println!(
                    "{{\"k\":\"item\",\"kind\":\"{kind}\",\"snippet\":{},\"program\":{},\"funcs\":{},\"fext\":{},\"binds\":{},\"labels\":[{}],\"mlabels\":[{}],\"root\":{},\"constn\":{},\"lazy_const\":{lazy_const},\"modes\":{{{}}}}}",
                    jstr(label),
                    jstr(&prog),
                    jlist(funcs),
                    jlist(fext.iter().map(|b| b.to_string())),
                    jlist(binds),
                    labs.join(","),
                    mlabs.join(","),
                    jstr(&root),
                    constn.map(|c| jstr(&c)).unwrap_or("null".into()),
                    modes_out.join(",")
                );
                cases += 1;
                if cases >= n {
                    break 'outer;
                }
            }
        }
    }
    println!("{{\"k\":\"summary\",\"cases\":{cases}}}");
}

// ------------------------------------------------------------------ the gate functions on exported trees

fn collect_nodes<'a>(n: &'a Node, out: &mut Vec<&'a Node>, budget: &mut usize) {
    if *budget == 0 {
        return;
    }
    *budget -= 1;
    out.push(n);
    match n {
        Node::Run(ns) => ns.iter().for_each(|x| collect_nodes(x, out, budget)),
        Node::Mod(_, args, _) | Node::ImplMod(_, args, _) => args.iter().for_each(|a| collect_nodes(&a.node, out, budget)),
        Node::Array { inner, .. } => collect_nodes(inner, out, budget),
        Node::Switch { branches, .. } => branches.iter().for_each(|a| collect_nodes(&a.node, out, budget)),
        Node::CustomInverse(c, _) => {
            if let Ok(sn) = &c.normal {
                collect_nodes(&sn.node, out, budget)
            }
        }
        Node::NoInline(i) => collect_nodes(i, out, budget),
        Node::TrackCaller(i) => collect_nodes(&i.node, out, budget),
        _ => {}
    }
}

fn labels_in(n: &Node, out: &mut BTreeMap<u64, (String, Purity, bool, bool)>) {
    match n {
        Node::Prim(p, _) => {
            out.insert(
                exported_id(&Node::Prim(*p, 0)),
                (format!("{p:?}"), p.purity(), matches!(p, Primitive::Sys(_)), matches!(p, Primitive::Send | Primitive::Recv)),
            );
        }
        Node::ImplPrim(p, _) => {
            out.insert(exported_id(&Node::ImplPrim(*p, 0)), (format!("{p:?}"), p.purity(), false, false));
        }
        Node::Run(ns) => ns.iter().for_each(|x| labels_in(x, out)),
        Node::Mod(_, args, _) | Node::ImplMod(_, args, _) => args.iter().for_each(|a| labels_in(&a.node, out)),
        Node::Array { inner, .. } => labels_in(inner, out),
        Node::Switch { branches, .. } => branches.iter().for_each(|a| labels_in(&a.node, out)),
        Node::CustomInverse(c, _) => {
            if let Ok(sn) = &c.normal {
                labels_in(&sn.node, out)
            }
        }
        Node::NoInline(i) => labels_in(i, out),
        Node::TrackCaller(i) => labels_in(&i.node, out),
        _ => {}
    }
}

fn has_un_only_custom(n: &Node) -> bool {
    match n {
        Node::CustomInverse(c, _) => c.normal.is_err() || c.normal.as_ref().is_ok_and(|sn| has_un_only_custom(&sn.node)),
        Node::Run(ns) => ns.iter().any(has_un_only_custom),
        Node::Mod(_, args, _) | Node::ImplMod(_, args, _) => args.iter().any(|a| has_un_only_custom(&a.node)),
        Node::Array { inner, .. } => has_un_only_custom(inner),
        Node::Switch { branches, .. } => branches.iter().any(|a| has_un_only_custom(&a.node)),
        Node::NoInline(i) => has_un_only_custom(i),
        Node::TrackCaller(i) => has_un_only_custom(&i.node),
        _ => false,
    }
}

fn mod_labels(n: &Node, out: &mut Vec<(String, Purity)>) {
    match n {
        Node::Mod(p, args, _) => {
            out.push((Export::new().modk(p), p.purity()));
            args.iter().for_each(|a| mod_labels(&a.node, out));
        }
        Node::ImplMod(p, args, _) => {
            out.push((Export::new().implmodk(p), p.purity()));
            args.iter().for_each(|a| mod_labels(&a.node, out));
        }
        Node::Run(ns) => ns.iter().for_each(|x| mod_labels(x, out)),
        Node::Array { inner, .. } => mod_labels(inner, out),
        Node::Switch { branches, .. } => branches.iter().for_each(|a| mod_labels(&a.node, out)),
        Node::CustomInverse(c, _) => {
            if let Ok(sn) = &c.normal {
                mod_labels(&sn.node, out)
            }
        }
        Node::NoInline(i) => mod_labels(i, out),
        Node::TrackCaller(i) => mod_labels(&i.node, out),
        _ => {}
    }
}

fn gate(n: usize, scratch: &str) {
    let mut rng = Rng::new(seed_from_env() ^ 0x9e37);
    let scr = scratch.to_string();
    let snips = snippets(&scr);
    let mut cases = 0usize;
    let mut nodes_total = 0usize;
    let mut pg = PGen { fns: vec![] };
    uiua::verif::c12::set_bypass(uiua::verif::c12::PURITY | uiua::verif::c12::PRE_EVAL);
    'outer: loop {
        for (label, void, val) in &snips {
            let pure1 = format!("({}) 1 2 3", pg.body(&mut rng, 2, 3));
            let imp_src = format!("# Experimental!\nF ← {val}\n");
            let imp_path = format!("{scr}/imp.ua");
            for (ctx, prog, _explicit) in contexts(&mut rng, void, val, &pure1, &scr) {
                if ctx == "comptime" {
                    continue;
                }
                let (rec, _log) = Rec::with_files(true, &[(imp_path.as_str(), imp_src.as_str())]);
                let r = catch(|| {
                    let mut c = Compiler::with_backend(rec);
                    c.pre_eval_mode(PreEvalMode::Lazy);
                    c.print_diagnostics(false);
                    let _ = c.load_str(&prog);
                    c.finish()
                });
                let Ok(asm) = r else { continue };
                let mut ex = Export::new();
                // function table, externals, bindings
                let funcs: Vec<String> = asm.functions.iter().map(|f| ex.node(f)).collect();
                let mut fext = vec![false; asm.functions.len()];
                let mut binds = Vec::new();
                for b in asm.bindings.iter() {
                    binds.push(match &b.kind {
                        BindingKind::Const(v) => format!("(BConst {})", v.is_some()),
                        BindingKind::Func(f) => {
                            let i = uiua::verif::function_index(f);
                            if b.meta.external && i < fext.len() {
                                fext[i] = true;
                            }
                            format!("(BFunc {i})")
                        }
                        _ => "BOther".to_string(),
                    });
                }
                let mut targets: Vec<&Node> = Vec::new();
                let mut budget = 40usize;
                collect_nodes(&asm.root, &mut targets, &mut budget);
                for f in asm.functions.iter() {
                    let mut b = 6usize;
                    collect_nodes(f, &mut targets, &mut b);
                }
                let mut labels = BTreeMap::new();
                let mut mlabels = Vec::new();
                labels_in(&asm.root, &mut labels);
                mod_labels(&asm.root, &mut mlabels);
                for f in asm.functions.iter() {
                    labels_in(f, &mut labels);
                    mod_labels(f, &mut mlabels);
                }
                let mut items = Vec::new();
                let mut uncust = 0;
                for t in &targets {
                    if has_un_only_custom(t) {
                        uncust += 1;
                        continue;
                    }
                    let term = ex.node(t);
                    let p = t.is_pure(&asm);
                    let i = t.is_min_purity(Purity::Impure, &asm);
                    let m = t.is_min_purity(Purity::Mutating, &asm);
                    let lb = t.is_limit_bounded(&asm);
                    items.push(format!("{{\"node\":{},\"pure\":{p},\"impure\":{i},\"mutating\":{m},\"bounded\":{lb}}}", jstr(&term)));
                }
                nodes_total += items.len();
                let labs: Vec<String> = labels
                    .iter()
                    .map(|(id, (name, p, sys, sr))| format!("{{\"id\":{id},\"name\":{},\"pur\":\"{}\",\"sys\":{sys},\"sendrecv\":{sr}}}", jstr(name), pur(*p)))
                    .collect();
                let mlabs: Vec<String> = mlabels.iter().map(|(t, p)| format!("{{\"term\":{},\"pur\":\"{}\"}}", jstr(t), pur(*p))).collect();
                println!(
                    "{{\"k\":\"gate\",\"ctx\":{},\"snippet\":{},\"program\":{},\"funcs\":{},\"fext\":{},\"binds\":{},\"labels\":[{}],\"mlabels\":[{}],\"items\":[{}],\"skipped_un_only\":{uncust}}}",
                    jstr(&ctx),
                    jstr(label),
                    jstr(&prog),
                    jlist(funcs),
                    jlist(fext.iter().map(|b| b.to_string())),
                    jlist(binds),
                    labs.join(","),
                    mlabs.join(","),
                    items.join(",")
                );
                cases += 1;
                if cases >= n {
                    break 'outer;
                }
            }
        }
    }
    println!("{{\"k\":\"summary\",\"cases\":{cases},\"nodes\":{nodes_total}}}");
}

fn main() {
    let args: Vec<String> = std::env::args().collect();
    let cmd = args.get(1).map(|s| s.as_str()).unwrap_or("");
    let n: usize = args.get(2).and_then(|s| s.parse().ok()).unwrap_or(100);
    let scratch = args.get(3).cloned().unwrap_or_else(|| format!("/verif/.cache/runs/C20/scratch-{}", std::process::id()));
    match cmd {
        "tables" => tables(),
        "ops" => {
            prepare_scratch(Path::new(&scratch));
            let snap0 = dir_snapshot(Path::new(&scratch));
            ops(n, &scratch);
            let snap1 = dir_snapshot(Path::new(&scratch));
            println!("{{\"k\":\"scratch\",\"unchanged\":{}}}", snap0 == snap1);
            let _ = std::fs::remove_dir_all(&scratch);
        }
        "compile" => compile_search(n, &scratch),
        "gate" => gate(n, &scratch),
        "session" => sessions(n, &scratch),
        "twocomp" => two_compilers(&scratch),
        "hostdep" => hostdep(&scratch),
        "items" => items(n, &scratch),
        "leak-demo" => {
            // consequence of the comptime_depth leak: after N rejected code-macro snippets a valid macro is refused
            let (mut comp, _log) = new_session_compiler(PreEvalMode::Normal);
            let before = catch(|| comp.load_str("D! ← ^0 ^0\nD!(+1) 1").map(|_| ()).map_err(|e| e.to_string()));
            for _ in 0..n {
                let _ = comp.load_str("C! ←^ \"(\" ◌\nC!+ 1 2");
            }
            let after = catch(|| comp.load_str("E! ← ^0 ^0\nE!(+1) 1").map(|_| ()).map_err(|e| e.to_string()));
            println!(
                "{{\"k\":\"leak-demo\",\"rejected_snippets\":{n},\"valid_macro_before\":{},\"valid_macro_after\":{},\"depth\":{}}}",
                jstr(&format!("{before:?}")),
                jstr(&format!("{after:?}")),
                comp.verif_session_state().3
            );
        }
        "safe-run" => {
            // run a program under SafeSys; stdin of this process is whatever the caller piped in
            let src = args.get(2).cloned().unwrap_or_default();
            let mut env = Uiua::with_backend(SafeSys::new()).with_execution_limit(Duration::from_secs(5));
            let r = catch(|| env.run_str(&src).map(|_| ()).map_err(|e| e.to_string()));
            let st: Vec<String> = env.take_stack().iter().map(|v| v.show()).collect();
            println!("{{\"k\":\"safe-run\",\"result\":{},\"stack\":{}}}", jstr(&format!("{r:?}")), jlist(st));
        }
        "one" => {
            let mode = match args.get(2).map(|s| s.as_str()) {
                Some("Lazy") => PreEvalMode::Lazy,
                Some("Line") => PreEvalMode::Line,
                Some("Lsp") => PreEvalMode::Lsp,
                _ => PreEvalMode::Normal,
            };
            let src = args.get(3).cloned().unwrap_or_default();
            let fd0 = fd_count();
            eprintln!("@@BEGIN");
            let out = compile_with_rec(&src, mode, &[]);
            eprintln!("@@END");
            println!(
                "{{\"k\":\"one\",\"result\":{},\"folded\":{},\"root\":{},\"log\":{},\"fd_before\":{fd0},\"fd_after\":{}}}",
                jstr(&out.result),
                out.folded_root,
                jstr(&out.root),
                jstr(&format!("{:?}", out.log.iter().filter(|(m, _)| !AMBIENT.contains(&m.as_str())).collect::<Vec<_>>())),
                fd_count()
            );
        }
        _ => {
            eprintln!("usage: c20 tables | ops N [DIR] | compile N [DIR] | gate N [DIR] | one MODE SRC");
            std::process::exit(2);
        }
    }
}
