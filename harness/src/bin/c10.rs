//! C10: formatting is idempotent and never changes program meaning.
//!   c10 search N [--configs all|quick]  -> JSON lines: violations (shrunk) + a summary, over corpus files, corpus
//!                                          chunks, their ASCII-name / spacing variants and N generated programs
//!   c10 vtie N     -> JSON lines {src, fmt, a, b}: exported trees (root, functions) of s and of format(s)
//!   c10 ctie N     -> JSON lines {toks, src, out}: model token sequences rendered with arbitrary spacing and the
//!                     real formatter's output (code points)
//!   c10 probe CFG  -> reads one source from stdin; prints format, second format, compile/run comparison
use std::collections::{BTreeMap, HashMap};
use std::fmt::Write as _;
use std::sync::Arc;
use std::time::Duration;

use uiua::format::{FormatConfig, format_str};
use uiua::{Compiler, Inputs, PreEvalMode, Primitive, SafeSys, Token, Uiua};
use unicode_segmentation::UnicodeSegmentation;
use uvh::*;

// ---------------------------------------------------------------- configurations

#[derive(Clone, Copy, PartialEq, Eq, Hash, Debug)]
struct Cfg {
    tn: bool,
    sp: bool,
    ind: usize,
    al: bool,
    imp: bool,
}

const INDENTS: [usize; 6] = [2, 0, 1, 3, 4, 8];

impl Cfg {
    fn default() -> Cfg {
        Cfg { tn: true, sp: true, ind: 2, al: true, imp: true }
    }
    fn config(&self) -> FormatConfig {
        let mut c = FormatConfig::default()
            .with_trailing_newline(self.tn)
            .with_comment_space_after_hash(self.sp)
            .with_multiline_indent(self.ind)
            .with_align_comments(self.al)
            .with_indent_item_imports(self.imp);
        // output comments are evaluated by the formatter: never with the native backend
        c.backend = Some(Arc::new(SafeSys::new()));
        c
    }
    fn name(&self) -> String {
        format!("tn{},sp{},ind{},al{},imp{}", self.tn as u8, self.sp as u8, self.ind, self.al as u8, self.imp as u8)
    }
    fn parse(s: &str) -> Cfg {
        let mut c = Cfg::default();
        for p in s.split(',') {
            if let Some(v) = p.strip_prefix("tn") {
                c.tn = v == "1";
            } else if let Some(v) = p.strip_prefix("sp") {
                c.sp = v == "1";
            } else if let Some(v) = p.strip_prefix("ind") {
                c.ind = v.parse().unwrap_or(2);
            } else if let Some(v) = p.strip_prefix("al") {
                c.al = v == "1";
            } else if let Some(v) = p.strip_prefix("imp") {
                c.imp = v == "1";
            }
        }
        c
    }
    /// every value of the 4 boolean options x the indent values
    fn all() -> Vec<Cfg> {
        let mut v = Vec::new();
        for &ind in &INDENTS {
            for b in 0..16u8 {
                v.push(Cfg { tn: b & 1 == 0, sp: b & 2 == 0, al: b & 4 == 0, imp: b & 8 == 0, ind });
            }
        }
        v
    }
    /// the 16 boolean combinations at indent 2, and the default booleans at every other indent,
    /// and the all-off booleans at every other indent
    fn quick() -> Vec<Cfg> {
        let mut v: Vec<Cfg> = Cfg::all().into_iter().filter(|c| c.ind == 2).collect();
        for &ind in &INDENTS[1..] {
            v.push(Cfg { ind, ..Cfg::default() });
            v.push(Cfg { tn: false, sp: false, al: false, imp: false, ind });
        }
        v
    }
    /// options that differ from the default, by name
    fn diff(&self) -> Vec<&'static str> {
        let d = Cfg::default();
        let mut v = Vec::new();
        if self.tn != d.tn {
            v.push("trailing_newline");
        }
        if self.sp != d.sp {
            v.push("comment_space_after_hash");
        }
        if self.ind != d.ind {
            v.push("multiline_indent");
        }
        if self.al != d.al {
            v.push("align_comments");
        }
        if self.imp != d.imp {
            v.push("indent_item_imports");
        }
        v
    }
    fn with_only(&self, opt: &str) -> Cfg {
        let mut c = Cfg::default();
        match opt {
            "trailing_newline" => c.tn = self.tn,
            "comment_space_after_hash" => c.sp = self.sp,
            "multiline_indent" => c.ind = self.ind,
            "align_comments" => c.al = self.al,
            "indent_item_imports" => c.imp = self.imp,
            _ => {}
        }
        c
    }
}

// ---------------------------------------------------------------- running the implementation

fn quiet<T>(f: impl FnOnce() -> T) -> Result<T, String> {
    std::panic::catch_unwind(std::panic::AssertUnwindSafe(f)).map_err(|e| {
        if let Some(s) = e.downcast_ref::<String>() {
            s.clone()
        } else if let Some(s) = e.downcast_ref::<&str>() {
            s.to_string()
        } else {
            "panic".to_string()
        }
    })
}

/// Ok(Ok(text)) formatted; Ok(Err(msg)) does not parse; Err(p) panic
fn fmt(src: &str, cfg: &Cfg) -> Result<Result<String, String>, String> {
    let c = cfg.config();
    quiet(|| format_str(src, &c).map(|o| o.output).map_err(|e| e.to_string()))
}

#[derive(Clone, Debug, PartialEq)]
struct Compiled {
    /// exported (root, functions) as Gallina terms
    root: String,
    funs: Vec<String>,
    /// Node's Debug rendering (no spans) of root and functions, and the binding names
    debug: String,
}

#[derive(Clone, Debug, PartialEq)]
struct RunRes {
    ok: bool,
    stack: Vec<String>,
    stdout: String,
    err: String,
}

#[derive(Clone, Debug)]
struct Eval {
    compiled: Result<Compiled, String>,
    run: Option<RunRes>,
}

/// safe backend that serves exactly one file: the source under test, as "c10mod.ua"
struct ModSys {
    inner: SafeSys,
    src: String,
}

impl uiua::SysBackend for ModSys {
    fn any(&self) -> &dyn std::any::Any {
        self
    }
    fn any_mut(&mut self) -> &mut dyn std::any::Any {
        self
    }
    fn print_str_stdout(&self, s: &str) -> Result<(), String> {
        self.inner.print_str_stdout(s)
    }
    fn print_str_stderr(&self, s: &str) -> Result<(), String> {
        self.inner.print_str_stderr(s)
    }
    fn file_exists(&self, path: &str) -> bool {
        path.ends_with("c10mod.ua")
    }
    fn is_file(&self, path: &str) -> Result<bool, String> {
        Ok(path.ends_with("c10mod.ua"))
    }
    fn file_read_all(&self, path: &std::path::Path) -> Result<Vec<u8>, String> {
        if path.ends_with("c10mod.ua") { Ok(self.src.as_bytes().to_vec()) } else { Err("no such file".into()) }
    }
}

/// names (with public/private flags) that a file exports to `M ~ "file"`: Debug of the importer's module binding
fn interface_of(src: &str) -> String {
    let r = quiet(|| {
        let mut c = Compiler::with_backend(ModSys { inner: SafeSys::new(), src: src.to_string() });
        c.pre_eval_mode(PreEvalMode::Lazy);
        c.print_diagnostics(false);
        c.load_str("Cm ~ \"c10mod.ua\"\n").map(|c| c.finish()).map_err(|e| e.to_string())
    });
    match r {
        Ok(Ok(asm)) => {
            let mut out = String::new();
            for b in asm.bindings.iter() {
                if let uiua::BindingKind::Module(m) = &b.kind {
                    if m.path.is_some() {
                        let mut names: Vec<String> = m.names.all_iter().map(|(n, l)| format!("{n}:{}:{}", l.index, if l.public { "pub" } else { "priv" })).collect();
                        names.sort();
                        write!(out, "[{}]", names.join(" ")).unwrap();
                    }
                }
            }
            out
        }
        Ok(Err(e)) => format!("import fails: {}", strip_loc(&e)),
        Err(p) => format!("PANIC: {p}"),
    }
}

/// the same text as the body of a module: the names of its scope with their visibility, as code
/// outside the module sees them (Wrap~Name)
fn wrapped_interface_of(src: &str) -> String {
    let exp = if src.contains("# Experimental!") || src.contains("#exp") { "# Experimental!\n" } else { "" };
    let text = format!("{exp}┌─╴Wrap\n{}\n└─╴\n", src.trim_end_matches('\n'));
    let r = quiet(|| {
        let mut c = Compiler::with_backend(SafeSys::new());
        c.pre_eval_mode(PreEvalMode::Lazy);
        c.print_diagnostics(false);
        c.load_str(&text).map(|c| c.finish()).map_err(|e| e.to_string())
    });
    match r {
        Ok(Ok(asm)) => {
            let mut out = String::new();
            fn dump(asm: &uiua::Assembly, m: &uiua::Module, depth: usize, out: &mut String) {
                let mut names: Vec<String> = Vec::new();
                for (n, l) in m.names.all_iter() {
                    let mut s = format!("{n}:{}:{}", l.index, if l.public { "pub" } else { "priv" });
                    if depth < 4 {
                        if let Some(uiua::BindingKind::Module(inner)) = asm.bindings.get(l.index).map(|b| &b.kind) {
                            let mut sub = String::new();
                            dump(asm, inner, depth + 1, &mut sub);
                            s.push_str(&sub);
                        }
                    }
                    names.push(s);
                }
                names.sort();
                out.push_str(&format!("[{}]", names.join(" ")));
            }
            if let Some(uiua::BindingKind::Module(m)) = asm.bindings.first().map(|b| &b.kind) {
                dump(&asm, m, 0, &mut out);
            }
            out
        }
        Ok(Err(_)) => "does not compile as a module body".into(),
        Err(p) => format!("PANIC: {p}"),
    }
}

fn compile_src(src: &str) -> Result<Compiled, String> {
    let r = quiet(|| {
        let mut c = Compiler::with_backend(SafeSys::new());
        c.pre_eval_mode(PreEvalMode::Lazy);
        c.print_diagnostics(false);
        c.load_str(src).map(|c| c.finish()).map_err(|e| e.to_string())
    });
    match r {
        Ok(Ok(asm)) => {
            let mut ex = Export::new();
            let root = ex.node(&asm.root);
            let funs: Vec<String> = asm.functions.iter().map(|f| ex.node(f)).collect();
            let mut debug = format!("{:?}", asm.root);
            for f in asm.functions.iter() {
                write!(debug, "\n{f:?}").unwrap();
            }
            for b in asm.bindings.iter() {
                write!(debug, "\n{} {:?}", if b.public { "public" } else { "private" }, b.kind).unwrap();
            }
            // the file as seen by an importer: its scope's names with their visibility
            debug.push_str("\nas module body: ");
            debug.push_str(&wrapped_interface_of(src));
            Ok(Compiled { root, funs, debug: strip_at(&debug) })
        }
        Ok(Err(e)) => Err(e),
        Err(p) => Err(format!("PANIC: {p}")),
    }
}

/// " at 2:4" (macro expansion sites in Node's Debug rendering) carries a position
fn strip_at(d: &str) -> String {
    let mut out = String::new();
    let mut rest = d;
    while let Some(i) = rest.find(" at ") {
        out.push_str(&rest[..i + 4]);
        rest = &rest[i + 4..];
        let k = rest.find(|c: char| !(c.is_ascii_digit() || c == ':')).unwrap_or(rest.len());
        if k > 0 {
            out.push('_');
        }
        rest = &rest[k..];
    }
    out.push_str(rest);
    out
}

fn strip_loc(e: &str) -> String {
    // error texts carry line:col positions, which formatting legitimately moves
    let mut out = String::new();
    let mut chars = e.chars().peekable();
    while let Some(c) = chars.next() {
        if c.is_ascii_digit() {
            while chars.peek().is_some_and(|c| c.is_ascii_digit() || *c == ':') {
                chars.next();
            }
            out.push('N');
        } else {
            out.push(c);
        }
    }
    out.lines().next().unwrap_or("").to_string()
}

/// errors that depend on the machine's load or limits, not on the program: such a run decides nothing
fn resource_error(e: &str) -> bool {
    let l = e.to_lowercase();
    ["maximum execution time", "execution time", "too large", "out of memory", "memory", "allocation", "stack overflow", "capacity overflow", "timed out"].iter().any(|k| l.contains(k))
}

impl RunRes {
    fn inconclusive(&self) -> bool {
        !self.ok && resource_error(&self.err)
    }
}

fn run_src_limit(src: &str, millis: u64) -> RunRes {
    // sandboxed backend: no file, network or process access; &fwa, &fmkd ... fail instead of writing
    let mut env = Uiua::with_backend(SafeSys::new()).with_execution_limit(Duration::from_millis(millis));
    let res = quiet(|| env.run_str(src).map(|_| ()).map_err(|e| e.to_string()));
    let stack: Vec<String> = env.take_stack().iter().map(|v| format!("{:?}|{:?}|{}", v.shape, v.type_name(), v.show())).collect();
    let stdout = env.downcast_backend::<SafeSys>().map(|s| String::from_utf8_lossy(&s.take_stdout()).into_owned()).unwrap_or_default();
    match res {
        Ok(Ok(())) => RunRes { ok: true, stack, stdout, err: String::new() },
        Ok(Err(e)) => RunRes { ok: false, stack, stdout, err: strip_loc(&e) },
        Err(p) => RunRes { ok: false, stack, stdout, err: format!("PANIC: {p}") },
    }
}

fn run_src(src: &str) -> RunRes {
    run_src_limit(src, 1500)
}

/// confirmation runs happen one at a time (no competition between this harness's own threads) with a longer limit
static RERUN: std::sync::Mutex<()> = std::sync::Mutex::new(());

#[derive(PartialEq, Debug, Clone)]
enum RunCmp {
    Same,
    Inconclusive,
    Nondeterministic,
    Differ(String),
}

/// compare two first runs; a difference is reported only after both programs were run again, sequentially,
/// reproduced their own first result, and neither run ended on a resource limit
fn compare_runs(src: &str, f1: &str, ra: &RunRes, rb: &RunRes) -> RunCmp {
    if !ra.inconclusive() && !rb.inconclusive() && ra == rb {
        return RunCmp::Same;
    }
    let _g = RERUN.lock().unwrap_or_else(|e| e.into_inner());
    let a2 = run_src_limit(src, 6000);
    let b2 = run_src_limit(f1, 6000);
    if a2.inconclusive() || b2.inconclusive() {
        return RunCmp::Inconclusive;
    }
    if a2 == b2 {
        // the first difference was a resource limit or nondeterminism
        return if ra.inconclusive() || rb.inconclusive() { RunCmp::Same } else { RunCmp::Nondeterministic };
    }
    // the programs must reproduce themselves
    let a3 = run_src_limit(src, 6000);
    let b3 = run_src_limit(f1, 6000);
    if a3.inconclusive() || b3.inconclusive() {
        return RunCmp::Inconclusive;
    }
    if a3 != a2 || b3 != b2 {
        return RunCmp::Nondeterministic;
    }
    RunCmp::Differ(format!("results differ (confirmed by two sequential re-runs): {:?} vs {:?}", short(&format!("{a2:?}"), 300), short(&format!("{b2:?}"), 300)))
}

struct Ctx {
    /// verdicts of run comparisons by (source, formatted text): many configurations give the same output
    cmps: HashMap<(String, String), RunCmp>,
    evals: HashMap<String, Eval>,
    n_compile: usize,
    n_run: usize,
    do_run: bool,
}

impl Ctx {
    fn new(do_run: bool) -> Ctx {
        Ctx { cmps: HashMap::new(), evals: HashMap::new(), n_compile: 0, n_run: 0, do_run }
    }
    fn eval(&mut self, src: &str, want_run: bool) -> Eval {
        if !self.evals.contains_key(src) {
            self.n_compile += 1;
            let compiled = compile_src(src);
            self.evals.insert(src.to_string(), Eval { compiled, run: None });
        }
        let e = self.evals.get_mut(src).unwrap();
        if want_run && self.do_run && e.run.is_none() && e.compiled.is_ok() {
            self.n_run += 1;
            e.run = Some(run_src(src));
        }
        e.clone()
    }
    fn trim(&mut self) {
        if self.evals.len() > 4000 {
            self.evals.clear();
            self.cmps.clear();
        }
    }
}

// ---------------------------------------------------------------- the checks

#[derive(Clone, Debug)]
struct Viol {
    kind: &'static str,
    detail: String,
}

fn short(s: &str, n: usize) -> String {
    if s.chars().count() <= n { s.to_string() } else { s.chars().take(n).collect::<String>() + "…" }
}

fn first_diff(a: &str, b: &str) -> String {
    let (la, lb): (Vec<&str>, Vec<&str>) = (a.split('\n').collect(), b.split('\n').collect());
    for i in 0..la.len().max(lb.len()) {
        let (x, y) = (la.get(i).copied().unwrap_or("<none>"), lb.get(i).copied().unwrap_or("<none>"));
        if x != y {
            return format!("line {}: {:?} vs {:?}", i + 1, short(x, 100), short(y, 100));
        }
    }
    String::new()
}

/// all checks of one (source, configuration); `only` restricts to one kind (used by the shrinker)
fn check(ctx: &mut Ctx, src: &str, cfg: &Cfg, only: Option<&str>, mut stats: Option<&mut Stats>) -> Vec<Viol> {
    let mut v = Vec::new();
    let want = |k: &str| only.is_none() || only == Some(k);
    let f1 = match fmt(src, cfg) {
        Err(p) => {
            if want("format-panic") {
                v.push(Viol { kind: "format-panic", detail: short(&p, 200) });
            }
            return v;
        }
        Ok(Err(_)) => {
            if let Some(s) = stats.as_deref_mut() {
                s.unparseable += 1;
            }
            return v;
        }
        Ok(Ok(f)) => f,
    };
    if let Some(s) = stats.as_deref_mut() {
        s.formatted += 1;
        if f1 != src {
            s.changed += 1;
        }
    }
    // (i)+(ii) second pass
    match fmt(&f1, cfg) {
        Err(p) => {
            if want("format-panic") {
                v.push(Viol { kind: "format-panic", detail: format!("on the formatter's own output: {}", short(&p, 200)) });
            }
        }
        Ok(Err(e)) => {
            if want("reparse") {
                v.push(Viol { kind: "reparse", detail: format!("the output {:?} does not parse: {}", short(&f1, 200), short(&e, 200)) });
            }
        }
        Ok(Ok(f2)) => {
            if f2 != f1 && want("idempotent") {
                let text_lost = f2.chars().filter(|c| c.is_alphanumeric()).count() < f1.chars().filter(|c| c.is_alphanumeric()).count();
                v.push(Viol { kind: "idempotent", detail: format!("second pass differs, {}{}", first_diff(&f1, &f2), if text_lost { " (text lost)" } else { "" }) });
            }
        }
    }
    if f1 == src {
        return v;
    }
    if !(want("compile-iff") || want("tree") || want("run")) {
        return v;
    }
    // (iii) compiles iff, equal trees
    let want_run = want("run");
    let a = ctx.eval(src, want_run);
    let b = ctx.eval(&f1, want_run);
    match (&a.compiled, &b.compiled) {
        (Ok(ca), Ok(cb)) => {
            // compile-time evaluation of random numbers / clocks: the source must reproduce itself
            if (ca.root != cb.root || ca.funs != cb.funs || ca.debug != cb.debug) && want("tree") && compile_src(src).ok().as_ref() == Some(ca) {
                let d = if ca.root != cb.root || ca.funs != cb.funs { "exported trees differ" } else { "trees differ (Debug rendering)" };
                v.push(Viol { kind: "tree", detail: format!("{d}: {}", first_diff(&ca.debug, &cb.debug)) });
            }
        }
        (Ok(_), Err(e)) => {
            if want("compile-iff") {
                v.push(Viol { kind: "compile-iff", detail: format!("the source compiles, the output {:?} does not: {}", short(&f1, 200), short(e, 200)) });
            }
        }
        (Err(e), Ok(_)) => {
            if want("compile-iff") {
                v.push(Viol { kind: "compile-iff", detail: format!("the source does not compile ({}), the output {:?} does", short(e, 200), short(&f1, 200)) });
            }
        }
        (Err(_), Err(_)) => {}
    }
    // (iv) same results and output
    if let (Some(ra), Some(rb)) = (&a.run, &b.run) {
        if want("run") {
            let key = (src.to_string(), f1.clone());
            let c = match ctx.cmps.get(&key) {
                Some(c) => c.clone(),
                None => {
                    let c = compare_runs(src, &f1, ra, rb);
                    ctx.cmps.insert(key, c.clone());
                    c
                }
            };
            if let Some(s) = stats.as_deref_mut() {
                s.run_compared += 1;
                match &c {
                    RunCmp::Inconclusive => s.run_inconclusive += 1,
                    RunCmp::Nondeterministic => s.run_nondeterministic += 1,
                    _ => {}
                }
            }
            if let RunCmp::Differ(d) = c {
                v.push(Viol { kind: "run", detail: d });
            }
        }
    }
    v
}

#[derive(Default, Clone)]
struct Stats {
    evaluations: usize,
    formatted: usize,
    unparseable: usize,
    changed: usize,
    by_cat: BTreeMap<String, usize>,
    by_kind: BTreeMap<String, usize>,
    n_compile: usize,
    n_run: usize,
    run_compared: usize,
    run_inconclusive: usize,
    run_nondeterministic: usize,
    sources: usize,
    features: BTreeMap<&'static str, usize>,
}

impl Stats {
    fn merge(&mut self, o: &Stats) {
        self.evaluations += o.evaluations;
        self.formatted += o.formatted;
        self.unparseable += o.unparseable;
        self.changed += o.changed;
        self.n_compile += o.n_compile;
        self.n_run += o.n_run;
        self.run_compared += o.run_compared;
        self.run_inconclusive += o.run_inconclusive;
        self.run_nondeterministic += o.run_nondeterministic;
        self.sources += o.sources;
        for (k, v) in &o.by_cat {
            *self.by_cat.entry(k.clone()).or_default() += v;
        }
        for (k, v) in &o.by_kind {
            *self.by_kind.entry(k.clone()).or_default() += v;
        }
        for (k, v) in &o.features {
            *self.features.entry(k).or_default() += v;
        }
    }
}

// ---------------------------------------------------------------- shrinking

fn shrink(ctx: &mut Ctx, src: &str, cfg: &Cfg, kind: &'static str) -> String {
    let mut budget = 600usize;
    let mut has = |ctx: &mut Ctx, s: &str| -> bool {
        if budget == 0 {
            return false;
        }
        budget -= 1;
        check(ctx, s, cfg, Some(kind), None).iter().any(|v| v.kind == kind)
    };
    let mut cur = src.to_string();
    // line level
    loop {
        let lines: Vec<&str> = cur.split('\n').collect();
        let n = lines.len();
        let mut improved = None;
        let mut chunk = (n / 2).max(1);
        'outer: loop {
            let mut i = 0;
            while i < n {
                let cand: Vec<&str> = lines.iter().enumerate().filter(|(j, _)| *j < i || *j >= i + chunk).map(|(_, s)| *s).collect();
                let cand = cand.join("\n");
                if cand.len() < cur.len() && has(ctx, &cand) {
                    improved = Some(cand);
                    break 'outer;
                }
                i += chunk;
            }
            if chunk == 1 {
                break;
            }
            chunk /= 2;
        }
        match improved {
            Some(c) => cur = c,
            None => break,
        }
    }
    // grapheme level
    if cur.len() <= 1500 {
        loop {
            let segs: Vec<&str> = cur.graphemes(true).collect();
            let n = segs.len();
            let mut improved = None;
            let mut chunk = (n / 2).max(1);
            'outer2: loop {
                let mut i = 0;
                while i < n {
                    let cand: String = segs.iter().enumerate().filter(|(j, _)| *j < i || *j >= i + chunk).map(|(_, s)| *s).collect();
                    if cand.len() < cur.len() && has(ctx, &cand) {
                        improved = Some(cand);
                        break 'outer2;
                    }
                    i += chunk;
                }
                if chunk == 1 {
                    break;
                }
                chunk /= 2;
            }
            match improved {
                Some(c) => cur = c,
                None => break,
            }
        }
    }
    cur
}

/// the formatter option a violation is attributed to (the default configuration, one option, or several)
fn attribute(ctx: &mut Ctx, src: &str, cfg: &Cfg, kind: &'static str) -> (String, Cfg) {
    let has = |ctx: &mut Ctx, c: &Cfg| check(ctx, src, c, Some(kind), None).iter().any(|v| v.kind == kind);
    if has(ctx, &Cfg::default()) {
        return ("default".into(), Cfg::default());
    }
    let d = cfg.diff();
    for opt in &d {
        let c = cfg.with_only(opt);
        if has(ctx, &c) {
            return (opt.to_string(), c);
        }
    }
    (d.join("+"), *cfg)
}

/// construct kind of a (shrunk) failing input: first matching feature
fn construct(src: &str) -> &'static str {
    let has = |p: &str| src.contains(p);
    let lines: Vec<&str> = src.lines().collect();
    // what follows the first '#' of a line (outside strings is not checked: shrunk inputs are tiny)
    let after_hash: Vec<&str> = lines.iter().filter_map(|l| l.find('#').map(|i| &l[i + 1..])).collect();
    if after_hash.iter().any(|r| r.starts_with(' ') && r.trim_start().starts_with('#')) {
        return "hash-hash";
    }
    if after_hash.iter().any(|r| r.starts_with(' ') && r.trim_start().starts_with('?')) {
        return "hash-question";
    }
    if after_hash.iter().any(|r| r.trim_start().starts_with('!')) {
        return "hash-bang";
    }
    if has("##") {
        return "output-comment";
    }
    if has("#?") {
        return "type-sig-comment";
    }
    if after_hash.iter().any(|r| r.starts_with("  ") || *r == " ") {
        return "comment-leading-space";
    }
    if lines.iter().any(|l| l.contains("$ ") && l.ends_with(' ')) && has("#") {
        return "raw-string-trailing-space";
    }
    if ["\\\\R", "\\\\Z", "\\\\N", "\\\\B"].iter().any(|e| has(e)) {
        return "escaped-backslash-set-letter";
    }
    if lines.iter().any(|l| {
        let w: Vec<&str> = l.split_whitespace().collect();
        w.windows(2).any(|p| p[0].chars().all(|c| c.is_alphabetic()) && !p[0].is_empty() && (p[1] == "eq" || p[1] == "equals" || p[1] == "equ" || p[1] == "equa" || p[1] == "equal"))
    }) {
        return "name-equals";
    }
    if lines.iter().any(|l| l.contains(", ") || l.ends_with(',')) && !has("\"") {
        return "empty-ascii-subscript";
    }
    {
        // code only: string and character literals removed
        let mut code = String::new();
        let mut in_str = false;
        let mut chars = src.chars().peekable();
        while let Some(c) = chars.next() {
            if in_str {
                if c == '\\' {
                    chars.next();
                } else if c == '"' || c == '\n' {
                    in_str = false;
                }
            } else if c == '"' {
                in_str = true;
            } else if c == '@' {
                chars.next();
            } else {
                code.push(c);
            }
        }
        if code.contains(';') {
            if code.contains('#') {
                // the bracket closes on the joined line whose front line ended in a comment: "(1 # c⏎;3)"
                let cl: Vec<&str> = code.lines().collect();
                let closes_after_comment = cl.iter().enumerate().any(|(i, l)| {
                    let t = l.trim();
                    t.ends_with([')', ']', '}'])
                        && !t.contains('#')
                        && i > 0
                        && (t.starts_with(';') || cl[i - 1].trim_end().ends_with(';'))
                        && cl[..i].iter().any(|p| p.contains('#'))
                });
                return if closes_after_comment { "unsplit-marker-comment-bracket" } else { "unsplit-marker-comment" };
            }
            return "unsplit-marker";
        }
    }
    if has("$$") {
        return "multiline-format-string";
    }
    if has("$ ") || src.ends_with('$') || has("$\n") {
        return "multiline-string";
    }
    if lines.iter().any(|l| {
        let t = l.trim_start();
        (t.starts_with('┌') || t.starts_with("---")) && (t.contains('~') || t.contains('≁'))
    }) {
        return "module-header-import";
    }
    if has("┌") || has("└") {
        return "module";
    }
    if lines.iter().any(|l| l.contains("~ \"") || l.contains("~\"") || l.contains("≁ \"")) {
        return "import";
    }
    if lines.iter().any(|l| {
        let t = l.trim_start();
        t.starts_with('~') || t.starts_with('≁') || (t.starts_with('|') && t.chars().nth(1).is_some_and(|c| c.is_uppercase()) && !src.contains('('))
    }) {
        return "data-def";
    }
    let multi = src.trim_end_matches('\n').contains('\n');
    // a binding item inside a function: "((|1 X=)o)"
    if lines.iter().any(|l| match (l.find('('), l.find('←').or(l.find('='))) {
        (Some(i), Some(j)) => i < j && !l[i..j].contains(')'),
        _ => false,
    }) {
        return "binding-inside-function";
    }
    // a code macro receives its operands as formatted source text
    if has("←^") || has("=^") || has("← ^") && has("!") && multi && false {
        return "code-macro-operand";
    }
    if multi && has("|") && (has("(") || has("⟨")) {
        return "pack-multiline";
    }
    if multi && (has("[") || has("{")) {
        return "array-multiline";
    }
    if multi && has("(") {
        return "function-multiline";
    }
    if has("#") {
        return if multi { "comment-multiline" } else { "comment" };
    }
    if has("$\"") {
        return "format-string";
    }
    if has("\"") || has("@") {
        return "string-or-char";
    }
    if has("|") && has("(") {
        return "pack";
    }
    if has("←") || has("↚") || has("=") {
        return if has("!") { "macro-binding" } else { "binding" };
    }
    if has("_") {
        return "strand";
    }
    if src.chars().any(|c| uiua::SUBSCRIPT_DIGITS.contains(&c)) || has(",") || has("__") {
        return "subscript";
    }
    if has("!") {
        return "macro";
    }

    if src.chars().any(|c| c.is_ascii_digit()) && src.chars().any(|c| c == '¯' || c == '`') {
        return "negative-number";
    }
    if src.chars().any(|c| c.is_ascii_lowercase()) {
        return "ascii-names";
    }
    if multi { "multiline" } else { "words" }
}

/// output comments that quote an error message carry the position of the error in the text that was formatted
fn only_positions_differ(a: &str, b: &str) -> bool {
    let norm = |s: &str| {
        let mut out = String::new();
        let mut prev_digit = false;
        for c in s.chars() {
            if c.is_ascii_digit() {
                if !prev_digit {
                    out.push('N');
                }
                prev_digit = true;
            } else {
                prev_digit = false;
                out.push(c);
            }
        }
        out
    };
    a != b && a.contains("##") && norm(a) == norm(b)
}

// ---------------------------------------------------------------- sources

fn corpus_files() -> Vec<(String, String)> {
    let mut out = Vec::new();
    for dir in ["/repo/tests", "/repo/examples", "/repo/tests_special"] {
        let Ok(rd) = std::fs::read_dir(dir) else { continue };
        let mut files: Vec<_> = rd.filter_map(|e| e.ok()).map(|e| e.path()).collect();
        files.sort();
        for f in files {
            if f.extension().and_then(|e| e.to_str()) != Some("ua") {
                continue;
            }
            if let Ok(text) = std::fs::read_to_string(&f) {
                out.push((f.to_string_lossy().into_owned(), text.replace("\r\n", "\n")));
            }
        }
    }
    out
}

fn corpus_chunks(files: &[(String, String)]) -> Vec<String> {
    let mut out = Vec::new();
    for (_, text) in files {
        for chunk in text.split("\n\n") {
            let c = chunk.trim_matches('\n');
            if c.trim().is_empty() || c.len() > 2500 {
                continue;
            }
            if c.starts_with("# Experimental!") {
                out.push(format!("{c}\n"));
            } else {
                out.push(format!("# Experimental!\n{c}\n"));
            }
        }
    }
    out
}

/// re-render a source from the real lexer's tokens: primitives by their ASCII names, odd spacing
fn variant(r: &mut Rng, src: &str, ascii: usize, spacing: usize) -> Option<String> {
    let (toks, errs, _) = quiet(|| uiua::lex(src, (), &mut Inputs::default())).ok()?;
    if !errs.is_empty() {
        return None;
    }
    let mut out = String::new();
    let mut depth = 0i32;
    let mut pos = 0usize;
    let n = toks.len();
    for (i, t) in toks.iter().enumerate() {
        let (a, b) = (t.span.start.byte_pos as usize, t.span.end.byte_pos as usize);
        if a < pos || b > src.len() || a > b || !src.is_char_boundary(a) || !src.is_char_boundary(b) {
            return None;
        }
        // text between tokens (only whitespace other than ' '): keep
        out.push_str(&src[pos..a]);
        pos = b;
        let text = &src[a..b];
        match &t.value {
            Token::Glyph(p) if a + text.chars().next().map_or(0, |c| c.len_utf8()) == b && p.glyph().is_some() && r.below(100) < ascii => {
                let name = p.name();
                let ok = !name.is_empty() && name.chars().all(|c| c.is_ascii_lowercase());
                // a modifier glyph directly followed by a name would swallow it into one identifier only if both are letters:
                // separate with a space when the neighbour is an identifier character
                if ok {
                    let full = r.chance(2, 3);
                    let nm: String = if full || name.len() < 4 { name.to_string() } else { name[..3.max(name.len() - r.below(3))].to_string() };
                    if out.chars().last().is_some_and(|c| uiua::is_ident_char(c) || c.is_ascii_digit() || "!‼'′″‴&".contains(c)) {
                        out.push(' ');
                    }
                    out.push_str(&nm);
                    // next token adjacency
                    if let Some(nx) = toks.get(i + 1) {
                        let na = nx.span.start.byte_pos as usize;
                        if na == b {
                            let c = src[na..].chars().next().unwrap_or(' ');
                            let next_is_name_candidate = matches!(nx.value, Token::Glyph(_));
                            if uiua::is_ident_char(c) || c.is_ascii_digit() || "!‼'′″‴&₀₁₂₃₄₅₆₇₈₉".contains(c) || (next_is_name_candidate && r.chance(2, 3)) {
                                out.push(' ');
                            }
                        }
                    }
                } else {
                    out.push_str(text);
                }
            }
            Token::Spaces => {
                out.push_str(text);
                if r.below(100) < spacing {
                    for _ in 0..1 + r.below(3) {
                        out.push(' ');
                    }
                }
            }
            Token::Simple(s) => {
                let st = format!("{s}");
                if st == "(" || st == "[" || st == "{" {
                    depth += 1;
                    out.push_str(text);
                    if r.below(400) < spacing {
                        out.push('\n');
                    } else if r.below(200) < spacing {
                        out.push(' ');
                    }
                } else if st == ")" || st == "]" || st == "}" {
                    depth -= 1;
                    if r.below(400) < spacing && !out.ends_with('\n') {
                        // only when the line so far holds no comment
                        let line = out.rsplit('\n').next().unwrap_or("");
                        if !line.contains('#') {
                            out.push('\n');
                        }
                    }
                    out.push_str(text);
                } else {
                    out.push_str(text);
                }
            }
            Token::Newline => {
                // the ; unsplit marker at the end of this line or at the start of the next one
                let code_line = !out.rsplit('\n').next().unwrap_or("").contains('#') && !out.rsplit('\n').next().unwrap_or("").trim().is_empty();
                let next_is_code = toks.get(i + 1).is_some_and(|t| !matches!(t.value, Token::Newline | Token::Comment | Token::Spaces));
                let mark = depth > 0 && code_line && next_is_code && r.below(500) < spacing;
                let at_end = r.chance(1, 2);
                if mark && at_end {
                    out.push_str(*r.pick(&[" ;", ";"]));
                }
                out.push_str(text);
                if mark && !at_end {
                    out.push_str(*r.pick(&[";", "; "]));
                }
                if depth == 0 && r.below(300) < spacing {
                    out.push('\n');
                }
                if r.below(200) < spacing {
                    for _ in 0..r.below(4) {
                        out.push(' ');
                    }
                }
            }
            Token::LeftArrow if r.below(100) < ascii && text == "←" => out.push('='),
            Token::LeftStrokeArrow if r.below(100) < ascii && text == "↚" => out.push_str(*r.pick(&["=~", "←~"])),
            Token::Number if r.below(100) < ascii && text.starts_with('¯') => {
                out.push('`');
                out.push_str(&text['¯'.len_utf8()..]);
            }
            Token::Comment if r.below(100) < spacing => {
                // "#x" / "# x" / "#  x"
                let body = text[1..].trim_start();
                out.push('#');
                for _ in 0..r.below(3) {
                    out.push(' ');
                }
                out.push_str(body);
            }
            Token::Subscr(_) if r.below(100) < ascii => {
                // ₁₂ -> ,12 or __12
                let digits: Option<String> = text.chars().map(|c| uiua::SUBSCRIPT_DIGITS.iter().position(|d| *d == c).map(|i| (b'0' + i as u8) as char)).collect();
                match digits {
                    Some(d) if !d.is_empty() => {
                        out.push_str(*r.pick(&[",", "__"]));
                        out.push_str(&d);
                        // a number right after would be swallowed
                        if let Some(nx) = toks.get(i + 1) {
                            if nx.span.start.byte_pos as usize == b && src[b..].chars().next().is_some_and(|c| c.is_ascii_digit()) {
                                out.push(' ');
                            }
                        }
                    }
                    _ => out.push_str(text),
                }
            }
            _ => out.push_str(text),
        }
        let _ = n;
    }
    out.push_str(&src[pos..]);
    Some(out)
}

// ---- generated programs

struct PG<'a> {
    r: &'a mut Rng,
    ascii: usize,
    spacing: usize,
    names: Vec<(String, usize)>, // bound function names with their arity (0 = constant)
    features: Vec<&'static str>,
}

impl<'a> PG<'a> {
    fn feat(&mut self, f: &'static str) {
        if !self.features.contains(&f) {
            self.features.push(f);
        }
    }
    fn sp(&mut self) -> String {
        if self.r.below(100) < self.spacing { " ".repeat(1 + self.r.below(3)) } else { " ".into() }
    }
    /// optional space (between tokens that do not need one)
    fn osp(&mut self) -> String {
        if self.r.below(100) < self.spacing { " ".repeat(1 + self.r.below(2)) } else { String::new() }
    }
    fn prim(&mut self, glyph: &str) -> String {
        let c = glyph.chars().next().unwrap();
        if self.r.below(100) < self.ascii {
            if let Some(p) = Primitive::from_glyph(c) {
                let name = p.name();
                if !name.is_empty() && name.chars().all(|c| c.is_ascii_lowercase()) {
                    self.feat("ascii-name");
                    return name.to_string();
                }
            }
            match glyph {
                "×" => return "*".into(),
                "÷" => return "%".into(),
                "≠" => return "!=".into(),
                "≤" => return "<=".into(),
                "≥" => return ">=".into(),
                _ => {}
            }
        }
        glyph.to_string()
    }
    fn num(&mut self) -> String {
        let r = &mut *self.r;
        if r.chance(1, 8) {
            // exponent signs, fractions with signs in either component, negative written ¯ or `
            return (*r.pick(&[
                "1e¯2", "1e`2", "1e-2", "2E3", "1.5e¯3", "1e¯2/3", "1e2/¯3", "¯1e¯2/3", "1/¯2", "¯1/¯2", "`1/`2", "3/`4", "π/¯2", "¯π/2", "1/¯π", "τ/4", "¯η", "1e¯2/3e¯1", "0.5/¯0.25", "¯∞", "1,000/¯8",
            ]))
            .into();
        }
        match r.below(14) {
            0 => format!("¯{}", r.range(1, 9)),
            1 => format!("`{}", r.range(1, 9)),
            2 => format!("{}.5", r.range(0, 9)),
            3 => "1e3".into(),
            4 => "π".into(),
            5 => "1/2".into(),
            6 => "1,000".into(),
            7 => "∞".into(),
            _ => format!("{}", r.range(0, 12)),
        }
    }
    fn string(&mut self) -> String {
        let r = &mut *self.r;
        match r.below(8) {
            0 => "\"a\\nb\"".into(),
            1 => "\"say \\\"hi\\\"\"".into(),
            2 => "\"# not a comment\"".into(),
            3 => "\"\"".into(),
            4 => "\"x_y  z\"".into(),
            5 => (*r.pick(&["\"\\\\\"", "\"a\\\\Rb\"", "\"\\\\Z\\\\N\""])).into(),
            _ => "\"abc\"".into(),
        }
    }
    fn chr(&mut self) -> String {
        (*self.r.pick(&["@a", "@\\n", "@ ", "@\\s", "@#", "@\"", "@\\\\", "@π", "@\\x41"])).into()
    }
    fn list(&mut self) -> String {
        let k = self.r.below(8);
        match k {
            0 => {
                self.feat("strand");
                let n = 2 + self.r.below(3);
                (0..n).map(|_| format!("{}", self.r.range(0, 9))).collect::<Vec<_>>().join("_")
            }
            1 => {
                self.feat("strand");
                format!("{}_{}", self.num(), self.num())
            }
            2 => {
                self.feat("array-multiline");
                let s1 = self.sp();
                format!("[1{}2\n 3 4]", s1)
            }
            3 => {
                self.feat("array-multiline");
                "[\n  1 2 3\n  4 5 6\n]".into()
            }
            4 => format!("{}{} 5", self.prim("⇡"), self.osp()),
            5 => "[]".into(),
            _ => {
                let n = 1 + self.r.below(4);
                let mut s = String::from("[");
                s.push_str(&self.osp());
                for i in 0..n {
                    if i > 0 {
                        s.push_str(&self.sp());
                    }
                    s.push_str(&self.num());
                }
                s.push_str(&self.osp());
                s.push(']');
                s
            }
        }
    }
    /// join atoms: a space where two atoms would lex as one token, optional spaces elsewhere
    fn join(&mut self, atoms: &[String]) -> String {
        let mut out = String::new();
        for a in atoms {
            if a.is_empty() {
                continue;
            }
            let (p, n) = (out.chars().last(), a.chars().next().unwrap());
            if let Some(p) = p {
                let word = |c: char| c.is_ascii_alphabetic();
                let need = if word(p) && word(n) {
                    // two primitive names may be written as one word: the lexer splits the run
                    let prev_word: String = out.chars().rev().take_while(|c| c.is_ascii_lowercase()).collect::<Vec<_>>().into_iter().rev().collect();
                    let both_prims = Primitive::from_name(&prev_word).is_some() && Primitive::from_name(a).is_some() && prev_word.len() >= 3 && a.len() >= 3;
                    if both_prims && self.r.chance(1, 3) {
                        self.feat("name-run");
                        false
                    } else {
                        true
                    }
                } else {
                    (p.is_ascii_digit() || p == '.') && (n.is_ascii_digit())
                        || p.is_ascii_digit() && (n == 'e' || n == 'E')
                        || uiua::is_ident_char(p) && (uiua::is_ident_char(n))
                        || "!‼".contains(p) && n == '='
                        || p.is_alphanumeric() && (n == '=' || n == '←' || n == '↚' || n == '~' || n == '`' || n == '¯' || n == ',' || n == '_' || n == '!' || n == '&' || n == '\'')
                        || (p == ',' || p == '_') && true
                        || uiua::SUBSCRIPT_DIGITS.contains(&p) && (n.is_ascii_digit() || uiua::SUBSCRIPT_DIGITS.contains(&n))
                        || p == '@'
                        || p == '\n'
                            && false
                };
                if p == '\n' || n == '\n' || p == ' ' {
                } else if need {
                    out.push_str(&self.sp());
                } else {
                    out.push_str(&self.osp());
                }
            }
            out.push_str(a);
        }
        out
    }
    /// a monadic function (1 -> 1) on numbers / numeric arrays, as atoms
    fn fun1(&mut self, depth: usize) -> Vec<String> {
        let k = self.r.below(if depth == 0 { 5 } else { 16 });
        let s = |x: &str| x.to_string();
        match k {
            0 => vec![self.prim(*self.r.clone().pick(&["¯", "¬", "⌵", "±", "√", "⌊", "⌈", "∘", "⇌", "♭", "△", "⧻"]))],
            1 => vec![self.prim(*self.r.clone().pick(&["+", "-", "×", "↥", "↧", "≠", "<", "⊂"])), self.num()],
            2 => vec![self.prim(*self.r.clone().pick(&["¯", "¬", "⌵", "⇌"])), self.prim(*self.r.clone().pick(&["√", "⌊", "±", "♭"]))],
            3 => vec![self.prim("+"), self.prim(".")],
            4 => {
                let cands: Vec<String> = self.names.iter().filter(|(n, a)| *a == 1 && !n.ends_with('!')).map(|(n, _)| n.clone()).collect();
                if cands.is_empty() { vec![self.prim("¬")] } else { vec![self.r.pick(&cands).clone()] }
            }
            5 => {
                self.feat("subscript");
                let sub = *self.r.clone().pick(&["₂", ",2", "__2", "₂"]);
                vec![format!("{}{sub}", self.prim("⊟")), s("1")]
            }
            6 | 7 => {
                self.feat("inline-function");
                let mut v = vec![s("(")];
                v.extend(self.fun1(depth - 1));
                v.push(s(")"));
                v
            }
            8 => {
                let mut v = vec![self.prim(*self.r.clone().pick(&["≡", "∵", "⍚"])), s("(")];
                v.extend(self.fun1(depth - 1));
                v.push(s(")"));
                v
            }
            9 => {
                self.feat("pack");
                let (f, g) = (self.fun1(depth - 1), self.fun1(depth - 1));
                let mut v = vec![self.prim("+"), self.prim("⊃"), s("(")];
                match self.r.below(3) {
                    0 => {
                        v.extend(f);
                        v.push(s("|"));
                        v.extend(g);
                    }
                    1 => {
                        self.feat("pack-multiline");
                        v.extend(f);
                        v.push(s("\n"));
                        v.push(s("| "));
                        v.extend(g);
                    }
                    _ => {
                        self.feat("pack-multiline");
                        v.push(s("\n"));
                        v.push(s("  "));
                        v.extend(f);
                        v.push(s("\n"));
                        v.push(s("| "));
                        v.extend(g);
                        v.push(s("\n"));
                    }
                }
                v.push(s(")"));
                v
            }
            10 => {
                self.feat("signature");
                let mut v = vec![s("("), s("|1 ")];
                v.extend(self.fun1(depth - 1));
                v.push(s(")"));
                v
            }
            11 => {
                self.feat("function-multiline");
                let (f, g) = (self.fun1(depth - 1), self.fun1(depth - 1));
                let mut v = vec![s("(")];
                match self.r.below(3) {
                    0 => {
                        v.push(s("\n"));
                        v.push(s("  "));
                        v.extend(f);
                        v.push(s("\n"));
                        v.push(s("  "));
                        v.extend(g);
                        v.push(s("\n"));
                    }
                    1 => {
                        v.extend(f);
                        v.push(s("\n"));
                        v.push(s(" "));
                        v.extend(g);
                    }
                    _ => {
                        v.push(s("\n"));
                        v.push(s("  "));
                        v.extend(f);
                        v.push(s(" # c"));
                        v.push(s("\n"));
                        v.push(s("  "));
                        v.extend(g);
                        v.push(s("\n"));
                    }
                }
                v.push(s(")"));
                v
            }
            12 => {
                let mut v = vec![self.prim("⍜"), self.prim("⊢"), s("(")];
                v.extend(self.fun1(depth - 1));
                v.push(s(")"));
                v.push(self.prim("¤"));
                v
            }
            13 => {
                let mut v = vec![self.prim("⊙"), s("(")];
                v.extend(self.fun1(depth - 1));
                v.push(s(")"));
                v.push(self.prim("◌"));
                v.push(s("0"));
                v
            }
            14 => {
                let cands: Vec<String> = self.names.iter().filter(|(n, _)| n.ends_with('!')).map(|(n, _)| n.clone()).collect();
                if cands.is_empty() {
                    vec![self.prim("⌵")]
                } else {
                    self.feat("macro-call");
                    let mut v = vec![self.r.pick(&cands).clone() + "("];
                    v.extend(self.fun1(depth - 1));
                    v.push(s(")"));
                    v
                }
            }
            _ => {
                let mut v = vec![self.prim("⍥"), s("(")];
                v.extend(self.fun1(depth - 1));
                v.push(s(")"));
                v.push(s("2"));
                v
            }
        }
    }
    fn fun1s(&mut self, depth: usize) -> String {
        let a = self.fun1(depth);
        self.join(&a)
    }
    fn expr(&mut self) -> String {
        let k = self.r.below(13);
        let atoms: Vec<String> = match k {
            12 => {
                // a name followed by the primitive = written by name ("Abc equals 3")
                let cands: Vec<String> = self.names.iter().filter(|(n, a)| *a == 0 && !n.contains('~')).map(|(n, _)| n.clone()).collect();
                if cands.is_empty() {
                    vec![self.prim("≠"), self.num(), self.num()]
                } else {
                    self.feat("name-equals");
                    let eq = (*self.r.pick(&["equals", "eq", "equals"])).to_string();
                    vec![self.r.pick(&cands).clone(), eq, self.num()]
                }
            }
            0 => vec![self.num()],
            1 => vec![self.list()],
            2 => {
                self.feat("string");
                vec![self.string()]
            }
            3 => {
                self.feat("char");
                vec![self.chr()]
            }
            4 => vec![self.prim(*self.r.clone().pick(&["+", "-", "×", "÷", "↥", "≠", "≤", "⊂", "⊟"])), self.num(), self.num()],
            5 => {
                self.feat("format-string");
                vec!["$\"_ and _\"".to_string(), self.num(), self.string()]
            }
            6 => {
                self.feat("box-array");
                vec!["{".to_string(), self.num(), self.string(), "}".to_string()]
            }
            7 => {
                let cands: Vec<String> = self.names.iter().filter(|(_, a)| *a == 0).map(|(n, _)| n.clone()).collect();
                if cands.is_empty() { vec![self.num()] } else { vec![self.r.pick(&cands).clone()] }
            }
            8 => vec![self.prim("/"), self.prim("+"), self.list()],
            _ => {
                let mut v = self.fun1(2);
                v.push(if self.r.chance(1, 2) { self.list() } else { self.num() });
                v
            }
        };
        self.join(&atoms)
    }
    fn comment(&mut self) -> String {
        let r = &mut *self.r;
        let c = *r.pick(&["# plain", "#nospace", "#  two spaces", "# # nested", "# ## x", "#", "# ", "# ? G VelPos", "#?", "#!shebang", "# ! bang", "# a # b", "# \"quote", "# 日本 ✨"]);
        match c {
            "# # nested" | "# ## x" => self.feat("comment-hash-hash"),
            "# ? G VelPos" => self.feat("comment-hash-question"),
            "#!shebang" | "# ! bang" => self.feat("comment-bang"),
            _ => self.feat("comment"),
        }
        c.to_string()
    }
    fn item(&mut self, depth: usize, out: &mut Vec<String>) {
        let ind = "  ".repeat(depth);
        let k = self.r.below(30);
        match k {
            0..=7 => {
                let e = self.expr();
                let eol = if self.r.chance(1, 4) { format!("{}{}", self.sp(), self.comment()) } else { String::new() };
                out.push(format!("{ind}{e}{eol}"));
            }
            8 | 9 => {
                let c = self.comment();
                out.push(format!("{ind}{c}"));
            }
            10..=12 => {
                // function binding
                self.feat("binding");
                let name = format!("F{}", (b'a' + self.names.len() as u8 % 26) as char);
                let f = self.fun1s(2);
                let arrow = if self.r.below(100) < self.ascii {
                    self.feat("ascii-arrow");
                    "="
                } else if self.r.chance(1, 6) {
                    self.feat("private-binding");
                    *self.r.pick(&["↚", "=~", "←~"])
                } else {
                    "←"
                };
                let sig = if self.r.chance(1, 5) {
                    self.feat("signature");
                    "|1 "
                } else {
                    ""
                };
                let pre = if self.r.chance(1, 4) { self.osp() } else { " ".into() };
                out.push(format!("{ind}{name}{pre}{arrow}{}{sig}{f}", self.sp()));
                self.names.push((name, 1));
            }
            13 | 14 => {
                self.feat("binding");
                let name = format!("X{}", (b'a' + self.names.len() as u8 % 26) as char);
                let e = self.expr();
                let arrow = if self.r.below(100) < self.ascii { "=" } else { "←" };
                out.push(format!("{ind}{name} {arrow}{}{e}", self.sp()));
                self.names.push((name, 0));
            }
            15 => {
                self.feat("macro-binding");
                let name = format!("M{}!", (b'a' + self.names.len() as u8 % 26) as char);
                out.push(format!("{ind}{name} ← ^0{}^0", self.osp()));
                self.names.push((name, 1));
            }
            16 if depth == 0 => {
                self.feat("module");
                let name = format!("Mod{}", (b'A' + self.names.len() as u8 % 26) as char);
                let open = *self.r.pick(&["┌─╴", "┌─╴", "┌╶╶"]);
                out.push(format!("{open}{name}"));
                let saved = self.names.clone();
                let n = 1 + self.r.below(3);
                for _ in 0..n {
                    self.item(depth + 1, out);
                }
                let inner: Vec<(String, usize)> = self.names[saved.len()..].to_vec();
                self.names = saved;
                out.push((*self.r.pick(&["└─╴", "└─╴", "└╶╶"])).to_string());
                for (n2, a) in inner {
                    if !n2.ends_with('!') && open != "┌╶╶" || true {
                        self.names.push((format!("{name}~{n2}"), a));
                    }
                }
            }
            17 if depth == 0 => {
                self.feat("import");
                match self.r.below(4) {
                    0 => {
                        out.push("Ex ~ \"example\"".into());
                        self.names.push(("Ex~Double".into(), 1));
                        self.names.push(("Ex~Foo".into(), 0));
                    }
                    1 => {
                        out.push("~ \"example\" ~ Square Foo".into());
                        self.names.push(("Square".into(), 1));
                    }
                    2 => {
                        out.push("Ex ~ \"example\"\n~ Increment Double\n  ~ Bar".into());
                        self.names.push(("Increment".into(), 1));
                    }
                    _ => {
                        out.push("~ \"example\"\n  ~ Span Foo\n  ~ Bar Double\n".into());
                        self.names.push(("Double".into(), 1));
                    }
                }
            }
            18 | 19 if depth == 0 => {
                self.feat("data-def");
                let name = format!("D{}", (b'a' + self.names.len() as u8 % 26) as char);
                match self.r.below(5) {
                    0 => out.push(format!("~{name} {{A B}}")),
                    1 => out.push(format!("~{name} [A{}B]", self.sp())),
                    2 => out.push(format!("~{name} {{\n  A # first\n  B ← 5\n}}")),
                    3 => out.push(format!("~{name} {{A ← 1|B ← 2}}")),
                    _ => out.push(format!("~{name} {{A: °0type|B}}")),
                }
                out.push(format!("{name} 1 2"));
                self.names.push((format!("{name}~A"), 1));
            }
            20 => {
                self.feat("multiline-string");
                let n = 1 + self.r.below(3);
                let mut s = String::new();
                for i in 0..n {
                    if i > 0 {
                        s.push('\n');
                        s.push_str(&ind);
                    }
                    s.push_str(*self.r.pick(&["$ raw \"text\" # here", "$ ", "$  two", "$ a\\nb", "$ x_y", "$ trailing  ", "$ hi "]));
                }
                if self.r.chance(1, 2) {
                    let name = format!("S{}", (b'a' + self.names.len() as u8 % 26) as char);
                    out.push(format!("{ind}{name} ← {}", s.replace('\n', &format!("\n{}", " ".repeat(name.len() + 3)))));
                } else {
                    out.push(format!("{ind}{s}"));
                }
            }
            21 => {
                self.feat("multiline-format-string");
                out.push(format!("{ind}$$ a _ b\n{ind}$$ c\n{ind}5"));
            }
            22 => {
                self.feat("output-comment");
                let e = self.expr();
                out.push(format!("{ind}{e}\n{ind}##"));
            }
            23 => {
                self.feat("output-comment");
                let e = self.expr();
                out.push(format!("{ind}{e} ## stale"));
            }
            24 => {
                self.feat("type-sig-comment");
                let name = format!("T{}", (b'a' + self.names.len() as u8 % 26) as char);
                out.push(format!("{ind}{name} ← +1 #?"));
                self.names.push((name, 1));
            }
            25 => {
                self.feat("semantic-comment");
                out.push(format!("{ind}{}", *self.r.pick(&["# Experimental!", "#exp", "# No inline!", "# Track caller!"])));
                let name = format!("N{}", (b'a' + self.names.len() as u8 % 26) as char);
                out.push(format!("{ind}{name} ← +1"));
                self.names.push((name, 1));
            }
            26 => {
                self.feat("binding-multiline");
                let name = format!("G{}", (b'a' + self.names.len() as u8 % 26) as char);
                let (f, g) = (self.fun1s(1), self.fun1s(1));
                match self.r.below(3) {
                    0 => out.push(format!("{ind}{name} ← (\n{ind}  {f}\n{ind}  {g}\n{ind})")),
                    1 => out.push(format!("{ind}{name} ← ({f} # one\n{ind}  {g})")),
                    _ => out.push(format!("{ind}{name} ←\n{ind}  {f}")),
                }
                self.names.push((name, 1));
            }
            27 => {
                self.feat("flip-line");
                out.push(format!("{ind}(1;2)"));
            }
            28 => out.push(String::new()),
            _ => {
                let e = self.expr();
                out.push(format!("{ind}{e}"));
            }
        }
    }
    fn program(&mut self) -> String {
        let mut out = Vec::new();
        if self.r.chance(1, 3) {
            out.push("# Experimental!".to_string());
        }
        let n = 1 + self.r.below(7);
        for _ in 0..n {
            self.item(0, &mut out);
        }
        let mut s = out.join("\n");
        if self.r.chance(2, 3) {
            s.push('\n');
        }
        s
    }
}

fn gen_program(r: &mut Rng) -> (String, Vec<&'static str>) {
    let ascii = *r.pick(&[0usize, 30, 60, 100]);
    let spacing = *r.pick(&[0usize, 20, 60]);
    let mut g = PG { r, ascii, spacing, names: Vec::new(), features: Vec::new() };
    let s = g.program();
    let mut f = g.features.clone();
    if ascii > 0 {
        f.push("ascii");
    }
    if spacing > 0 {
        f.push("odd-spacing");
    }
    (s, f)
}

/// hand-written seeds: earlier counterexamples and the constructs of the property's quantifier
const SEEDS: &[&str] = &[
    // the bracket closes on a joined line whose front line ended in a comment (23f98df)
    "⊃(1|2 # c\n;3)\n",
    "⊃(1 # c\n;3|2)\n",
    "{1 # c\n;3}\n",
    "F ← (1 # c\n;3)\nF\n",
    "((1 # c\n;3))\n",
    "[[1 # c\n;3]]\n",
    "(1 ## \n;3)\n",
    "(1 # c\n;3)\n",
    "[1 # c\n;3]\n",
    "(# c\n;3)\n",
    "(#\n;)",
    // a comment ending the front line of a ; join (98f6f40), alignment of joined bindings (56f6c63)
    "X ← 3\nF ← (\n  X ;\n  # c\n)\nF\n",
    "X ← 3\nY ← 4\nF ← (\n  X # a\n  ;Y # b\n)\nF\n",
    "X ← 3\nF ← (\n  X ;\n  ## \n  1\n)\nF\n",
    "[1 ;\n # c\n 2]\n",
    "[1 # a\n ;2 # b\n]\n",
    "1 ;\n# c\n2\n",
    "XY ← 1\nG ← (2 # c\n;3)\nH ← 4\n",
    "XY ← 1\nG ← [2\n;3]\nHij ← 4\n",
    "X ← 3\nF ← (\n  X ;\n  # c\n  Y\n)\nF\n",
    "X←3\nF←(\nX;\n#\n)\nF",
    "XY ← 1\nG ← (2\n;3)\n",
    "XY←\nG←(;\n)",
    // number literals with exponent signs, fractions, signs in both components; lone negative subscripts
    "1e¯2/3\n",
    "1e`2/3 1e-2/3\n",
    "1/¯2 ¯1/¯2 `1/`2 1/`2\n",
    "1e¯2/¯3 ¯1e¯2/3e¯1\n",
    "π/¯2 ¯π/2 1/¯π\n",
    "1.5e¯3 2E¯2 1e+2\n",
    "₋₅\n",
    "₋₅ 3\n",
    "+₋₅ 3\n",
    "⊟₋₁ 1 2\n",
    "[₋₂ ₃]\n",
    // the ; unsplit marker
    "X ← 3\nY ← 10\nYX ← 100\nF ← (\n  X ;\n  Y\n)\nF\nG ← (X\n  ;Y)\nG\n",
    "X ← 3\nY ← 10\nF ← (\n  1\n  X ;\n  Y\n)\nF\n",
    "(1\n 2 ;\n 3)\n",
    "[1\n 2 ;\n 3]\n",
    "(1;\n2)\n",
    "(1\n;2)\n",
    "(1\n; 2)\n",
    "1 ;\n2\n",
    "1\n2 ;\n3\n",
    "⊙(\n+|\n×) 1 2 3\n",
    // multi-line layout: what still needs two passes after round 4 (C10-2, narrowed)
    "[\n4]",
    "({\nn})",
    "(\n1|)[]",
    "{(\n+|)}",
    "((\n)|)",
    "([\n]|)",
    "(+\n|-)1",
    "((¬\n|6)c)",
    "⊃(∘\n)(⇌)°",
    "⊃{0\n}{0}[]",
    "(\n[(())])[\n3]",
    // multi-line layout: inputs that needed two passes before 934337b / 9655245 / 6d3ddf9 (C10-2)
    "[\n2\n4]",
    "[\n4] ",
    "{[\n1]}",
    "[[\n𝕍]]",
    "{\n3}{}",
    "(+\n|) ",
    "(\n+|) ",
    "(()\n|⌵)1",
    "(()\n|())[]",
    "⊃(∘\n)(⇌) ",
    "⊃(\n⊙)(-) ",
    "a←((.\n1))",
    "Fc t((√\n√))",
    "b (1 (a\n√))",
    "|1⍥((e\n4))",
    "und(\ns)[()] ",
    "┌─╴B G←(e\na)",
    "┌╶╶\nd←(¤\n±)",
    "┌─╴\nGa (e\n())",
    "((|1 X=)o)\n",
    "((|1!=)o)\n",
    // end-of-line comments, their alignment and appended output comments (glyph map / padding repairs of round 3)
    "1 # a\n22 ## \n333 # c\n",
    "+1 2 ## 3\n4 # x\n",
    "[1 2 3] ##\n[4 5] # c\n",
    "⊃(+|-) 1 2 # é✨\n1 ##\n",
    "1 # 日本\n22 # b\n## \n",
    "F ← (\n  1 # a\n  22 ## \n)\n",
    "1 ##\n  ##\n2 # c\n",
    "[1 2\n 3 4] ##\n5 # c\n",
    "1 2 3 ## 1\n      ## 2\n      ## 3\n4 # c\n",
    "\"é✨\" # c\n1 ## \n",
    "# # t\n1 # # t\n",
    "#  x\n1 #  x\n",
    "# ?t\n",
    "#?\n# ? x\n",
    "1 #! x\n# !y\n",
    "Abc ← 5\nAbc equals 3\n",
    "Abc ← 5\nAbc eq 3\n",
    "x ← 5\nx equals 3\n",
    "X ← $ hi  \n1 # c\n",
    "X ← $ hi \nY ← 2 # c\n",
    "$ hi  \n1 # c\n",
    "\"a\\\\Rb\"\n",
    "@\\\\ \"\\\\Z\"\n",
    "$\"a\\\\N_\" 1\n",
    "/, 5\n",
    "/+, 5\n",
    "≡, 1\n",
    "┌─╴Outer\n  ┌╶╶M ~ A B\n    A ← 5\n    B ← 7\n  └╶╶\n  C ← +A B\n└─╴\n&p Outer.A\n&p Outer.C\n",
    "┌╶╶M ~ A\n  A ← 5\n└╶╶\nA\n",
    "┌─╴M ≁ A\n  A ← 5\n└─╴\nA\n",
    "# # text\n",
    "1 # # text\n",
    "# ? G VelPos\n",
    "# ## x\n",
    "#!shebang\n1\n",
    "# ! x\n",
    "## 1\n",
    "1 2\n##\n",
    "+1 2 ## 3\n",
    "F ← +1 #?\n",
    "revrev [1 2 3]\n",
    "F = + 1\nF 2\n",
    "F =~ 5\n",
    "X ↚ 5\nX\n",
    "dipdip(+)1 2 3 4\n",
    "Abc ← 5\nAbc by +\n",
    "Abc ← 5\nAbc  by +\n",
    "json by\n",
    "ran,1 10\n",
    "ran,1  10\n",
    "⇡₁ 10\n",
    "1_2_3\n",
    "+_-\n",
    "[1 2\n 3 4]\n",
    "[\n  1 2\n  3 4]\n",
    "⊃(+|-) 1 2\n",
    "⊃(+\n|-) 1 2\n",
    "⊃(\n  +\n| -\n) 1 2\n",
    "(|2 +) 1 2\n",
    "F ← |2.1 +\n",
    "┌─╴M\n  X ← 5\n└─╴\nM~X\n",
    "┌─╴M\nX ← 5\n└─╴\n",
    "┌╶╶M\n  X ← 5\n└╶╶\n",
    "┌─╴M ~ X\n  X ← 5\n└─╴\nX\n",
    "~ \"example\" ~ Foo Bar\nFoo\n",
    "Ex ~ \"example\"\nEx~Foo\n",
    "~ \"example\"\n  ~ Foo\n  ~ Bar\n",
    "~P {A B}\nP 1 2\n",
    "~P [A B]\nP~A P 1 2\n",
    "~{A B}\n",
    "~P {A ← 1|B ← 2}\n",
    "~P {\n  A # x\n  B\n}\n",
    "|V {X}\n",
    "M! ← ^0 ^0\nM!+ 1\n",
    "M! ← ^0\nM!(+1) 2\n",
    "M!=\n",
    "∘ M! =\n",
    "F‼ ← ^0 ^1\nF‼+- 1 2 3\n",
    "⊟₂ 1 2\n",
    "⊟,2 1 2\n",
    "⊟__2 1 2\n",
    "□₂1 2\n",
    "\"a\\nb\\\"c\\\\\"\n",
    "$\"_ and _\" 1 2\n",
    "$ raw text # not comment\n$ second\n",
    "$$ fmt _ raw\n$$ more\n5\n",
    "X ← $ a\n    $ b\n",
    "@a @\\n @\\s\n",
    "¯5 `5 ¯ 5\n",
    "1,000 1,2\n",
    "1 ¯2\n",
    "1¯2\n",
    "3`2\n",
    "(1;2)\n",
    "(\n; 1\n;2)\n",
    "+ 1 2;;3\n",
    "F ← (\n  +1\n  ×2 # c\n)\n",
    "F ← (+1 # c\n)\n",
    "[1 2 3 # c\n]\n",
    "{\n  1\n  \"a\"\n}\n",
    "1 # a\n22 # b\n\n333 # c\n",
    "\n\n\n1\n\n\n2\n\n\n",
    "   1   2   \n",
    "id\n",
    "pi tau eta\n",
    "piτ\n",
    "un sqrt 4\n",
    "unsqrt 4\n",
    "⍜⊢(+1) [1 2]\n",
    "undfir(+1) [1 2]\n",
    "\\\\25cb\n",
    "utf 5\n",
    "utf₈ \"a\"\n",
    "&p \"hi\"\n&p\"x\"\n",
    "&pf 1\n",
    "F ← ⊃(+|-\n| ×)\n",
    "≡(\n  +1\n) [1 2]\n",
    "∘∘(\n  ( ∘\n  )\n)\n",
    "a ← 1\nb ← 2\na b\n",
    "Xx ← 1\nrev Xx\n",
    "x ← 1\nrevx\n",
    "# Experimental!\nF ← +1\n",
    "#exp\n1\n",
    "F ← +1 # Track caller!\n",
    "⚂\n",
    "°{A B} {1 2}\n",
    "Foo ← {\n  1 # one\n  # two\n  2\n}\n",
];

// ---------------------------------------------------------------- model tokens (C tie)

/// token classes of coq/Model/Fmt.v
#[derive(Clone, Debug, PartialEq)]
enum MTok {
    Lower(String),
    Upper(String, usize),
    Glyph(char),
    Names(Vec<char>),
    Eq,
    Num(bool, String),
    Sub(String),
    SubA(String),
    Strand,
    Open(char),
    Close(char),
    Str(String),
    Chr(char),
    Space(bool),
}

fn main() {
    std::panic::set_hook(Box::new(|_| {}));
    let mode = std::env::args().nth(1).unwrap_or_default();
    let n: usize = std::env::args().nth(2).and_then(|s| s.parse().ok()).unwrap_or(100);
    let seed = seed_from_env();
    match mode.as_str() {
        "probe" => {
            let cfg = Cfg::parse(&std::env::args().nth(2).unwrap_or_default());
            let mut src = String::new();
            std::io::Read::read_to_string(&mut std::io::stdin(), &mut src).unwrap();
            println!("config: {}", cfg.name());
            match fmt(&src, &cfg) {
                Ok(Ok(f1)) => {
                    println!("format(s)         = {f1:?}");
                    match fmt(&f1, &cfg) {
                        Ok(Ok(f2)) => println!("format(format(s)) = {f2:?}{}", if f2 == f1 { "  (fixed point)" } else { "  (DIFFERS)" }),
                        o => println!("format(format(s)) fails: {o:?}"),
                    }
                }
                o => println!("format fails: {o:?}"),
            }
            println!("interface(s)      = {}", interface_of(&src));
            println!("as module body    = {}", wrapped_interface_of(&src));
            let mut ctx = Ctx::new(true);
            for v in check(&mut ctx, &src, &cfg, None, None) {
                println!("VIOLATION {}: {}", v.kind, v.detail);
            }
        }
        "glyphs" => {
            let v: Vec<String> = glyph_pool().iter().map(|(c, _)| (*c as u32).to_string()).collect();
            println!("[{}]", v.join("; "));
            let v: Vec<String> = glyph_pool().iter().map(|(c, n)| format!("{c}={n}")).collect();
            println!("{}", v.join(" "));
        }
        "search" => search(n, seed),
        "vtie" => vtie(n, seed),
        "ctie" => ctie(n, seed),
        _ => eprintln!("usage: c10 search|vtie|ctie N | probe CFG < input"),
    }
}

struct Source {
    cat: &'static str,
    text: String,
    features: Vec<&'static str>,
}

/// scoped modules with header import lines in all four visibility combinations (┌─╴/┌╶╶ x ~/≁), at file
/// level and nested, with uses of imported / non-imported / private names from outside (compiling and
/// non-compiling variants: "compiles iff" must hold both ways), private bindings, private imports
fn module_family() -> Vec<String> {
    let mut out = Vec::new();
    for (open, close) in [("┌─╴", "└─╴"), ("┌╶╶", "└╶╶")] {
        for tilde in ["~", "≁"] {
            for arrow in ["←", "↚"] {
                let inner = format!("{open}M {tilde} A B\n  A {arrow} 5\n  B ← 7\n  D ← 1\n{close}\n");
                // file level: uses after the module
                for use_ in ["", "A\n", "+A B\n", "M.A\n", "M~D\n", "D\n", "C ← +A B\nC\n", "~ \"example\" ~ Foo\n+Foo A\n"] {
                    out.push(format!("{inner}{use_}"));
                }
                // nested in a public / private outer module, used from outside
                for (oo, oc) in [("┌─╴", "└─╴"), ("┌╶╶", "└╶╶")] {
                    let nested: String = inner.lines().map(|l| format!("  {l}\n")).collect();
                    for use_ in ["Outer.A\n", "Outer.C\n", "Outer.M.D\n", "Outer.D\n", "Outer~B\n", "&p Outer.A\n&p Outer.C\n", ""] {
                        out.push(format!("{oo}Outer\n{nested}  C ← +A B\n{oc}\n{use_}"));
                    }
                    // the outer module re-exports through its own header line
                    out.push(format!("{oo}Outer {tilde} C\n{nested}  C ← +A B\n{oc}\nC\n"));
                }
            }
        }
    }
    // odd spellings of the same header lines
    out.push("┌─╴M  ≁  B   A\n  A ← 5\n  B ← 7\n└─╴\n+A B\n".into());
    out.push("┌╶╶M~A\n  A ← 5\n└╶╶\nA\n".into());
    out.push("┌─╴M ~ A\nA ← 5\n└─╴\nA\n".into());
    out.push("---M ~ A\n  A ← 5\n---\nA\n".into());
    // private bindings and private imports seen from outside
    for use_ in ["M.A\n", "M.B\n", "M.Ex.Foo\n", "M.Foo\n", "M.Bar\n", ""] {
        out.push(format!("┌─╴M\n  A ↚ 5\n  B ← A\n  Ex ≁ \"example\"\n  ~ \"example\" ≁ Foo\n  ~ \"example\" ~ Bar\n└─╴\n{use_}"));
        out.push(format!("┌─╴M\n  A =~ 5\n  B = A\n  Ex ~ \"example\"\n  ≁ \"example\" ~ Foo\n└─╴\n{use_}"));
    }
    out.push("Ex ≁ \"example\"\nEx.Foo\n".into());
    out.push("≁ \"example\" ~ Foo\nFoo\n".into());
    out.push("~ \"example\"\n  ≁ Foo\n  ~ Bar\nFoo Bar\n".into());
    out.push("A ↚ 5\nB ← A\nB\n".into());
    out
}

/// the `;` unsplit marker: two lines joined into one (the later line first, outside arrays), in multi-line
/// functions, top-level blocks and arrays; the marker at a line's end or start, with and without spaces,
/// between identifiers, numbers, glyphs and strings (words that would lex as one if printed side by side)
fn unsplit_family() -> Vec<String> {
    let mut out = Vec::new();
    let pre = "X ← 3\nY ← 10\nYX ← 100\nXY ← 200\n";
    let words: [(&str, &str); 7] = [("X", "Y"), ("Y", "X"), ("1", "2"), ("X", "2"), ("+", "X"), ("\"a\"", "\"b\""), ("¯", "5")];
    for (a, b) in words {
        for (m1, m2) in [(" ;\n", ""), (";\n", ""), ("\n", ";"), ("\n", "; "), (" ;\n", " "), ("\n", "  ;")] {
            // a marker at the end of the first line, of a later line, at the start of a line
            let joined = format!("{a}{m1}{ind}{m2}{b}", ind = "  ");
            out.push(format!("{pre}F ← (\n  {joined}\n)\nF\n"));
            out.push(format!("{pre}F ← (\n  0\n  {joined}\n)\nF\n"));
            out.push(format!("{pre}G ← ({a}{m1}  {m2}{b})\nG\n"));
            out.push(format!("{pre}[{a}{m1} {m2}{b}]\n"));
            out.push(format!("{pre}[0\n {a}{m1} {m2}{b}]\n"));
            out.push(format!("{pre}{{{a}{m1} {m2}{b}\n 7}}\n"));
            // top-level block
            out.push(format!("{pre}{a}{m1}{m2}{b}\n"));
            out.push(format!("{pre}0\n{a}{m1}{m2}{b}\n9\n"));
            // inside a pack branch and a modifier's operand
            out.push(format!("{pre}⊃(1|\n  {a}{m1}  {m2}{b})\n"));
            out.push(format!("{pre}⊙(\n  {a}{m1}  {m2}{b}\n) 4\n"));
        }
    }
    // three lines chained, flips inside one line, with comments
    out.push(format!("{pre}F ← (\n  X ;\n  Y ;\n  1\n)\nF\n"));
    out.push(format!("{pre}F ← (\n  X\n  ;Y\n  ;1\n)\nF\n"));
    out.push(format!("{pre}F ← (X;Y)\nF\n"));
    out.push(format!("{pre}F ← (X ; Y ; 1)\nF\n"));
    out.push(format!("{pre}F ← (\n  X ; # c\n  Y\n)\nF\n"));
    out.push(format!("{pre}F ← (\n  X ;\n  # c\n  Y\n)\nF\n"));
    out.push(format!("{pre}(X;;Y)\n"));
    out
}

fn sources(n: usize, seed: u64, quick: bool) -> Vec<Source> {
    let mut r = Rng::new(seed ^ 0x10);
    let files = corpus_files();
    let chunks = corpus_chunks(&files);
    let mut out = Vec::new();
    for s in SEEDS {
        out.push(Source { cat: "seed", text: s.to_string(), features: vec![] });
    }
    let fam = module_family();
    for (i, m) in fam.iter().enumerate() {
        // quick: every 3rd member, rotating with the seed (all of them in the thorough tier)
        if !quick || (i as u64 + seed) % 4 == 0 {
            out.push(Source { cat: "module-visibility", text: m.clone(), features: vec![] });
        }
    }
    let fam = unsplit_family();
    for (i, m) in fam.iter().enumerate() {
        if !quick || (i as u64 + seed) % 5 == 0 {
            out.push(Source { cat: "unsplit-marker", text: m.clone(), features: vec![] });
        }
    }
    for (_, t) in &files {
        if t.len() < 60000 {
            out.push(Source { cat: "corpus-file", text: t.clone(), features: vec![] });
        }
    }
    for c in &chunks {
        out.push(Source { cat: "corpus-chunk", text: c.clone(), features: vec![] });
    }
    // variants of corpus chunks: ASCII names, odd spacing
    let nv = if quick { chunks.len() / 3 } else { chunks.len() * 3 };
    for i in 0..nv {
        let c = &chunks[if quick { r.below(chunks.len()) } else { i % chunks.len() }];
        let (ascii, spacing, cat) = match i % 3 {
            0 => (100, 0, "chunk-ascii"),
            1 => (0, 60, "chunk-spacing"),
            _ => (50, 30, "chunk-ascii-spacing"),
        };
        if let Some(v) = variant(&mut r, c, ascii, spacing) {
            if &v != c {
                out.push(Source { cat, text: v, features: vec![] });
            }
        }
    }
    for _ in 0..n {
        let (s, f) = gen_program(&mut r);
        out.push(Source { cat: "generated", text: s, features: f });
    }
    out
}

fn search(n: usize, seed: u64) {
    let quick = arg_str("--configs").as_deref() != Some("all");
    let cfgs = if quick { Cfg::quick() } else { Cfg::all() };
    let srcs = Arc::new(sources(n, seed, quick));
    let nthreads = arg_usize("--threads", 8).max(1);
    let cfgs = Arc::new(cfgs);
    let mut handles = Vec::new();
    for t in 0..nthreads {
        let srcs = srcs.clone();
        let cfgs = cfgs.clone();
        handles.push(std::thread::Builder::new().stack_size(256 << 20).spawn(move || {
            let mut ctx = Ctx::new(true);
            let mut stats = Stats::default();
            let mut found: Vec<(usize, Cfg, Viol)> = Vec::new();
            for (i, s) in srcs.iter().enumerate() {
                if i % nthreads != t {
                    continue;
                }
                stats.sources += 1;
                for f in &s.features {
                    *stats.features.entry(f).or_default() += 1;
                }
                let mut seen_kinds: Vec<&'static str> = Vec::new();
                for cfg in cfgs.iter() {
                    stats.evaluations += 1;
                    *stats.by_cat.entry(s.cat.to_string()).or_default() += 1;
                    for v in check(&mut ctx, &s.text, cfg, None, Some(&mut stats)) {
                        *stats.by_kind.entry(v.kind.to_string()).or_default() += 1;
                        // one report per (source, kind): the first configuration in the list that shows it
                        if !seen_kinds.contains(&v.kind) {
                            seen_kinds.push(v.kind);
                            found.push((i, *cfg, v));
                        }
                    }
                }
                ctx.trim();
            }
            stats.n_compile = ctx.n_compile;
            stats.n_run = ctx.n_run;
            (stats, found)
        }).unwrap());
    }
    let mut stats = Stats::default();
    let mut found = Vec::new();
    for h in handles {
        let (s, f) = h.join().unwrap();
        stats.merge(&s);
        found.extend(f);
    }
    found.sort_by_key(|(i, _, _)| *i);
    // shrink + attribute + classify (sequential, deterministic); cap the work per presumptive key
    let mut ctx = Ctx::new(true);
    let cap = arg_usize("--cap", 6);
    let mut per_key: BTreeMap<String, usize> = BTreeMap::new();
    let mut counts: BTreeMap<String, usize> = BTreeMap::new();
    let mut printed: Vec<(String, String)> = Vec::new();
    for (i, cfg, v) in &found {
        let src = &srcs[*i];
        let (opt, acfg) = attribute(&mut ctx, &src.text, cfg, v.kind);
        let rough = format!("{}|{}|{}", v.kind, opt, if src.text.len() < 200 { construct(&src.text) } else { "big" });
        let c = per_key.entry(rough).or_default();
        *c += 1;
        let small = if *c <= cap { shrink(&mut ctx, &src.text, &acfg, v.kind) } else { src.text.clone() };
        let (opt, acfg) = if *c <= cap { attribute(&mut ctx, &small, &acfg, v.kind) } else { (opt, acfg) };
        let f1 = fmt(&small, &acfg).ok().and_then(|r| r.ok()).unwrap_or_default();
        let f2 = fmt(&f1, &acfg).ok().and_then(|r| r.ok()).unwrap_or_default();
        let kind_of_input = if v.kind == "idempotent" && only_positions_differ(&f1, &f2) { "output-comment-error-position" } else { construct(&small) };
        let key = format!("fmt:{}/{}", opt, kind_of_input);
        // unshrunk inputs (beyond the cap per presumed cause) are counted under their presumed cause only
        if *c <= cap {
            *counts.entry(format!("{key} [{}]", v.kind)).or_default() += 1;
        } else {
            *counts.entry(format!("(not shrunk) fmt:{opt}/… [{}]", v.kind)).or_default() += 1;
        }
        if *c > cap || printed.contains(&(key.clone(), small.clone())) {
            continue;
        }
        printed.push((key.clone(), small.clone()));
        let detail = check(&mut ctx, &small, &acfg, Some(v.kind), None).into_iter().find(|x| x.kind == v.kind).map(|x| x.detail).unwrap_or(v.detail.clone());
        println!(
            "{{\"violation\":{},\"key\":{},\"cfg\":{},\"found_cfg\":{},\"input\":{},\"fmt1\":{},\"fmt2\":{},\"detail\":{},\"cat\":{},\"orig_len\":{}}}",
            jstr(v.kind),
            jstr(&key),
            jstr(&acfg.name()),
            jstr(&cfg.name()),
            jstr(&small),
            jstr(&f1),
            jstr(&f2),
            jstr(&detail),
            jstr(src.cat),
            src.text.len()
        );
        ctx.trim();
    }
    println!(
        "{{\"summary\":true,\"sources\":{},\"configs\":{},\"evaluations\":{},\"formatted\":{},\"unparseable\":{},\"changed_by_format\":{},\"compiled_texts\":{},\"run_texts\":{},\"run_comparisons\":{},\"run_inconclusive_resource_limit\":{},\"run_nondeterministic\":{},\"by_cat\":{},\"violation_runs\":{},\"violation_keys\":{},\"features\":{}}}",
        stats.sources,
        cfgs.len(),
        stats.evaluations,
        stats.formatted,
        stats.unparseable,
        stats.changed,
        stats.n_compile,
        stats.n_run,
        stats.run_compared,
        stats.run_inconclusive,
        stats.run_nondeterministic,
        serde_json::to_string(&stats.by_cat).unwrap(),
        serde_json::to_string(&stats.by_kind).unwrap(),
        serde_json::to_string(&counts).unwrap(),
        serde_json::to_string(&stats.features).unwrap()
    );
}

/// shrunk input and stable key "fmt:<option>/<construct>" of a violation
fn keyed(ctx: &mut Ctx, src: &str, cfg: &Cfg, kind: &'static str, do_shrink: bool) -> (String, String, Cfg) {
    let (opt, acfg) = attribute(ctx, src, cfg, kind);
    let small = if do_shrink { shrink(ctx, src, &acfg, kind) } else { src.to_string() };
    // the shrunk input may fail under fewer options than the original
    let (opt, acfg) = if do_shrink { attribute(ctx, &small, &acfg, kind) } else { (opt, acfg) };
    let f1 = fmt(&small, &acfg).ok().and_then(|r| r.ok()).unwrap_or_default();
    let f2 = fmt(&f1, &acfg).ok().and_then(|r| r.ok()).unwrap_or_default();
    let k = if kind == "idempotent" && only_positions_differ(&f1, &f2) { "output-comment-error-position" } else { construct(&small) };
    (format!("fmt:{}/{}", opt, k), small, acfg)
}

fn vtie(n: usize, seed: u64) {
    let mut r = Rng::new(seed ^ 0x20);
    let mut srcs = sources(n, seed, true);
    for i in (1..srcs.len()).rev() {
        let j = r.below(i + 1);
        srcs.swap(i, j);
    }
    let cfgs = Cfg::quick();
    let mut emitted = 0usize;
    let (mut both_fail, mut iff_broken, mut same_text, mut too_big, mut unparse) = (0usize, 0usize, 0usize, 0usize, 0usize);
    let mut seen = std::collections::BTreeSet::new();
    for s in srcs.iter() {
        if emitted >= n {
            break;
        }
        if s.text.len() > 3000 {
            continue;
        }
        let cfg = if r.chance(1, 2) { Cfg::default() } else { *r.pick(&cfgs) };
        let f1 = match fmt(&s.text, &cfg) {
            Ok(Ok(f)) => f,
            _ => {
                unparse += 1;
                continue;
            }
        };
        if f1 == s.text {
            same_text += 1;
            continue;
        }
        if !seen.insert((s.text.clone(), f1.clone())) {
            continue;
        }
        match (compile_src(&s.text), compile_src(&f1)) {
            (Ok(a), Ok(b)) => {
                let ta = format!("({},[{}])", a.root, a.funs.join(";"));
                let tb = format!("({},[{}])", b.root, b.funs.join(";"));
                if ta.len() + tb.len() > 40000 {
                    too_big += 1;
                    continue;
                }
                let eq = a.root == b.root && a.funs == b.funs;
                // compile-time randomness: the source must reproduce its own tree
                if !eq && compile_src(&s.text).ok().as_ref() != Some(&a) {
                    continue;
                }
                let (key, small) = if eq { (String::new(), String::new()) } else {
                    let (k, sm, _) = keyed(&mut Ctx::new(false), &s.text, &cfg, "tree", true);
                    (k, sm)
                };
                println!(
                    "{{\"src\":{},\"fmt\":{},\"cfg\":{},\"a\":{},\"b\":{},\"cat\":{},\"rust_equal\":{},\"nodes\":{},\"key\":{},\"small\":{}}}",
                    jstr(&s.text),
                    jstr(&f1),
                    jstr(&cfg.name()),
                    jstr(&ta),
                    jstr(&tb),
                    jstr(s.cat),
                    eq,
                    ta.matches('(').count(),
                    jstr(&key),
                    jstr(&small)
                );
                emitted += 1;
            }
            (Err(_), Err(_)) => both_fail += 1,
            (x, y) => {
                iff_broken += 1;
                let (key, small, _) = keyed(&mut Ctx::new(false), &s.text, &cfg, "compile-iff", true);
                println!(
                    "{{\"iff_broken\":true,\"key\":{},\"small\":{},\"src\":{},\"fmt\":{},\"cfg\":{},\"src_compiles\":{},\"fmt_compiles\":{}}}",
                    jstr(&key),
                    jstr(&small),
                    jstr(&s.text),
                    jstr(&f1),
                    jstr(&cfg.name()),
                    x.is_ok(),
                    y.is_ok()
                );
            }
        }
    }
    println!("{{\"summary\":true,\"emitted\":{emitted},\"both_fail_to_compile\":{both_fail},\"iff_broken\":{iff_broken},\"unchanged_by_format\":{same_text},\"too_big\":{too_big},\"unparseable\":{unparse}}}");
}

/// function (non-modifier) primitives with a glyph that the lexer reads as a single-character token
fn glyph_pool() -> Vec<(char, &'static str)> {
    let mut v = Vec::new();
    for p in Primitive::all() {
        let Some(g) = p.glyph() else { continue };
        if p.modifier_args().is_some() || g.is_alphabetic() || g.is_alphanumeric() {
            continue;
        }
        if g.is_ascii() && !"+-:".contains(g) {
            continue;
        }
        if "¯=?!‼←↚‥≁≈↓⟨⟩┌└′″‴₋ₙ⌞⌟∞◫◰𝄐∶⮌¨𝄈⍛∈⨂".contains(g) || uiua::SUBSCRIPT_DIGITS.contains(&g) {
            continue;
        }
        if matches!(p, Primitive::Sys(_)) {
            continue;
        }
        v.push((g, p.name()));
    }
    v
}

#[derive(Clone, Copy, PartialEq, Debug)]
enum Shape {
    Lower,
    Upper0,
    UpperB,
    Gly,
    Neg,
    NamesG,
    NamesN,
    Eq,
    NumP,
    NumN,
    Sub,
    SubA,
    Strand,
    Open,
    Close,
    Str,
    Chr,
}

fn shape_of(t: &MTok) -> Option<Shape> {
    use Shape::*;
    Some(match t {
        MTok::Lower(_) => Lower,
        MTok::Upper(_, 0) => Upper0,
        MTok::Upper(..) => UpperB,
        MTok::Glyph('¯') => Neg,
        MTok::Glyph(_) => Gly,
        MTok::Names(gs) => {
            if gs.last() == Some(&'¯') { NamesN } else { NamesG }
        }
        MTok::Eq => Eq,
        MTok::Num(false, _) => NumP,
        MTok::Num(true, _) => NumN,
        MTok::Sub(_) => Sub,
        MTok::SubA(_) => SubA,
        MTok::Strand => Strand,
        MTok::Open(_) => Open,
        MTok::Close(_) => Close,
        MTok::Str(_) => Str,
        MTok::Chr(_) => Chr,
        MTok::Space(_) => return None,
    })
}

/// copy of Fmt.v src_adjacent_ok (used to generate; Coq re-checks wf_tokens on every case)
fn src_adjacent_ok(a: Shape, b: Shape) -> bool {
    use Shape::*;
    match (a, b) {
        (Lower | Upper0 | NamesG | NamesN, Lower | NamesG | NamesN) => false,
        (Lower | Upper0, Upper0 | UpperB) => false,
        (Chr, Lower) => false,
        (UpperB, Lower | NamesG | NamesN | Upper0 | UpperB) => true,
        (NamesG | NamesN, Upper0 | UpperB) => true,
        (NumP, NumP) | (NumN, NumP) => false,
        (SubA, NumP | Sub | SubA) => false,
        (Sub, Sub | SubA) => false,
        (Neg, NumP) => false,
        (Lower | Upper0, Eq) => false,
        (Gly | Neg | NamesG | NamesN, Sub | SubA) => true,
        (_, Sub | SubA) => false,
        (Lower | Upper0 | NumP | NumN | Str | Chr | Close, Strand) => true,
        (_, Strand) => false,
        (Strand, Lower | Upper0 | NumP | NumN | Str | Chr | Open) => true,
        (Strand, _) => false,
        _ => true,
    }
}

fn coq_str(s: &str) -> String {
    format!("[{}]%N", s.chars().map(|c| (c as u32).to_string()).collect::<Vec<_>>().join(";"))
}

fn coq_tok(t: &MTok) -> String {
    match t {
        MTok::Lower(s) => format!("TLower {}", coq_str(s)),
        MTok::Upper(s, b) => format!("TUpper {} {b}", coq_str(s)),
        MTok::Glyph(c) => format!("TGlyph {}%N", *c as u32),
        MTok::Names(gs) => format!("TNames {}", coq_str(&gs.iter().collect::<String>())),
        MTok::Eq => "TEq".into(),
        MTok::Num(n, d) => format!("TNum {n} {}", coq_str(d)),
        MTok::Sub(d) => format!("TSub {}", coq_str(d)),
        MTok::SubA(d) => format!("TSubA {}", coq_str(d)),
        MTok::Strand => "TStrand".into(),
        MTok::Open(c) => format!("TOpen {}%N", *c as u32),
        MTok::Close(c) => format!("TClose {}%N", *c as u32),
        MTok::Str(s) => format!("TStr {}", coq_str(s)),
        MTok::Chr(c) => format!("TChr {}%N", *c as u32),
        MTok::Space(m) => format!("TSpace {m}"),
    }
}

struct TG<'a> {
    r: &'a mut Rng,
    glyphs: Vec<(char, &'static str)>,
    names: Vec<(char, &'static str)>,
    toks: Vec<MTok>,
    first_is_glyph: bool,
}

const LOWERS: [&str; 8] = ["x", "y", "foo", "bar", "abc", "xs", "val", "q"];
const UPPERS: [&str; 7] = ["A", "Foo", "Abc", "Xy", "M", "FooBar", "AB"];

impl<'a> TG<'a> {
    fn digits(&mut self) -> String {
        let n = 1 + self.r.below(3);
        (0..n).map(|i| (b'0' + if i == 0 { 1 + self.r.below(9) } else { self.r.below(10) } as u8) as char).collect()
    }
    fn subdigits(&mut self) -> String {
        let n = 1 + self.r.below(2);
        (0..n).map(|i| uiua::SUBSCRIPT_DIGITS[if i == 0 { 1 + self.r.below(9) } else { self.r.below(10) }]).collect()
    }
    fn atom(&mut self) -> MTok {
        match self.r.below(7) {
            0 => MTok::Lower(self.r.pick(&LOWERS).to_string()),
            1 => MTok::Upper(self.r.pick(&UPPERS).to_string(), 0),
            2 => MTok::Str((*self.r.pick(&["", "a", "a b", "x  y", "#1", "(", "_", "@"])).to_string()),
            3 => MTok::Chr(*self.r.pick(&['a', 'Z', '0', '(', '_', '"', '@', '+', '¯', '!', '=', '⊢', 'Q'])),
            4 => MTok::Num(true, self.digits()),
            _ => MTok::Num(false, self.digits()),
        }
    }
    fn word(&mut self) -> Vec<MTok> {
        let k = self.r.below(20);
        match k {
            0..=4 => vec![self.atom()],
            5..=8 => {
                let mut v = vec![MTok::Glyph(self.r.pick(&self.glyphs).0)];
                if self.r.chance(1, 5) {
                    v.push(if self.r.chance(1, 2) { MTok::Sub(self.subdigits()) } else { MTok::SubA(self.subdigits()) });
                }
                v
            }
            9 => vec![MTok::Glyph('¯')],
            10..=12 => {
                let n = 1 + self.r.below(3);
                let gs: Vec<char> = (0..n).map(|_| self.r.pick(&self.names).0).collect();
                let mut v = vec![MTok::Names(gs)];
                if self.r.chance(1, 4) {
                    v.push(if self.r.chance(1, 2) { MTok::Sub(self.subdigits()) } else { MTok::SubA(self.subdigits()) });
                }
                v
            }
            13 => vec![MTok::Upper(self.r.pick(&UPPERS).to_string(), 1 + self.r.below(2))],
            14 if self.eq_allowed() => vec![MTok::Eq],
            15 | 16 => {
                // strand of atoms
                let n = 2 + self.r.below(2);
                let mut v = Vec::new();
                for i in 0..n {
                    if i > 0 {
                        v.push(MTok::Strand);
                    }
                    v.push(self.atom());
                }
                v
            }
            _ => vec![MTok::Num(false, self.digits())],
        }
    }
    fn space(&mut self) -> MTok {
        MTok::Space(self.r.chance(1, 3))
    }
    /// "Name = …" at the start of a line or right after an opening bracket is a binding (Fmt.v no_lone_eq);
    /// = as the very first word is kept out as well
    fn eq_allowed(&self) -> bool {
        let mut depth = 0usize;
        let mut words = 0usize;
        let mut lone_name = false;
        let mut after_open = false;
        for t in self.toks.iter().rev() {
            match t {
                MTok::Space(_) => {}
                MTok::Close(_) => {
                    depth += 1;
                }
                MTok::Open(_) => {
                    if depth == 0 {
                        after_open = true;
                        break;
                    }
                    depth -= 1;
                    if depth == 0 {
                        words += 1;
                        lone_name = false;
                    }
                }
                t => {
                    if depth == 0 {
                        words += 1;
                        lone_name = matches!(t, MTok::Lower(_) | MTok::Upper(..));
                    }
                }
            }
        }
        if words == 0 {
            return after_open;
        }
        !(words == 1 && lone_name) && (after_open || self.first_is_glyph || words >= 2)
    }
    fn seq(&mut self, depth: usize, len: usize) {
        for _ in 0..len {
            if depth > 0 && self.r.chance(1, 6) {
                let (o, c) = *self.r.pick(&[('(', ')'), ('[', ']'), ('{', '}')]);
                self.push_words(vec![MTok::Open(o)]);
                if self.r.chance(1, 3) {
                    let s = self.space();
                    self.toks.push(s);
                }
                let l = self.r.below(4);
                self.seq(depth - 1, l);
                if self.r.chance(1, 3) && !matches!(self.toks.last(), Some(MTok::Space(_))) {
                    let s = self.space();
                    self.toks.push(s);
                }
                self.toks.push(MTok::Close(c));
            } else {
                let w = self.word();
                self.push_words(w);
            }
        }
    }
    /// append a word (its tokens are adjacent), separated from what precedes as the lexer requires
    fn push_words(&mut self, w: Vec<MTok>) {
        let prev = self.toks.iter().rev().find(|t| !matches!(t, MTok::Space(_))).cloned();
        let has_space = matches!(self.toks.last(), Some(MTok::Space(_)));
        if let (Some(p), false) = (&prev, has_space) {
            let ok = src_adjacent_ok(shape_of(p).unwrap(), shape_of(&w[0]).unwrap());
            if !ok || self.r.chance(3, 5) {
                let s = self.space();
                self.toks.push(s);
            }
        }
        if self.toks.is_empty() {
            self.first_is_glyph = matches!(w[0], MTok::Glyph(_));
        }
        self.toks.extend(w);
    }
}

/// source spelling of the model tokens
fn spell(r: &mut Rng, toks: &[MTok], names: &[(char, &'static str)]) -> String {
    let mut s = String::new();
    for t in toks {
        match t {
            MTok::Lower(x) => s.push_str(x),
            MTok::Upper(x, b) => {
                s.push_str(x);
                for _ in 0..*b {
                    s.push('!');
                }
            }
            MTok::Glyph(c) => s.push(*c),
            MTok::Names(gs) => {
                for g in gs {
                    s.push_str(names.iter().find(|(c, _)| c == g).map(|(_, n)| *n).unwrap());
                }
            }
            MTok::Eq => s.push('='),
            MTok::Num(neg, d) => {
                if *neg {
                    s.push(if r.chance(1, 2) { '¯' } else { '`' });
                }
                s.push_str(d);
            }
            MTok::Sub(d) => s.push_str(d),
            MTok::SubA(d) => {
                s.push(',');
                for c in d.chars() {
                    s.push((b'0' + uiua::SUBSCRIPT_DIGITS.iter().position(|x| *x == c).unwrap() as u8) as char);
                }
            }
            MTok::Strand => s.push('_'),
            MTok::Open(c) | MTok::Close(c) => s.push(*c),
            MTok::Str(x) => {
                s.push('"');
                s.push_str(x);
                s.push('"');
            }
            MTok::Chr(c) => {
                s.push('@');
                s.push(*c);
            }
            MTok::Space(m) => {
                s.push(' ');
                if *m {
                    for _ in 0..1 + r.below(3) {
                        s.push(' ');
                    }
                }
            }
        }
    }
    s
}

/// the real lexer's view of a source, in the model's classes (None: outside the classes)
fn relex_real(src: &str) -> Option<Vec<MTok>> {
    let (toks, errs, _) = quiet(|| uiua::lex(src, (), &mut Inputs::default())).ok()?;
    if !errs.is_empty() {
        return None;
    }
    let mut out: Vec<MTok> = Vec::new();
    let mut last_name_end: Option<usize> = None;
    for t in &toks {
        let (a, b) = (t.span.start.byte_pos as usize, t.span.end.byte_pos as usize);
        let text = src.get(a..b)?;
        let mut name_end = None;
        let m = match &t.value {
            Token::Ident(id) => {
                let id = id.as_str();
                let bangs = id.chars().rev().take_while(|c| *c == '!').count();
                let base = &id[..id.len() - bangs];
                if id != text {
                    return None;
                }
                if base.chars().all(|c| c.is_ascii_lowercase()) && bangs == 0 && !base.is_empty() {
                    MTok::Lower(base.into())
                } else if base.chars().next().is_some_and(|c| c.is_ascii_uppercase()) && base.chars().all(|c| c.is_ascii_alphabetic()) {
                    MTok::Upper(base.into(), bangs)
                } else {
                    return None;
                }
            }
            Token::Glyph(p) => {
                let g = p.glyph()?;
                if text.chars().count() == 1 && text.chars().next() == Some(g) {
                    MTok::Glyph(g)
                } else if text.chars().all(|c| c.is_ascii_lowercase()) {
                    name_end = Some(b);
                    if last_name_end == Some(a) {
                        if let Some(MTok::Names(gs)) = out.last_mut() {
                            gs.push(g);
                            last_name_end = name_end;
                            continue;
                        }
                    }
                    MTok::Names(vec![g])
                } else {
                    return None;
                }
            }
            Token::Simple(s) => match format!("{s}").as_str() {
                "=" => MTok::Eq,
                "_" => MTok::Strand,
                "(" | "[" | "{" => MTok::Open(text.chars().next()?),
                ")" | "]" | "}" => MTok::Close(text.chars().next()?),
                _ => return None,
            },
            Token::Number => {
                let neg = text.starts_with('¯') || text.starts_with('`');
                let d: String = text.chars().skip(neg as usize).collect();
                if d.is_empty() || !d.chars().all(|c| c.is_ascii_digit()) {
                    return None;
                }
                MTok::Num(neg, d)
            }
            Token::Subscr(_) => {
                if let Some(d) = text.strip_prefix(',') {
                    if d.is_empty() || !d.chars().all(|c| c.is_ascii_digit()) {
                        return None;
                    }
                    MTok::SubA(d.chars().map(|c| uiua::SUBSCRIPT_DIGITS[(c as u8 - b'0') as usize]).collect())
                } else if !text.is_empty() && text.chars().all(|c| uiua::SUBSCRIPT_DIGITS.contains(&c)) {
                    MTok::Sub(text.into())
                } else {
                    return None;
                }
            }
            Token::Str(x) => {
                if format!("\"{x}\"") != text {
                    return None;
                }
                MTok::Str(x.clone())
            }
            Token::Char(c) => {
                if format!("@{c}") != text {
                    return None;
                }
                MTok::Chr(c.chars().next()?)
            }
            Token::Spaces => MTok::Space(text.chars().count() > 1),
            _ => return None,
        };
        last_name_end = name_end;
        out.push(m);
    }
    Some(out)
}

fn ctie(n: usize, seed: u64) {
    let mut r = Rng::new(seed ^ 0x30);
    let glyphs = glyph_pool();
    let mut names: Vec<(char, &'static str)> = glyphs.iter().filter(|(_, n)| n.len() >= 3 && n.chars().all(|c| c.is_ascii_lowercase())).cloned().collect();
    names.push(('¯', "negate"));
    let (mut emitted, mut uncovered, mut unparse, mut tries) = (0usize, 0usize, 0usize, 0usize);
    let mut lengths: BTreeMap<usize, usize> = BTreeMap::new();
    let mut seen = std::collections::BTreeSet::new();
    // fixed cases: the formatter's own test vectors that fall into the model's classes
    let fixed: Vec<Vec<MTok>> = vec![
        vec![MTok::Upper("Abc".into(), 0), MTok::Space(false), MTok::Names(vec!['⊢'])],
        vec![MTok::Upper("Abc".into(), 0), MTok::Space(true), MTok::Names(vec!['⊢'])],
        vec![MTok::Names(vec!['⇡']), MTok::SubA("₁".into()), MTok::Space(false), MTok::Num(false, "10".into())],
        vec![MTok::Names(vec!['⇡']), MTok::SubA("₁".into()), MTok::Space(true), MTok::Num(false, "10".into())],
        vec![MTok::Glyph('⇡'), MTok::Sub("₁".into()), MTok::Space(false), MTok::Num(false, "10".into())],
        vec![MTok::Glyph('∘'), MTok::Space(false), MTok::Upper("M".into(), 1), MTok::Eq],
        vec![MTok::Names(vec!['¯']), MTok::Num(false, "5".into())],
        vec![MTok::Names(vec!['⇌', '¯']), MTok::Num(false, "5".into())],
    ];
    let mut fi = 0usize;
    let mut unsplit_cases = 0usize;
    while emitted < n && tries < n * 30 {
        tries += 1;
        // lines joined by the ; unsplit marker (Fmt.v unsplit_lines): every 6th case
        if fi >= fixed.len() && tries % 6 == 0 {
            let k = 2 + r.below(2);
            let mut lines: Vec<Vec<MTok>> = Vec::new();
            for _ in 0..k {
                let mut g = TG { r: &mut r, glyphs: glyphs.clone(), names: names.clone(), toks: Vec::new(), first_is_glyph: false };
                let len = 1 + g.r.below(3);
                g.seq(0, len);
                lines.push(g.toks);
            }
            let ctx = r.below(3); // 0 function, 1 array, 2 top level
            let (open, close) = match ctx {
                0 => ("(", ")"),
                1 => (*r.pick(&["[", "{"]), ""),
                _ => ("", ""),
            };
            let close = if ctx == 1 { if open == "[" { "]" } else { "}" } } else { close };
            let mut src = String::from(open);
            let mut first_end = false;
            let mut ok = true;
            // the words of each line as flip_unsplit_lines_impl leaves them: the first line is trimmed, a later
            // line keeps the spaces between its words and a marker that was removed from its end or start
            let mut model_lines: Vec<Vec<MTok>> = lines.clone();
            for (i, l) in lines.iter().enumerate() {
                let text = spell(&mut r, l, &names);
                if relex_real(&text).as_ref() != Some(l) {
                    ok = false;
                }
                // a macro with bangs at the end of its line has no operand there: the space of the join is not an
                // operand's leading space (outside Fmt.v: modifiers' operands are not modelled)
                if matches!(l.last(), Some(MTok::Upper(_, b)) if *b > 0) {
                    ok = false;
                }
                if i > 0 {
                    let at_end = r.chance(1, 2);
                    if at_end {
                        let sp = *r.pick(&[1usize, 0, 2]);
                        src.push_str(&" ".repeat(sp));
                        src.push(';');
                        if i == 1 {
                            first_end = true;
                        } else if sp > 0 {
                            model_lines[i - 1].push(MTok::Space(sp > 1));
                        }
                        src.push('\n');
                        src.push_str(*r.pick(&["", "  ", " "]));
                    } else {
                        src.push('\n');
                        src.push_str(*r.pick(&["", "  "]));
                        src.push(';');
                        let sp = *r.pick(&[0usize, 1, 2]);
                        src.push_str(&" ".repeat(sp));
                        if sp > 0 {
                            model_lines[i].insert(0, MTok::Space(sp > 1));
                        }
                    }
                }
                src.push_str(&text);
            }
            let lines = model_lines;
            src.push_str(close);
            if !ok || !seen.insert(src.clone()) {
                uncovered += !ok as usize;
                continue;
            }
            let out = match fmt(&src, &Cfg::default()) {
                Ok(Ok(o)) => o,
                _ => {
                    unparse += 1;
                    continue;
                }
            };
            let out = out.strip_suffix('\n').unwrap_or(&out).to_string();
            if out.contains('\n') {
                uncovered += 1;
                continue;
            }
            let coq_line = |l: &Vec<MTok>| format!("[{}]", l.iter().map(coq_tok).collect::<Vec<_>>().join("; "));
            let joined = format!(
                "(unsplit_lines {} (unsplit_first {} {}) [{}])",
                ctx == 1,
                first_end,
                coq_line(&lines[0]),
                lines[1..].iter().map(coq_line).collect::<Vec<_>>().join("; ")
            );
            let toks = match ctx {
                2 => joined,
                _ => format!("(TOpen {}%N :: {} ++ [TClose {}%N])", open.chars().next().unwrap() as u32, joined, close.chars().next().unwrap() as u32),
            };
            let relexed: Option<String> = relex_real(&out).map(|ts| format!("[{}]", ts.iter().map(coq_tok).collect::<Vec<_>>().join("; ")));
            println!(
                "{{\"toks\":{},\"src\":{},\"out\":{},\"pairs\":[],\"unsplit\":true,\"relex\":{}}}",
                jstr(&toks),
                jstr(&src),
                jstr(&out),
                relexed.map(|s| jstr(&s)).unwrap_or("null".into())
            );
            emitted += 1;
            unsplit_cases += 1;
            continue;
        }
        let toks = if fi < fixed.len() {
            fi += 1;
            fixed[fi - 1].clone()
        } else {
            let mut g = TG { r: &mut r, glyphs: glyphs.clone(), names: names.clone(), toks: Vec::new(), first_is_glyph: false };
            if g.r.chance(1, 4) {
                let s = g.space();
                g.toks.push(s);
            }
            let len = 1 + g.r.below(7);
            g.seq(2, len);
            if g.r.chance(1, 4) && !matches!(g.toks.last(), Some(MTok::Space(_))) {
                let s = g.space();
                g.toks.push(s);
            }
            g.toks
        };
        let src = spell(&mut r, &toks, &names);
        if !seen.insert(src.clone()) {
            continue;
        }
        // covered only if the real lexer reads the source as exactly these words
        if relex_real(&src).as_ref() != Some(&toks) {
            uncovered += 1;
            continue;
        }
        let out = match fmt(&src, &Cfg::default()) {
            Ok(Ok(o)) => o,
            _ => {
                unparse += 1;
                continue;
            }
        };
        let out = out.strip_suffix('\n').unwrap_or(&out).to_string();
        if out.contains('\n') {
            uncovered += 1;
            continue;
        }
        // idempotence of the real formatter on the case, and the real lexer's view of the output
        let words: Vec<&MTok> = toks.iter().filter(|t| !matches!(t, MTok::Space(_))).collect();
        let mut pairs: Vec<String> = Vec::new();
        for w in words.windows(2) {
            pairs.push(format!("{:?}-{:?}", shape_of(w[0]).unwrap(), shape_of(w[1]).unwrap()));
        }
        *lengths.entry(words.len()).or_default() += 1;
        let relexed: Option<String> = relex_real(&out).map(|ts| format!("[{}]", ts.iter().map(coq_tok).collect::<Vec<_>>().join("; ")));
        println!(
            "{{\"toks\":{},\"src\":{},\"out\":{},\"pairs\":{},\"relex\":{}}}",
            jstr(&format!("[{}]", toks.iter().map(coq_tok).collect::<Vec<_>>().join("; "))),
            jstr(&src),
            jstr(&out),
            serde_json::to_string(&pairs).unwrap(),
            relexed.map(|s| jstr(&s)).unwrap_or("null".into())
        );
        emitted += 1;
    }
    println!(
        "{{\"summary\":true,\"emitted\":{emitted},\"unsplit_cases\":{unsplit_cases},\"uncovered\":{uncovered},\"unparseable\":{unparse},\"tries\":{tries},\"lengths\":{}}}",
        serde_json::to_string(&lengths).unwrap()
    );
}
