//! C13: spawn / pool / wait are transparent and always finish.
//!   c13 child MAX SRC     -> run SRC with the pool limited to MAX workers (0 = default), print one JSON line
//!   c13 tie N             -> JSON lines: generated task trees x pool sizes, outcome of an isolated run,
//!                            sequential value, the tree as a term of the Coq model (coq/Model/Pool.v)
//!   c13 corpus            -> the former deadlock witnesses (nested pool) x pool sizes; violations
//!   c13 search N          -> JSON lines: larger trees, wait-order and message-order checks; violations
//!   c13 one MAX SRC [CAP_MS] -> run one program in a child with a cap (for replays / experiments)
use std::io::Read;
use std::process::{Command, Stdio};
use std::sync::Mutex;
use std::sync::atomic::{AtomicUsize, Ordering};
use std::time::{Duration, Instant};

use uvh::*;

// ------------------------------------------------------------------ task trees

#[derive(Clone, Debug)]
struct Task {
    pool: bool,
    work: u32,
    c: u32,
    kids: Vec<Task>,
    rev_wait: bool,
}

impl Task {
    fn count(&self) -> usize {
        1 + self.kids.iter().map(|k| k.count()).sum::<usize>()
    }
    fn depth(&self) -> usize {
        1 + self.kids.iter().map(|k| k.depth()).max().unwrap_or(0)
    }
    fn pools(&self) -> usize {
        self.pool as usize + self.kids.iter().map(|k| k.pools()).sum::<usize>()
    }
    fn has_pool(&self) -> bool {
        self.pool || self.kids.iter().any(|k| k.has_pool())
    }
    /// some `pool` is executed by a thread that has a pool task among its ancestors-or-self
    fn nested_pool(&self, under_pool: bool) -> bool {
        let here = under_pool || self.pool;
        self.kids.iter().any(|k| (here && k.pool) || k.nested_pool(here))
    }
    /// value of the task applied to x (the sequential meaning)
    fn value(&self, x: u64) -> u64 {
        let x1 = x + self.work as u64;
        if self.kids.is_empty() {
            x1 + self.c as u64
        } else {
            self.c as u64 + self.kids.iter().map(|k| k.value(x1)).sum::<u64>()
        }
    }
    /// uiua text of the task body (a function: one argument, one result)
    fn body(&self, par: bool) -> String {
        let work = if self.work > 0 { format!("⍥(+1){}", self.work) } else { String::new() };
        if self.kids.is_empty() {
            return format!("+{}{}", self.c, work);
        }
        let fs: Vec<String> = self
            .kids
            .iter()
            .map(|k| {
                if par {
                    format!("{}({})", if k.pool { "pool" } else { "spawn" }, k.body(par))
                } else {
                    format!("({})", k.body(par))
                }
            })
            .collect();
        let w = if par { "wait" } else { "" };
        if fs.len() == 1 {
            format!("+{}{w} {}{}", self.c, fs[0], work)
        } else {
            let rev = if self.rev_wait { "⇌" } else { "" };
            format!("+{}/+{w}{rev}[⊃({}){}]", self.c, fs.join("|"), work)
        }
    }
    /// code of the task in the Coq model (list instr); the argument is on the stack
    fn coq(&self) -> String {
        if self.kids.is_empty() {
            return format!("[Work {}; Push {}%N; AddAll]", self.work, self.work + self.c);
        }
        let mut s = format!("[Work {}; Push {}%N; AddAll", self.work, self.work);
        // uiua's fork runs its functions right to left: the last function gets child id 1
        let n = self.kids.len();
        for k in self.kids.iter().rev() {
            s.push_str(&format!("; Dup; Fork {} 1 {}", if k.pool { "true" } else { "false" }, k.coq()));
        }
        s.push_str(&format!("; Pop; Push {}%N", self.c));
        let mut ids: Vec<usize> = (1..=n).rev().collect(); // array order = function order = ids n..1
        if self.rev_wait {
            ids.reverse();
        }
        if n == 1 {
            s.push_str("; Wait 1");
        } else {
            s.push_str(&format!("; WaitAll [] [{}] []", ids.iter().map(|i| i.to_string()).collect::<Vec<_>>().join(";")));
        }
        s.push_str("; AddAll]");
        s
    }
}

fn gen_task(r: &mut Rng, depth: usize, width: usize, pool_bias: usize, top: bool) -> Task {
    let kids = if depth == 0 {
        vec![]
    } else {
        let n = if top { width } else { 1 + r.below(width.min(3)) };
        (0..n)
            .map(|_| {
                let d = if r.chance(1, 4) { 0 } else { depth - 1 };
                gen_task(r, d, width, pool_bias, false)
            })
            .collect()
    };
    Task { pool: r.below(4) < pool_bias, work: r.below(40) as u32, c: r.below(9) as u32, kids, rev_wait: r.chance(1, 3) }
}

/// the canonical deadlock family: n pool tasks each doing a nested `wait pool F`
fn nested_family(r: &mut Rng, n: usize, inner_pool: bool, via_spawn: bool) -> Task {
    let leaf = |r: &mut Rng, pool: bool| Task { pool, work: r.below(20) as u32, c: r.below(9) as u32, kids: vec![], rev_wait: false };
    let kids = (0..n)
        .map(|_| {
            let inner = leaf(r, inner_pool);
            let mid = if via_spawn {
                vec![Task { pool: false, work: 1, c: 0, kids: vec![inner], rev_wait: false }]
            } else {
                vec![inner]
            };
            Task { pool: true, work: r.below(10) as u32, c: 1, kids: mid, rev_wait: false }
        })
        .collect();
    Task { pool: false, work: 0, c: 0, kids, rev_wait: false }
}

fn flat_family(r: &mut Rng, n: usize, pool_bias: usize) -> Task {
    let kids = (0..n)
        .map(|_| Task { pool: r.below(4) < pool_bias, work: r.below(60) as u32, c: r.below(9) as u32, kids: vec![], rev_wait: false })
        .collect();
    Task { pool: false, work: r.below(5) as u32, c: r.below(9) as u32, kids, rev_wait: r.chance(1, 2) }
}

fn cores() -> usize {
    std::thread::available_parallelism().map(|p| p.get()).unwrap_or(1)
}

// ------------------------------------------------------------------ isolated runs

#[derive(Debug, Clone)]
struct Outcome {
    kind: &'static str, // value | error | timeout | crash
    text: String,
    ms: u128,
}

fn run_child(max: usize, src: &str, cap: Duration) -> Outcome {
    let exe = std::env::current_exe().unwrap();
    let t0 = Instant::now();
    let mut ch = match Command::new(exe).arg("child").arg(max.to_string()).arg(src).stdin(Stdio::null()).stdout(Stdio::piped()).stderr(Stdio::null()).spawn() {
        Ok(c) => c,
        Err(e) => return Outcome { kind: "crash", text: format!("spawn failed: {e}"), ms: 0 },
    };
    loop {
        match ch.try_wait() {
            Ok(Some(_)) => break,
            Ok(None) => {
                if t0.elapsed() > cap {
                    let _ = ch.kill();
                    let _ = ch.wait();
                    return Outcome { kind: "timeout", text: String::new(), ms: t0.elapsed().as_millis() };
                }
                std::thread::sleep(Duration::from_millis(3));
            }
            Err(e) => return Outcome { kind: "crash", text: format!("{e}"), ms: t0.elapsed().as_millis() },
        }
    }
    let ms = t0.elapsed().as_millis();
    let mut out = String::new();
    if let Some(mut o) = ch.stdout.take() {
        let _ = o.read_to_string(&mut out);
    }
    let out = out.trim();
    if let Some(v) = out.strip_prefix("V ") {
        Outcome { kind: "value", text: v.to_string(), ms }
    } else if let Some(e) = out.strip_prefix("E ") {
        Outcome { kind: "error", text: e.to_string(), ms }
    } else {
        Outcome { kind: "crash", text: out.to_string(), ms }
    }
}

fn show_stack(st: &[uiua::Value]) -> String {
    st.iter().map(|v| format!("{v:?}")).collect::<Vec<_>>().join(" | ")
}

fn child_main(max: usize, src: &str) {
    uiua::verif::set_pool_max_threads(if max == 0 { None } else { Some(max) });
    let mut env = uiua::Uiua::with_native_sys();
    match env.run_str(src) {
        Ok(_) => println!("V {}", show_stack(&env.take_stack())),
        Err(e) => println!("E {}", e.to_string().lines().next().unwrap_or("")),
    }
    // threads that were not waited for are abandoned, as at the end of a uiua program
    std::process::exit(0);
}

fn run_seq(src: &str) -> (Result<String, String>, u128) {
    let t0 = Instant::now();
    let mut env = uiua::Uiua::with_native_sys();
    let r = match env.run_str(src) {
        Ok(_) => Ok(show_stack(&env.take_stack())),
        Err(e) => Err(e.to_string().lines().next().unwrap_or("").to_string()),
    };
    (r, t0.elapsed().as_millis())
}

fn cap_for(seq_ms: u128) -> Duration {
    // generous: 200 x the sequential time, at least 2 s (process start + thread creation)
    Duration::from_millis((seq_ms as u64 * 200).clamp(2000, 20000))
}

/// run jobs (max, src, cap) in parallel children; results in job order
fn run_many(jobs: &[(usize, String, Duration)]) -> Vec<Outcome> {
    let res: Vec<Mutex<Option<Outcome>>> = jobs.iter().map(|_| Mutex::new(None)).collect();
    let next = AtomicUsize::new(0);
    let par = (cores() / 3).clamp(1, 6);
    std::thread::scope(|s| {
        for _ in 0..par {
            s.spawn(|| {
                loop {
                    let i = next.fetch_add(1, Ordering::SeqCst);
                    if i >= jobs.len() {
                        break;
                    }
                    let (m, src, cap) = &jobs[i];
                    let mut o = run_child(*m, src, *cap);
                    if o.kind == "timeout" {
                        // confirm with a longer cap: a slow machine must not look like a hang
                        let o2 = run_child(*m, src, *cap * 5 / 2);
                        if o2.kind != "timeout" {
                            o = o2;
                        } else {
                            o.ms += o2.ms;
                        }
                    }
                    *res[i].lock().unwrap() = Some(o);
                }
            });
        }
    });
    res.into_iter().map(|m| m.into_inner().unwrap().unwrap()).collect()
}

fn pool_sizes() -> Vec<usize> {
    vec![1, 2, 4, 0]
}

fn eff(max: usize) -> usize {
    if max == 0 { cores() } else { max }
}

// ------------------------------------------------------------------ modes

fn tie(n: usize, r: &mut Rng) {
    let nc = cores();
    let mut trees: Vec<(String, Task)> = Vec::new();
    // fixed: the measured witness and its neighbours
    for (name, k, ip, vs) in [("nested-1", 1, true, false), ("nested-2", 2, true, false), ("nested-4", 4, true, false), ("nested-via-spawn-2", 2, true, true), ("pool-of-spawn-3", 3, false, false)] {
        trees.push((name.to_string(), nested_family(r, k, ip, vs)));
    }
    trees.push(("nested-allcores".into(), nested_family(r, nc, true, false)));
    trees.push(("flat-4cores".into(), flat_family(r, 4 * nc, 3)));
    trees.push(("flat-1".into(), flat_family(r, 1, 4)));
    while trees.len() < n {
        let t = match r.below(6) {
            0 => {
                let (a, b) = (1 + r.below(4 * nc), 1 + r.below(4));
                ("flat".to_string(), flat_family(r, a, b))
            }
            1 => {
                let (a, b, c) = (1 + r.below(6), r.chance(3, 4), r.chance(1, 4));
                ("nested".to_string(), nested_family(r, a, b, c))
            }
            _ => {
                let depth = 1 + r.below(3);
                let width = 1 + r.below(if depth == 1 { 12 } else { 4 });
                let pb = r.below(5);
                ("tree".to_string(), gen_task(r, depth, width, pb, true))
            }
        };
        if t.1.count() <= 70 {
            trees.push(t);
        }
    }
    let x0 = 5u64;
    let mut jobs = Vec::new();
    let mut meta = Vec::new();
    for (name, t) in &trees {
        let mut root = t.clone();
        root.pool = false;
        let par = format!("{} {x0}", root.body(true));
        let seqp = format!("{} {x0}", root.body(false));
        let (seq, seq_ms) = run_seq(&seqp);
        let want = root.value(x0);
        for m in pool_sizes() {
            jobs.push((m, par.clone(), cap_for(seq_ms)));
            meta.push((name.clone(), root.clone(), par.clone(), seq.clone(), seq_ms, want, m));
        }
    }
    let outs = run_many(&jobs);
    for (i, (o, (name, root, par, seq, seq_ms, want, m))) in outs.iter().zip(meta).enumerate() {
        println!(
            "{{\"i\":{i},\"name\":{},\"max\":{m},\"mx\":{},\"outcome\":{},\"value\":{},\"ms\":{},\"seq\":{},\"seq_ms\":{seq_ms},\"want\":{want},\"src\":{},\"coq\":{},\"tasks\":{},\"depth\":{},\"pools\":{},\"nested_pool\":{},\"cap_ms\":{}}}",
            jstr(&name),
            eff(m),
            jstr(o.kind),
            jstr(&o.text),
            o.ms,
            jstr(&match seq {
                Ok(s) => s,
                Err(e) => format!("ERROR {e}"),
            }),
            jstr(&par),
            jstr(&format!("(Push {x0}%N :: {})", root.coq())),
            root.count() - 1,
            root.depth() - 1,
            root.pools(),
            root.nested_pool(false),
            jobs[i].2.as_millis()
        );
    }
}

/// programs whose result is an array that must equal the sequential counterpart's
fn order_program(r: &mut Rng) -> (String, String, String) {
    let n = 2 + r.below(7);
    // first tasks work longest, so that completion order differs from id order
    let fs: Vec<(bool, usize, usize)> = (0..n).map(|i| (r.chance(1, 2), if r.chance(2, 3) { (n - i) * 150 } else { r.below(300) }, r.below(50))).collect();
    let packs = |par: bool| {
        fs.iter()
            .map(|(p, w, c)| {
                let b = format!("+{c}⍥(+1){w}");
                if par { format!("{}({b})", if *p { "pool" } else { "spawn" }) } else { format!("({b})") }
            })
            .collect::<Vec<_>>()
            .join("|")
    };
    let mut perm: Vec<usize> = (0..n).collect();
    let mode = r.below(3);
    let sel = match mode {
        0 => String::new(),
        1 => "⇌".to_string(),
        _ => {
            for i in (1..n).rev() {
                perm.swap(i, r.below(i + 1));
            }
            format!("⊏[{}]", perm.iter().map(|x| x.to_string()).collect::<Vec<_>>().join(" "))
        }
    };
    let x = r.below(100);
    (format!("wait{sel}[⊃({})] {x}", packs(true)), format!("{sel}[⊃({})] {x}", packs(false)), "wait-order".into())
}

fn message_program(r: &mut Rng) -> (String, String, String) {
    let m = 1 + r.below(12);
    let p = if r.chance(1, 2) { "pool" } else { "spawn" };
    let w = r.below(200);
    match r.below(3) {
        0 => {
            // child -> parent: the child sends x, x+1, ... in order; the parent receives m times
            let x = r.below(50);
            (
                format!("Id ← {p}(≡(send 0 ⍥(+0){w})+⇡{m}) {x}\n♭⍥(recv Id){m}\nwait Id"),
                format!("+⇡{m} {x}\n[]"),
                "msg-child-to-parent".into(),
            )
        }
        1 => {
            // parent -> child: the child returns what it received, in order of reception
            let x = r.below(50);
            (format!("Id ← {p}(♭⍥(recv 0){m}◌) 0\n≡(send Id ⍥(+0){w})+⇡{m} {x}\nwait Id"), format!("+⇡{m} {x}"), "msg-parent-to-child".into())
        }
        _ => {
            // two children interleaved, each channel keeps its own order
            let x = r.below(50);
            (
                format!("A ← {p}(≡(send 0)+⇡{m}) {x}\nB ← spawn(≡(send 0)+⇡{m}) {}\n♭⊟⍥(⊃(recv A|recv B)){m}\n⊟∩wait A B", x + 100),
                format!("♭⊟+⇡{m} {x} +⇡{m} {}\n[[][]]", x + 100),
                "msg-two-children".into(),
            )
        }
    }
}

/// fixed regression corpus: the deadlock witnesses of the admission rule before d34a231
/// (nested pool, directly and through a spawn), for every pool size
fn corpus() {
    let nc = cores();
    let mut r = Rng::new(13);
    let mut progs: Vec<(String, String, String)> = vec![("witness".into(), "wait pool(wait pool(+1)) 5".into(), "6".into())];
    let mut fams: Vec<(String, Task)> = Vec::new();
    for n in [1usize, 2, 3, 4, 8, nc, 2 * nc] {
        fams.push((format!("nested-{n}"), nested_family(&mut r, n, true, false)));
    }
    for n in [1usize, 2, 4, nc] {
        fams.push((format!("nested-via-spawn-{n}"), nested_family(&mut r, n, true, true)));
    }
    // three levels of pool
    let deep = |r: &mut Rng, n: usize| {
        let mut t = nested_family(r, n, true, false);
        for k in t.kids.iter_mut() {
            let leaf = k.kids.pop().unwrap();
            k.kids.push(Task { pool: true, work: 2, c: 1, kids: vec![leaf], rev_wait: false });
        }
        t
    };
    for n in [1usize, 2, 4] {
        fams.push((format!("nested3-{n}"), deep(&mut r, n)));
    }
    for (name, t) in fams {
        progs.push((name, format!("{} 5", t.body(true)), format!("{}", t.value(5))));
    }
    let mut jobs = Vec::new();
    let mut meta = Vec::new();
    for (name, src, want) in &progs {
        for m in pool_sizes() {
            jobs.push((m, src.clone(), Duration::from_millis(2500)));
            meta.push((name.clone(), src.clone(), want.clone(), m));
        }
    }
    let outs = run_many(&jobs);
    let mut bad = 0;
    for (o, (name, src, want, m)) in outs.iter().zip(meta) {
        if o.kind == "value" && o.text == want {
            continue;
        }
        bad += 1;
        let key = if o.kind == "timeout" { "pool-nested-saturation".to_string() } else { format!("corpus:{name}:{}", o.kind) };
        println!(
            "{{\"violation\":\"termination\",\"key\":{},\"name\":{},\"src\":{},\"max\":{},\"detail\":{}}}",
            jstr(&key),
            jstr(&name),
            jstr(&src),
            eff(m),
            jstr(&format!("outcome {} {:?} after {} ms, sequential value {want}, {} pool workers", o.kind, o.text, o.ms, eff(m)))
        );
    }
    println!("{{\"corpus\":{},\"runs\":{},\"bad\":{bad}}}", progs.len(), jobs.len());
}

fn search(n: usize, r: &mut Rng) {
    let nc = cores();
    let mut evals = 0usize;
    let mut timeouts_nested = 0usize;
    let mut kinds: std::collections::BTreeMap<String, usize> = Default::default();
    // --- A: larger trees, verdict from the theorems' side conditions
    let mut jobs = Vec::new();
    let mut meta = Vec::new();
    let x0 = 7u64;
    for i in 0..n {
        let t = match i % 4 {
            0 => {
                let (a, b) = (1 + r.below(6 * nc), 1 + r.below(4));
                flat_family(r, a, b)
            }
            1 => {
                let (a, b, c) = (1 + r.below(2 * nc), r.chance(3, 4), r.chance(1, 3));
                nested_family(r, a, b, c)
            }
            _ => {
                let depth = 1 + r.below(3);
                let (w, pb) = (1 + r.below(if depth == 1 { 3 * nc } else { 6 }), r.below(5));
                gen_task(r, depth, w, pb, true)
            }
        };
        if t.count() > 120 {
            continue;
        }
        let mut root = t;
        root.pool = false;
        let par = format!("{} {x0}", root.body(true));
        let (seq, seq_ms) = run_seq(&format!("{} {x0}", root.body(false)));
        let m = *r.pick(&pool_sizes());
        jobs.push((m, par.clone(), cap_for(seq_ms)));
        meta.push((root, par, seq, m));
    }
    let outs = run_many(&jobs);
    for (o, (root, par, seq, m)) in outs.iter().zip(meta) {
        evals += 1;
        *kinds.entry(format!("tree:{}", o.kind)).or_default() += 1;
        let want = format!("{}", root.value(x0));
        let nested = root.nested_pool(false);
        let seq_s = seq.clone().unwrap_or_else(|e| format!("ERROR {e}"));
        if seq_s != want {
            println!("{{\"violation\":\"sequential-counterpart\",\"key\":\"seq-mismatch\",\"src\":{},\"detail\":{}}}", jstr(&par), jstr(&format!("sequential run gave {seq_s}, expected {want}")));
        }
        match o.kind {
            "value" if o.text == want => {}
            "timeout" if nested => {
                timeouts_nested += 1;
                println!(
                    "{{\"violation\":\"termination\",\"key\":\"pool-nested-saturation\",\"src\":{},\"max\":{},\"detail\":{}}}",
                    jstr(&par),
                    eff(m),
                    jstr(&format!("no result after {} ms (sequential value {want}); pool tasks call pool while {} workers exist", o.ms, eff(m)))
                );
            }
            _ => println!(
                "{{\"violation\":\"transparency\",\"key\":{},\"src\":{},\"max\":{},\"detail\":{}}}",
                jstr(&format!("tree:{}:{}", o.kind, if nested { "nested" } else { "flat" })),
                jstr(&par),
                eff(m),
                jstr(&format!("outcome {} {:?}, sequential value {want}", o.kind, o.text))
            ),
        }
    }
    // --- B: wait order and message order
    let mut jobs = Vec::new();
    let mut meta = Vec::new();
    for i in 0..n {
        let (par, seqp, kind) = if i % 2 == 0 { order_program(r) } else { message_program(r) };
        let (seq, seq_ms) = run_seq(&seqp);
        let m = *r.pick(&pool_sizes());
        jobs.push((m, par.clone(), cap_for(seq_ms)));
        meta.push((par, seq, kind, m));
    }
    let outs = run_many(&jobs);
    for (o, (par, seq, kind, m)) in outs.iter().zip(meta) {
        evals += 1;
        *kinds.entry(format!("{kind}:{}", o.kind)).or_default() += 1;
        let want = seq.unwrap_or_else(|e| format!("ERROR {e}"));
        if !(o.kind == "value" && o.text == want) {
            println!(
                "{{\"violation\":{},\"key\":{},\"src\":{},\"max\":{},\"detail\":{}}}",
                jstr(&kind),
                jstr(&format!("{kind}:{}", o.kind)),
                jstr(&par),
                eff(m),
                jstr(&format!("outcome {} {:?}, expected {want}", o.kind, o.text))
            );
        }
    }
    println!("{{\"evaluations\":{evals},\"timeouts_nested\":{timeouts_nested},\"kinds\":{}}}", serde_json::to_string(&kinds).unwrap());
}

fn main() {
    let a: Vec<String> = std::env::args().collect();
    let mode = a.get(1).cloned().unwrap_or_default();
    let mut r = Rng::new(seed_from_env());
    match mode.as_str() {
        "child" => child_main(a[2].parse().unwrap_or(0), &a[3]),
        "one" => {
            let cap = a.get(4).and_then(|s| s.parse().ok()).unwrap_or(3000);
            let o = run_child(a[2].parse().unwrap_or(0), &a[3], Duration::from_millis(cap));
            println!("{{\"outcome\":{},\"value\":{},\"ms\":{}}}", jstr(o.kind), jstr(&o.text), o.ms);
        }
        "corpus" => corpus(),
        "tie" => tie(a.get(2).and_then(|s| s.parse().ok()).unwrap_or(20), &mut r),
        "search" => search(a.get(2).and_then(|s| s.parse().ok()).unwrap_or(20), &mut r),
        _ => eprintln!("usage: c13 child MAX SRC | one MAX SRC [CAP_MS] | corpus | tie N | search N"),
    }
}
