//! C13: spawn / pool / wait are transparent and always finish.
//!   c13 child MAX SRC     -> run SRC with the pool limited to MAX workers (0 = default), print one JSON line
//!   c13 tie N             -> JSON lines: generated task trees x pool sizes, outcome of an isolated run,
//!                            sequential value, the tree as a term of the Coq model (coq/Model/Pool.v)
//!   c13 corpus            -> the former deadlock witnesses (nested pool) x pool sizes; violations
//!   c13 groups N          -> JSON lines: wait on id arrays (group sizes 0,1,2.., id shapes), results with shapes
//!   c13 search N          -> JSON lines: larger trees, wait-order and message-order checks; violations
//!   c13 one MAX SRC [CAP_MS] -> run one program in a child with a cap (for replays / experiments)
use std::io::Read;
use std::process::{Command, Stdio};
use std::sync::Mutex;
use std::sync::atomic::{AtomicUsize, Ordering};
use std::time::{Duration, Instant};

use uvh::*;

// ------------------------------------------------------------------ task trees

#[derive(Clone, Debug)]
struct Task {
    pool: bool,
    work: u32,
    c: u32,
    kids: Vec<Task>,
    rev_wait: bool,
}

impl Task {
    fn count(&self) -> usize {
        1 + self.kids.iter().map(|k| k.count()).sum::<usize>()
    }
    fn depth(&self) -> usize {
        1 + self.kids.iter().map(|k| k.depth()).max().unwrap_or(0)
    }
    fn pools(&self) -> usize {
        self.pool as usize + self.kids.iter().map(|k| k.pools()).sum::<usize>()
    }
    fn has_pool(&self) -> bool {
        self.pool || self.kids.iter().any(|k| k.has_pool())
    }
    /// some `pool` is executed by a thread that has a pool task among its ancestors-or-self
    fn nested_pool(&self, under_pool: bool) -> bool {
        let here = under_pool || self.pool;
        self.kids.iter().any(|k| (here && k.pool) || k.nested_pool(here))
    }
    /// value of the task applied to x (the sequential meaning)
    fn value(&self, x: u64) -> u64 {
        let x1 = x + self.work as u64;
        if self.kids.is_empty() {
            x1 + self.c as u64
        } else {
            self.c as u64 + self.kids.iter().map(|k| k.value(x1)).sum::<u64>()
        }
    }
    /// uiua text of the task body (a function: one argument, one result)
    fn body(&self, par: bool) -> String {
        let work = if self.work > 0 { format!("⍥(+1){}", self.work) } else { String::new() };
        if self.kids.is_empty() {
            return format!("+{}{}", self.c, work);
        }
        let fs: Vec<String> = self
            .kids
            .iter()
            .map(|k| {
                if par {
                    format!("{}({})", if k.pool { "pool" } else { "spawn" }, k.body(par))
                } else {
                    format!("({})", k.body(par))
                }
            })
            .collect();
        let w = if par { "wait" } else { "" };
        if fs.len() == 1 && self.rev_wait {
            // a group of exactly one task whose id reaches wait as an array of shape [1]:
            // the result must be an array with one row (first of a scalar would be an error)
            format!("+{}⊢{w}[{}{}]", self.c, fs[0], work)
        } else if fs.len() == 1 {
            format!("+{}{w} {}{}", self.c, fs[0], work)
        } else {
            let rev = if self.rev_wait { "⇌" } else { "" };
            format!("+{}/+{w}{rev}[⊃({}){}]", self.c, fs.join("|"), work)
        }
    }
    /// code of the task in the Coq model (list instr); the argument is on the stack
    fn coq(&self) -> String {
        if self.kids.is_empty() {
            return format!("[Work {}; Push {}%N; AddAll]", self.work, self.work + self.c);
        }
        let mut s = format!("[Work {}; Push {}%N; AddAll", self.work, self.work);
        // uiua's fork runs its functions right to left: the last function gets child id 1
        let n = self.kids.len();
        for k in self.kids.iter().rev() {
            s.push_str(&format!("; Dup; Fork {} 1 {}", if k.pool { "true" } else { "false" }, k.coq()));
        }
        s.push_str(&format!("; Pop; Push {}%N", self.c));
        let mut ids: Vec<usize> = (1..=n).rev().collect(); // array order = function order = ids n..1
        if self.rev_wait {
            ids.reverse();
        }
        if n == 1 && !self.rev_wait {
            s.push_str("; Wait 1");
        } else {
            s.push_str(&format!("; WaitAll [] [{}] []", ids.iter().map(|i| i.to_string()).collect::<Vec<_>>().join(";")));
        }
        s.push_str("; AddAll]");
        s
    }
}

fn gen_task(r: &mut Rng, depth: usize, width: usize, pool_bias: usize, top: bool) -> Task {
    let kids = if depth == 0 {
        vec![]
    } else {
        let n = if top { width } else { 1 + r.below(width.min(3)) };
        (0..n)
            .map(|_| {
                let d = if r.chance(1, 4) { 0 } else { depth - 1 };
                gen_task(r, d, width, pool_bias, false)
            })
            .collect()
    };
    Task { pool: r.below(4) < pool_bias, work: r.below(40) as u32, c: r.below(9) as u32, kids, rev_wait: r.chance(1, 3) }
}

/// the canonical deadlock family: n pool tasks each doing a nested `wait pool F`
fn nested_family(r: &mut Rng, n: usize, inner_pool: bool, via_spawn: bool) -> Task {
    let leaf = |r: &mut Rng, pool: bool| Task { pool, work: r.below(20) as u32, c: r.below(9) as u32, kids: vec![], rev_wait: false };
    let kids = (0..n)
        .map(|_| {
            let inner = leaf(r, inner_pool);
            let mid = if via_spawn {
                vec![Task { pool: false, work: 1, c: 0, kids: vec![inner], rev_wait: false }]
            } else {
                vec![inner]
            };
            Task { pool: true, work: r.below(10) as u32, c: 1, kids: mid, rev_wait: r.chance(1, 2) }
        })
        .collect();
    Task { pool: false, work: 0, c: 0, kids, rev_wait: false }
}

fn flat_family(r: &mut Rng, n: usize, pool_bias: usize) -> Task {
    let kids = (0..n)
        .map(|_| Task { pool: r.below(4) < pool_bias, work: r.below(60) as u32, c: r.below(9) as u32, kids: vec![], rev_wait: false })
        .collect();
    Task { pool: false, work: r.below(5) as u32, c: r.below(9) as u32, kids, rev_wait: r.chance(1, 2) }
}

fn cores() -> usize {
    std::thread::available_parallelism().map(|p| p.get()).unwrap_or(1)
}

// ------------------------------------------------------------------ isolated runs

#[derive(Debug, Clone)]
struct Outcome {
    kind: &'static str, // value | error | timeout | crash
    text: String,
    ms: u128,
}

fn run_child(max: usize, src: &str, cap: Duration) -> Outcome {
    let exe = std::env::current_exe().unwrap();
    let t0 = Instant::now();
    let mut ch = match Command::new(exe).arg("child").arg(max.to_string()).arg(src).stdin(Stdio::null()).stdout(Stdio::piped()).stderr(Stdio::null()).spawn() {
        Ok(c) => c,
        Err(e) => return Outcome { kind: "crash", text: format!("spawn failed: {e}"), ms: 0 },
    };
    loop {
        match ch.try_wait() {
            Ok(Some(_)) => break,
            Ok(None) => {
                if t0.elapsed() > cap {
                    let _ = ch.kill();
                    let _ = ch.wait();
                    return Outcome { kind: "timeout", text: String::new(), ms: t0.elapsed().as_millis() };
                }
                std::thread::sleep(Duration::from_millis(3));
            }
            Err(e) => return Outcome { kind: "crash", text: format!("{e}"), ms: t0.elapsed().as_millis() },
        }
    }
    let ms = t0.elapsed().as_millis();
    let mut out = String::new();
    if let Some(mut o) = ch.stdout.take() {
        let _ = o.read_to_string(&mut out);
    }
    let out = out.trim();
    if let Some(v) = out.strip_prefix("V ") {
        Outcome { kind: "value", text: v.to_string(), ms }
    } else if let Some(e) = out.strip_prefix("E ") {
        Outcome { kind: "error", text: e.to_string(), ms }
    } else {
        Outcome { kind: "crash", text: out.to_string(), ms }
    }
}

/// shape and data of a numeric value
fn sd(v: &uiua::Value) -> Option<(Vec<usize>, Vec<f64>)> {
    let sh: Vec<usize> = v.shape.iter().copied().collect();
    match v {
        uiua::Value::Num(a) => Some((sh, a.elements().copied().collect())),
        uiua::Value::Byte(a) => Some((sh, a.elements().map(|x| *x as f64).collect())),
        _ => None,
    }
}

/// canonical text of a value: scalars as uiua shows them, arrays as `[shape]|data` (the shape is
/// part of the comparison: [11] and 11, or shapes [3] and [3 1], differ)
fn canon(v: &uiua::Value) -> String {
    match sd(v) {
        Some((sh, d)) if !sh.is_empty() => {
            format!("[{}]|{}", sh.iter().map(|x| x.to_string()).collect::<Vec<_>>().join(" "), d.iter().map(|x| x.to_string()).collect::<Vec<_>>().join(" "))
        }
        _ => format!("{v:?}"),
    }
}

fn canon_sd(sh: &[usize], d: &[f64]) -> String {
    if sh.is_empty() && d.len() == 1 {
        return format!("{}", d[0]);
    }
    format!("[{}]|{}", sh.iter().map(|x| x.to_string()).collect::<Vec<_>>().join(" "), d.iter().map(|x| x.to_string()).collect::<Vec<_>>().join(" "))
}

fn show_stack(st: &[uiua::Value]) -> String {
    st.iter().map(canon).collect::<Vec<_>>().join(" | ")
}

/// message of an error without its `line:col: ` prefix
fn err_msg(e: &str) -> String {
    let mut parts = e.splitn(3, ':');
    match (parts.next(), parts.next(), parts.next()) {
        (Some(a), Some(b), Some(rest)) if a.trim().parse::<usize>().is_ok() && b.trim().parse::<usize>().is_ok() => rest.trim().to_string(),
        _ => e.trim().to_string(),
    }
}

fn child_main(max: usize, src: &str) {
    uiua::verif::set_pool_max_threads(if max == 0 { None } else { Some(max) });
    let mut env = uiua::Uiua::with_native_sys();
    match env.run_str(src) {
        Ok(_) => println!("V {}", show_stack(&env.take_stack())),
        Err(e) => println!("E {}", e.to_string().lines().next().unwrap_or("")),
    }
    // threads that were not waited for are abandoned, as at the end of a uiua program
    std::process::exit(0);
}

fn run_seq(src: &str) -> (Result<String, String>, u128) {
    let t0 = Instant::now();
    let mut env = uiua::Uiua::with_native_sys();
    let r = match env.run_str(src) {
        Ok(_) => Ok(show_stack(&env.take_stack())),
        Err(e) => Err(e.to_string().lines().next().unwrap_or("").to_string()),
    };
    (r, t0.elapsed().as_millis())
}

fn cap_for(seq_ms: u128) -> Duration {
    // generous: 200 x the sequential time, at least 2 s (process start + thread creation)
    Duration::from_millis((seq_ms as u64 * 200).clamp(2000, 20000))
}

/// run jobs (max, src, cap) in parallel children; results in job order
fn run_many(jobs: &[(usize, String, Duration)]) -> Vec<Outcome> {
    let res: Vec<Mutex<Option<Outcome>>> = jobs.iter().map(|_| Mutex::new(None)).collect();
    let next = AtomicUsize::new(0);
    let par = (cores() / 3).clamp(1, 6);
    std::thread::scope(|s| {
        for _ in 0..par {
            s.spawn(|| {
                loop {
                    let i = next.fetch_add(1, Ordering::SeqCst);
                    if i >= jobs.len() {
                        break;
                    }
                    let (m, src, cap) = &jobs[i];
                    let mut o = run_child(*m, src, *cap);
                    if o.kind == "timeout" {
                        // confirm with a longer cap: a slow machine must not look like a hang
                        let o2 = run_child(*m, src, *cap * 5 / 2);
                        if o2.kind != "timeout" {
                            o = o2;
                        } else {
                            o.ms += o2.ms;
                        }
                    }
                    *res[i].lock().unwrap() = Some(o);
                }
            });
        }
    });
    res.into_iter().map(|m| m.into_inner().unwrap().unwrap()).collect()
}

fn pool_sizes() -> Vec<usize> {
    vec![1, 2, 4, 0]
}

fn eff(max: usize) -> usize {
    if max == 0 { cores() } else { max }
}

// ------------------------------------------------------------------ modes

fn tie(n: usize, r: &mut Rng) {
    let nc = cores();
    let mut trees: Vec<(String, Task)> = Vec::new();
    // fixed: the measured witness and its neighbours
    for (name, k, ip, vs) in [("nested-1", 1, true, false), ("nested-2", 2, true, false), ("nested-4", 4, true, false), ("nested-via-spawn-2", 2, true, true), ("pool-of-spawn-3", 3, false, false)] {
        trees.push((name.to_string(), nested_family(r, k, ip, vs)));
    }
    trees.push(("nested-allcores".into(), nested_family(r, nc, true, false)));
    trees.push(("flat-4cores".into(), flat_family(r, 4 * nc, 3)));
    trees.push(("flat-1".into(), flat_family(r, 1, 4)));
    while trees.len() < n {
        let t = match r.below(6) {
            0 => {
                let (a, b) = (1 + r.below(4 * nc), 1 + r.below(4));
                ("flat".to_string(), flat_family(r, a, b))
            }
            1 => {
                let (a, b, c) = (1 + r.below(6), r.chance(3, 4), r.chance(1, 4));
                ("nested".to_string(), nested_family(r, a, b, c))
            }
            _ => {
                let depth = 1 + r.below(3);
                let width = 1 + r.below(if depth == 1 { 12 } else { 4 });
                let pb = r.below(5);
                ("tree".to_string(), gen_task(r, depth, width, pb, true))
            }
        };
        if t.1.count() <= 70 {
            trees.push(t);
        }
    }
    let x0 = 5u64;
    let mut jobs = Vec::new();
    let mut meta = Vec::new();
    for (name, t) in &trees {
        let mut root = t.clone();
        root.pool = false;
        let par = format!("{} {x0}", root.body(true));
        let seqp = format!("{} {x0}", root.body(false));
        let (seq, seq_ms) = run_seq(&seqp);
        let want = root.value(x0);
        for m in pool_sizes() {
            jobs.push((m, par.clone(), cap_for(seq_ms)));
            meta.push((name.clone(), root.clone(), par.clone(), seq.clone(), seq_ms, want, m));
        }
    }
    let outs = run_many(&jobs);
    for (i, (o, (name, root, par, seq, seq_ms, want, m))) in outs.iter().zip(meta).enumerate() {
        println!(
            "{{\"i\":{i},\"name\":{},\"max\":{m},\"mx\":{},\"outcome\":{},\"value\":{},\"ms\":{},\"seq\":{},\"seq_ms\":{seq_ms},\"want\":{want},\"src\":{},\"coq\":{},\"tasks\":{},\"depth\":{},\"pools\":{},\"nested_pool\":{},\"cap_ms\":{}}}",
            jstr(&name),
            eff(m),
            jstr(o.kind),
            jstr(&o.text),
            o.ms,
            jstr(&match seq {
                Ok(s) => s,
                Err(e) => format!("ERROR {e}"),
            }),
            jstr(&par),
            jstr(&format!("(Push {x0}%N :: {})", root.coq())),
            root.count() - 1,
            root.depth() - 1,
            root.pools(),
            root.nested_pool(false),
            jobs[i].2.as_millis()
        );
    }
}

/// programs whose result is an array that must equal the sequential counterpart's
fn order_program(r: &mut Rng) -> (String, String, String) {
    let n = 2 + r.below(7);
    // first tasks work longest, so that completion order differs from id order
    let fs: Vec<(bool, usize, usize)> = (0..n).map(|i| (r.chance(1, 2), if r.chance(2, 3) { (n - i) * 150 } else { r.below(300) }, r.below(50))).collect();
    let packs = |par: bool| {
        fs.iter()
            .map(|(p, w, c)| {
                let b = format!("+{c}⍥(+1){w}");
                if par { format!("{}({b})", if *p { "pool" } else { "spawn" }) } else { format!("({b})") }
            })
            .collect::<Vec<_>>()
            .join("|")
    };
    let mut perm: Vec<usize> = (0..n).collect();
    let mode = r.below(3);
    let sel = match mode {
        0 => String::new(),
        1 => "⇌".to_string(),
        _ => {
            for i in (1..n).rev() {
                perm.swap(i, r.below(i + 1));
            }
            format!("⊏[{}]", perm.iter().map(|x| x.to_string()).collect::<Vec<_>>().join(" "))
        }
    };
    let x = r.below(100);
    (format!("wait{sel}[⊃({})] {x}", packs(true)), format!("{sel}[⊃({})] {x}", packs(false)), "wait-order".into())
}

fn message_program(r: &mut Rng) -> (String, String, String) {
    let m = 1 + r.below(12);
    let p = if r.chance(1, 2) { "pool" } else { "spawn" };
    let w = r.below(200);
    match r.below(3) {
        0 => {
            // child -> parent: the child sends x, x+1, ... in order; the parent receives m times
            let x = r.below(50);
            (
                format!("Id ← {p}(≡(send 0 ⍥(+0){w})+⇡{m}) {x}\n♭⍥(recv Id){m}\nwait Id"),
                format!("+⇡{m} {x}\n[]"),
                "msg-child-to-parent".into(),
            )
        }
        1 => {
            // parent -> child: the child returns what it received, in order of reception
            let x = r.below(50);
            (format!("Id ← {p}(♭⍥(recv 0){m}◌) 0\n≡(send Id ⍥(+0){w})+⇡{m} {x}\nwait Id"), format!("+⇡{m} {x}"), "msg-parent-to-child".into())
        }
        _ => {
            // two children interleaved, each channel keeps its own order
            let x = r.below(50);
            (
                format!("A ← {p}(≡(send 0)+⇡{m}) {x}\nB ← spawn(≡(send 0)+⇡{m}) {}\n♭⊟⍥(⊃(recv A|recv B)){m}\n⊟∩wait A B", x + 100),
                format!("♭⊟+⇡{m} {x} +⇡{m} {}\n[[][]]", x + 100),
                "msg-two-children".into(),
            )
        }
    }
}

// ------------------------------------------------------------------ task groups: shape of `wait` on id arrays

/// result of one thread / of a wait: a numeric array or an error code
/// (0 = "A thread errored", k = the child's own error "boomk", 999999 = anything else)
#[derive(Clone, Debug, PartialEq)]
enum WRes {
    Val(Vec<usize>, Vec<f64>),
    Err(u64),
}

fn err_code(msg: &str) -> u64 {
    let m = err_msg(msg);
    if m == "A thread errored" {
        0
    } else if let Some(k) = m.strip_prefix("boom") {
        k.parse().unwrap_or(999999)
    } else {
        999999
    }
}

fn wres_json(w: &WRes) -> String {
    match w {
        WRes::Val(s, d) => format!(
            "{{\"s\":[{}],\"d\":[{}]}}",
            s.iter().map(|x| x.to_string()).collect::<Vec<_>>().join(","),
            d.iter().map(|x| format!("{}", *x as i64)).collect::<Vec<_>>().join(",")
        ),
        WRes::Err(c) => format!("{{\"e\":{c}}}"),
    }
}

fn wres_text(w: &WRes) -> String {
    match w {
        WRes::Val(s, d) => canon_sd(s, d),
        WRes::Err(0) => "ERROR A thread errored".into(),
        WRes::Err(c) => format!("ERROR boom{c}"),
    }
}

/// the glue of Uiua::wait (run.rs:1537-1605) on the results of the threads, in id-array order;
/// replica of `wait_glue` in coq/Model/Pool.v (the tie evaluates the Coq one)
fn glue(ish: &[usize], rows: &[WRes]) -> WRes {
    if ish.is_empty() {
        return match rows {
            [WRes::Val(s, d)] => WRes::Val(s.clone(), d.clone()),
            [WRes::Err(_)] => WRes::Err(0),
            _ => WRes::Err(999999),
        };
    }
    let mut data = Vec::new();
    let mut rs: Option<Vec<usize>> = None;
    for r in rows {
        match r {
            WRes::Err(c) => return WRes::Err(*c),
            WRes::Val(s, d) => {
                if let Some(s0) = &rs {
                    if s0 != s {
                        return WRes::Err(999999);
                    }
                } else {
                    rs = Some(s.clone());
                }
                data.extend_from_slice(d);
            }
        }
    }
    let mut shape = ish.to_vec();
    shape.extend(rs.unwrap_or_default());
    WRes::Val(shape, data)
}

/// run a program in this process, top of the stack as a WRes
fn run_wres(src: &str) -> WRes {
    let mut env = uiua::Uiua::with_native_sys();
    match env.run_str(src) {
        Ok(_) => match env.take_stack().pop().as_ref().and_then(sd) {
            Some((s, d)) => WRes::Val(s, d),
            None => WRes::Err(999999),
        },
        Err(e) => WRes::Err(err_code(e.to_string().lines().next().unwrap_or(""))),
    }
}

fn parse_outcome(o: &Outcome) -> Option<WRes> {
    match o.kind {
        "error" => Some(WRes::Err(err_code(&o.text))),
        "value" => {
            let t = o.text.trim();
            if let Some(rest) = t.strip_prefix('[') {
                let (sh, d) = rest.split_once("]|")?;
                let shape: Vec<usize> = sh.split_whitespace().map(|x| x.parse().ok()).collect::<Option<_>>()?;
                let data: Vec<f64> = d.split_whitespace().map(|x| x.parse().ok()).collect::<Option<_>>()?;
                Some(WRes::Val(shape, data))
            } else {
                t.parse::<f64>().ok().map(|x| WRes::Val(vec![], vec![x]))
            }
        }
        _ => None,
    }
}

struct GCase {
    kind: String,
    par: String,
    seq: Option<String>,
    ish: Vec<usize>,
    threads: Vec<String>, // sequential source of each thread, in id-array order
}

fn nums(xs: &[usize]) -> String {
    if xs.is_empty() { "[]".into() } else { format!("[{}]", xs.iter().map(|x| x.to_string()).collect::<Vec<_>>().join(" ")) }
}

fn group_case(r: &mut Rng, form: usize) -> GCase {
    let pk = |r: &mut Rng| if r.chance(1, 2) { "pool" } else { "spawn" };
    let fs_scalar = ["+3", "+1×2", "×2", "+0⍥(+1)20"];
    let fs_any = ["+3", "+1×2", "⊟.", "+⇡3", "⊟+1.", "+0⍥(+1)30"];
    // group sizes: 1 is the interesting one
    let size = |r: &mut Rng| *r.pick(&[1usize, 1, 1, 2, 3, 5]);
    let (p, q, t) = (pk(r), pk(r), pk(r));
    match form {
        0 => {
            let n = *r.pick(&[0usize, 1, 1, 1, 2, 3, 5]);
            let f = if n == 0 { *r.pick(&fs_scalar) } else { *r.pick(&fs_any) };
            let xs: Vec<usize> = (0..n).map(|_| r.below(20)).collect();
            GCase { kind: "rows".into(), par: format!("wait≡{p}({f}) {}", nums(&xs)), seq: Some(format!("≡({f}) {}", nums(&xs))), ish: vec![n], threads: xs.iter().map(|x| format!("({f}) {x}")).collect() }
        }
        1 => {
            let (a, b) = (size(r).min(3), size(r).min(3));
            let f = *r.pick(&fs_any);
            let x = format!("↯[{a} {b}]⇡{}", a * b);
            GCase { kind: "rows-rows".into(), par: format!("wait≡≡{p}({f}) {x}"), seq: Some(format!("≡≡({f}) {x}")), ish: vec![a, b], threads: (0..a * b).map(|k| format!("({f}) {k}")).collect() }
        }
        2 => {
            let (a, b) = (size(r).min(3), size(r).min(3));
            let f = *r.pick(&fs_any);
            let x = format!("↯[{a} {b}]⇡{}", a * b);
            GCase {
                kind: "nested2".into(),
                par: format!("wait≡{p}(wait≡{q}({f})) {x}"),
                seq: Some(format!("≡(≡({f})) {x}")),
                ish: vec![a],
                threads: (0..a).map(|i| format!("≡({f}) +{}⇡{b}", i * b)).collect(),
            }
        }
        3 => {
            let (a, b, c) = (size(r).min(2), size(r).min(2), size(r).min(3));
            let f = *r.pick(&fs_any);
            let x = format!("↯[{a} {b} {c}]⇡{}", a * b * c);
            GCase {
                kind: "nested3".into(),
                par: format!("wait≡{p}(wait≡{q}(wait≡{t}({f}))) {x}"),
                seq: Some(format!("≡(≡(≡({f}))) {x}")),
                ish: vec![a],
                threads: (0..a).map(|i| format!("≡(≡({f})) ↯[{b} {c}]+{}⇡{}", i * b * c, b * c)).collect(),
            }
        }
        4 | 5 => {
            let n = size(r).min(3);
            let pair = r.chance(1, 3);
            let items: Vec<(String, usize, &str)> = (0..n).map(|_| (if pair { format!("⊟+{}.", r.below(9)) } else { format!("+{}", r.below(9)) }, r.below(20), pk(r))).collect();
            let lst = |par: bool| items.iter().map(|(f, x, p)| if par { format!("{p}({f}) {x}") } else { format!("({f}) {x}") }).collect::<Vec<_>>().join(" ");
            let threads = items.iter().map(|(f, x, _)| format!("({f}) {x}")).collect();
            if form == 4 {
                GCase { kind: "list".into(), par: format!("wait[{}]", lst(true)), seq: Some(format!("[{}]", lst(false))), ish: vec![n], threads }
            } else {
                let ish = match r.below(3) {
                    0 => vec![1, n],
                    1 => vec![n, 1],
                    _ => vec![1, 1, n],
                };
                GCase { kind: "reshaped-list".into(), par: format!("wait↯{}[{}]", nums(&ish), lst(true)), seq: None, ish, threads }
            }
        }
        6 => {
            let f = *r.pick(&fs_any);
            let x = r.below(20);
            GCase { kind: "fix".into(), par: format!("wait¤{p}({f}) {x}"), seq: Some(format!("¤({f}) {x}")), ish: vec![1], threads: vec![format!("({f}) {x}")] }
        }
        7 => {
            let (a, b) = (size(r).min(3), size(r).min(2));
            let xa: Vec<usize> = (0..a).map(|_| r.below(20)).collect();
            let xb: Vec<usize> = (0..b).map(|_| r.below(20)).collect();
            let mut threads = Vec::new();
            for i in &xa {
                for j in &xb {
                    threads.push(format!("+ {i} {j}"));
                }
            }
            GCase { kind: "table".into(), par: format!("wait⊞{p}(+) {} {}", nums(&xa), nums(&xb)), seq: Some(format!("⊞(+) {} {}", nums(&xa), nums(&xb))), ish: vec![a, b], threads }
        }
        8 => {
            let f = *r.pick(&fs_any);
            let x = r.below(20);
            GCase { kind: "scalar".into(), par: format!("wait {p}({f}) {x}"), seq: Some(format!("({f}) {x}")), ish: vec![], threads: vec![format!("({f}) {x}")] }
        }
        9 => {
            // exactly one failing child in a list (so that the sequential counterpart fails alike)
            let n = size(r).min(3);
            let bad = r.below(n);
            let items: Vec<(String, usize, &str)> = (0..n).map(|i| (if i == bad { format!("⍤\"boom{}\"0", i + 1) } else { format!("+{}", r.below(9)) }, r.below(20), pk(r))).collect();
            let lst = |par: bool| items.iter().map(|(f, x, p)| if par { format!("{p}({f}) {x}") } else { format!("({f}) {x}") }).collect::<Vec<_>>().join(" ");
            GCase { kind: "err-list".into(), par: format!("wait[{}]", lst(true)), seq: Some(format!("[{}]", lst(false))), ish: vec![n], threads: items.iter().map(|(f, x, _)| format!("({f}) {x}")).collect() }
        }
        10 => {
            let n = size(r).min(3);
            let xs: Vec<usize> = (0..n).map(|i| 3 + i).collect();
            let v = xs[r.below(n)];
            let f = format!("⍤\"boom1\"≠{v}.");
            GCase { kind: "err-rows".into(), par: format!("wait≡{p}({f}) {}", nums(&xs)), seq: Some(format!("≡({f}) {}", nums(&xs))), ish: vec![n], threads: xs.iter().map(|x| format!("({f}) {x}")).collect() }
        }
        11 => GCase { kind: "err-scalar".into(), par: format!("wait {p}(⍤\"boom1\"0) 5"), seq: None, ish: vec![], threads: vec!["(⍤\"boom1\"0) 5".into()] },
        _ => {
            let (a, b) = (size(r).min(3), size(r).min(2));
            let v = r.below(a * b);
            let f = format!("⍤\"boom1\"≠{v}.");
            let x = format!("↯[{a} {b}]⇡{}", a * b);
            GCase {
                kind: "err-nested".into(),
                par: format!("wait≡{p}(wait≡{q}({f})) {x}"),
                seq: Some(format!("≡(≡({f})) {x}")),
                ish: vec![a],
                threads: (0..a).map(|i| format!("≡({f}) +{}⇡{b}", i * b)).collect(),
            }
        }
    }
}

/// fixed group cases first (the seeded-defect shapes), then generated ones
fn group_cases(n: usize, r: &mut Rng) -> Vec<GCase> {
    let mut cs = vec![
        GCase { kind: "rows".into(), par: "wait≡pool(+1×2) [5]".into(), seq: Some("≡(+1×2) [5]".into()), ish: vec![1], threads: vec!["(+1×2) 5".into()] },
        GCase { kind: "rows".into(), par: "wait≡spawn(⇡) [3]".into(), seq: Some("≡(⇡) [3]".into()), ish: vec![1], threads: vec!["(⇡) 3".into()] },
        GCase {
            kind: "nested2".into(),
            par: "wait≡pool(wait≡spawn(+1×2)) [[1] [2] [3]]".into(),
            seq: Some("≡(≡(+1×2)) [[1] [2] [3]]".into()),
            ish: vec![3],
            threads: vec!["≡(+1×2) [1]".into(), "≡(+1×2) [2]".into(), "≡(+1×2) [3]".into()],
        },
        GCase { kind: "list".into(), par: "wait[spawn(+1) 5]".into(), seq: Some("[(+1) 5]".into()), ish: vec![1], threads: vec!["(+1) 5".into()] },
        GCase { kind: "fix".into(), par: "wait¤pool(+1) 5".into(), seq: Some("¤(+1) 5".into()), ish: vec![1], threads: vec!["(+1) 5".into()] },
        GCase { kind: "reshaped-list".into(), par: "wait↯[1 1][pool(⊟.) 4]".into(), seq: None, ish: vec![1, 1], threads: vec!["(⊟.) 4".into()] },
        GCase { kind: "rows".into(), par: "wait≡pool(+1) []".into(), seq: Some("≡(+1) []".into()), ish: vec![0], threads: vec![] },
        GCase { kind: "err-rows".into(), par: "wait≡pool(⍤\"boom1\"≠5.) [5]".into(), seq: Some("≡(⍤\"boom1\"≠5.) [5]".into()), ish: vec![1], threads: vec!["(⍤\"boom1\"≠5.) 5".into()] },
        GCase { kind: "err-scalar".into(), par: "wait spawn(⍤\"boom1\"0) 5".into(), seq: None, ish: vec![], threads: vec!["(⍤\"boom1\"0) 5".into()] },
    ];
    let mut k = 0;
    while cs.len() < n {
        cs.push(group_case(r, k % 13));
        k += 1;
    }
    cs
}

/// run group cases; one JSON line per case; `viol` = also print violation lines (search mode)
fn run_groups(cs: Vec<GCase>, r: &mut Rng, viol: bool) -> (usize, usize) {
    let mut jobs = Vec::new();
    let mut ms = Vec::new();
    for _ in &cs {
        ms.push(*r.pick(&pool_sizes()));
    }
    for (c, m) in cs.iter().zip(&ms) {
        jobs.push((*m, c.par.clone(), Duration::from_millis(3000)));
    }
    let outs = run_many(&jobs);
    let mut bad = 0;
    for (i, ((c, o), m)) in cs.iter().zip(&outs).zip(&ms).enumerate() {
        let rows: Vec<WRes> = c.threads.iter().map(|t| run_wres(t)).collect();
        let expect = glue(&c.ish, &rows);
        let imp = parse_outcome(o);
        let seq = c.seq.as_ref().map(|s| run_wres(s));
        let ok_model = imp.as_ref() == Some(&expect);
        let ok_seq = seq.is_none() || imp.as_ref() == seq.as_ref();
        if !viol {
            println!(
                "{{\"g\":{i},\"kind\":{},\"src\":{},\"seq_src\":{},\"max\":{m},\"mx\":{},\"ish\":[{}],\"rows\":[{}],\"outcome\":{},\"value\":{},\"impl\":{},\"seq\":{},\"expect\":{},\"expect_text\":{},\"seq_text\":{}}}",
                jstr(&c.kind),
                jstr(&c.par),
                c.seq.as_ref().map(|s| jstr(s)).unwrap_or("null".into()),
                eff(*m),
                c.ish.iter().map(|x| x.to_string()).collect::<Vec<_>>().join(","),
                rows.iter().map(wres_json).collect::<Vec<_>>().join(","),
                jstr(o.kind),
                jstr(&o.text),
                imp.as_ref().map(wres_json).unwrap_or("null".into()),
                seq.as_ref().map(wres_json).unwrap_or("null".into()),
                wres_json(&expect),
                jstr(&wres_text(&expect)),
                seq.as_ref().map(|s| jstr(&wres_text(s))).unwrap_or("null".into())
            );
        } else if !(ok_model && ok_seq) {
            bad += 1;
            println!(
                "{{\"violation\":\"wait-shape\",\"key\":{},\"src\":{},\"max\":{},\"detail\":{}}}",
                jstr(&format!("wait-shape:{}:{}", c.kind, o.kind)),
                jstr(&c.par),
                eff(*m),
                jstr(&format!(
                    "wait on an id array of shape {:?} gave {} {:?}; expected {} (results of the {} thread(s) in id order, id shape first){}",
                    c.ish,
                    o.kind,
                    o.text,
                    wres_text(&expect),
                    rows.len(),
                    match (&c.seq, &seq) {
                        (Some(s), Some(v)) => format!("; sequential counterpart `{s}` gives {}", wres_text(v)),
                        _ => String::new(),
                    }
                ))
            );
        }
    }
    (cs.len(), bad)
}

/// fixed regression corpus: the deadlock witnesses of the admission rule before d34a231
/// (nested pool, directly and through a spawn), for every pool size
fn corpus() {
    let nc = cores();
    let mut r = Rng::new(13);
    let mut progs: Vec<(String, String, String)> = vec![("witness".into(), "wait pool(wait pool(+1)) 5".into(), "6".into())];
    let mut fams: Vec<(String, Task)> = Vec::new();
    for n in [1usize, 2, 3, 4, 8, nc, 2 * nc] {
        fams.push((format!("nested-{n}"), nested_family(&mut r, n, true, false)));
    }
    for n in [1usize, 2, 4, nc] {
        fams.push((format!("nested-via-spawn-{n}"), nested_family(&mut r, n, true, true)));
    }
    // three levels of pool
    let deep = |r: &mut Rng, n: usize| {
        let mut t = nested_family(r, n, true, false);
        for k in t.kids.iter_mut() {
            let leaf = k.kids.pop().unwrap();
            k.kids.push(Task { pool: true, work: 2, c: 1, kids: vec![leaf], rev_wait: false });
        }
        t
    };
    for n in [1usize, 2, 4] {
        fams.push((format!("nested3-{n}"), deep(&mut r, n)));
    }
    for (name, t) in fams {
        progs.push((name, format!("{} 5", t.body(true)), format!("{}", t.value(5))));
    }
    let mut jobs = Vec::new();
    let mut meta = Vec::new();
    for (name, src, want) in &progs {
        for m in pool_sizes() {
            jobs.push((m, src.clone(), Duration::from_millis(2500)));
            meta.push((name.clone(), src.clone(), want.clone(), m));
        }
    }
    let outs = run_many(&jobs);
    let mut bad = 0;
    for (o, (name, src, want, m)) in outs.iter().zip(meta) {
        if o.kind == "value" && o.text == want {
            continue;
        }
        bad += 1;
        let key = if o.kind == "timeout" { "pool-nested-saturation".to_string() } else { format!("corpus:{name}:{}", o.kind) };
        println!(
            "{{\"violation\":\"termination\",\"key\":{},\"name\":{},\"src\":{},\"max\":{},\"detail\":{}}}",
            jstr(&key),
            jstr(&name),
            jstr(&src),
            eff(m),
            jstr(&format!("outcome {} {:?} after {} ms, sequential value {want}, {} pool workers", o.kind, o.text, o.ms, eff(m)))
        );
    }
    println!("{{\"corpus\":{},\"runs\":{},\"bad\":{bad}}}", progs.len(), jobs.len());
}

fn search(n: usize, r: &mut Rng) {
    let nc = cores();
    let mut evals = 0usize;
    let mut timeouts_nested = 0usize;
    let mut kinds: std::collections::BTreeMap<String, usize> = Default::default();
    // --- A: larger trees, verdict from the theorems' side conditions
    let mut jobs = Vec::new();
    let mut meta = Vec::new();
    let x0 = 7u64;
    for i in 0..n {
        let t = match i % 4 {
            0 => {
                let (a, b) = (1 + r.below(6 * nc), 1 + r.below(4));
                flat_family(r, a, b)
            }
            1 => {
                let (a, b, c) = (1 + r.below(2 * nc), r.chance(3, 4), r.chance(1, 3));
                nested_family(r, a, b, c)
            }
            _ => {
                let depth = 1 + r.below(3);
                let (w, pb) = (1 + r.below(if depth == 1 { 3 * nc } else { 6 }), r.below(5));
                gen_task(r, depth, w, pb, true)
            }
        };
        if t.count() > 120 {
            continue;
        }
        let mut root = t;
        root.pool = false;
        let par = format!("{} {x0}", root.body(true));
        let (seq, seq_ms) = run_seq(&format!("{} {x0}", root.body(false)));
        let m = *r.pick(&pool_sizes());
        jobs.push((m, par.clone(), cap_for(seq_ms)));
        meta.push((root, par, seq, m));
    }
    let outs = run_many(&jobs);
    for (o, (root, par, seq, m)) in outs.iter().zip(meta) {
        evals += 1;
        *kinds.entry(format!("tree:{}", o.kind)).or_default() += 1;
        let want = format!("{}", root.value(x0));
        let nested = root.nested_pool(false);
        let seq_s = seq.clone().unwrap_or_else(|e| format!("ERROR {e}"));
        if seq_s != want {
            println!("{{\"violation\":\"sequential-counterpart\",\"key\":\"seq-mismatch\",\"src\":{},\"detail\":{}}}", jstr(&par), jstr(&format!("sequential run gave {seq_s}, expected {want}")));
        }
        match o.kind {
            "value" if o.text == want => {}
            "timeout" if nested => {
                timeouts_nested += 1;
                println!(
                    "{{\"violation\":\"termination\",\"key\":\"pool-nested-saturation\",\"src\":{},\"max\":{},\"detail\":{}}}",
                    jstr(&par),
                    eff(m),
                    jstr(&format!("no result after {} ms (sequential value {want}); pool tasks call pool while {} workers exist", o.ms, eff(m)))
                );
            }
            _ => println!(
                "{{\"violation\":\"transparency\",\"key\":{},\"src\":{},\"max\":{},\"detail\":{}}}",
                jstr(&format!("tree:{}:{}", o.kind, if nested { "nested" } else { "flat" })),
                jstr(&par),
                eff(m),
                jstr(&format!("outcome {} {:?}, sequential value {want}", o.kind, o.text))
            ),
        }
    }
    // --- B: wait order and message order
    let mut jobs = Vec::new();
    let mut meta = Vec::new();
    for i in 0..n {
        let (par, seqp, kind) = if i % 2 == 0 { order_program(r) } else { message_program(r) };
        let (seq, seq_ms) = run_seq(&seqp);
        let m = *r.pick(&pool_sizes());
        jobs.push((m, par.clone(), cap_for(seq_ms)));
        meta.push((par, seq, kind, m));
    }
    let outs = run_many(&jobs);
    for (o, (par, seq, kind, m)) in outs.iter().zip(meta) {
        evals += 1;
        *kinds.entry(format!("{kind}:{}", o.kind)).or_default() += 1;
        let want = seq.unwrap_or_else(|e| format!("ERROR {e}"));
        if !(o.kind == "value" && o.text == want) {
            println!(
                "{{\"violation\":{},\"key\":{},\"src\":{},\"max\":{},\"detail\":{}}}",
                jstr(&kind),
                jstr(&format!("{kind}:{}", o.kind)),
                jstr(&par),
                eff(m),
                jstr(&format!("outcome {} {:?}, expected {want}", o.kind, o.text))
            );
        }
    }
    // --- C: task groups (sizes 0, 1, 2, ...; id-array shapes [1], [1 1], [n 1], [1 n], ...; failing children):
    // the full result including its shape against the sequential counterpart and the wait glue
    let cs = group_cases(2 * n, r);
    let (gn, gbad) = run_groups(cs, r, true);
    evals += gn;
    kinds.insert("groups".into(), gn);
    kinds.insert("groups:bad".into(), gbad);
    println!("{{\"evaluations\":{evals},\"timeouts_nested\":{timeouts_nested},\"kinds\":{}}}", serde_json::to_string(&kinds).unwrap());
}

fn main() {
    let a: Vec<String> = std::env::args().collect();
    let mode = a.get(1).cloned().unwrap_or_default();
    let mut r = Rng::new(seed_from_env());
    match mode.as_str() {
        "child" => child_main(a[2].parse().unwrap_or(0), &a[3]),
        "one" => {
            let cap = a.get(4).and_then(|s| s.parse().ok()).unwrap_or(3000);
            let o = run_child(a[2].parse().unwrap_or(0), &a[3], Duration::from_millis(cap));
            println!("{{\"outcome\":{},\"value\":{},\"ms\":{}}}", jstr(o.kind), jstr(&o.text), o.ms);
        }
        "corpus" => corpus(),
        "groups" => {
            // tie: task groups of size 0, 1, 2, ... with varied id-array shapes
            let n = a.get(2).and_then(|s| s.parse().ok()).unwrap_or(40);
            let cs = group_cases(n, &mut r);
            run_groups(cs, &mut r, false);
        }
        "tie" => tie(a.get(2).and_then(|s| s.parse().ok()).unwrap_or(20), &mut r),
        "search" => search(a.get(2).and_then(|s| s.parse().ok()).unwrap_or(20), &mut r),
        _ => eprintln!("usage: c13 child MAX SRC | one MAX SRC [CAP_MS] | corpus | groups N | tie N | search N"),
    }
}
