fn main() {
    let mut env = uiua::Uiua::with_safe_sys();
    let src = std::env::args().nth(1).unwrap_or("+1 2".into());
    match env.run_str(&src) {
        Ok(_) => {
            for v in env.take_stack() {
                println!("{}", v.show());
                println!("check: {:?} flags {:?}", uiua::verif::check_value(&v), uiua::verif::flags(&v));
            }
        }
        Err(e) => println!("ERR {e}"),
    }
}
