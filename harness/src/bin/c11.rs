//! C11: a caught error leaves no trace.
//!   c11 exec N    -> programs ⍣(F with a failure injected after step j)(G) for the model tie
//!   c11 search N  -> ⍣(F_j) G against G alone on the implementation (sentinels beneath,
//!                    hidden-stack depths, also inside a fill and inside a called function)
use uvh::*;

/// F as a list of items in execution order, so that a failing assertion can be injected after step j
fn items(g: &mut PGen, r: &mut Rng, len: usize) -> Vec<String> {
    (0..len).map(|_| g.body(r, 2, 1)).collect()
}

fn render(items: &[String], inject_after: Option<usize>) -> String {
    let mut v: Vec<String> = Vec::new();
    for (i, it) in items.iter().enumerate() {
        v.push(it.clone());
        if inject_after == Some(i + 1) {
            v.push("⍤\"boom\"0".to_string());
        }
    }
    if inject_after == Some(0) {
        v.insert(0, "⍤\"boom\"0".to_string());
    }
    v.reverse();
    v.join(" ")
}

fn main_fn(asm: &uiua::Assembly) -> Option<uiua::Function> {
    let idx = *asm.exports.get("Main")?;
    match &asm.bindings.get(idx)?.kind {
        uiua::BindingKind::Func(f) => Some(f.clone()),
        _ => None,
    }
}

fn sig_of(src_body: &str, prelude: &str) -> Option<(usize, usize, uiua::Assembly)> {
    let src = format!("# Experimental!\n{prelude}Main ← {src_body}\n");
    let asm = compile(&src, uiua::PreEvalMode::Lazy).ok()?;
    let f = main_fn(&asm)?;
    Some((f.sig.args(), f.sig.outputs(), asm))
}

fn run_main(asm: &uiua::Assembly, sentinels: &[uiua::Value], args: &[i64]) -> Result<(Vec<uiua::Value>, [usize; 8]), String> {
    let mainf = main_fn(asm).unwrap();
    let mut env = uiua::Uiua::with_safe_sys().with_execution_limit(std::time::Duration::from_secs(2));
    for sv in sentinels {
        env.push(sv.clone());
    }
    for x in args {
        env.push(*x as f64);
    }
    uiua::verif::set_frame_monitor(true);
    let _ = uiua::verif::take_frame_violations();
    let res = catch(|| env.run_asm(asm.clone()).and_then(|_| env.call(&mainf)).map_err(|e| e.to_string()));
    uiua::verif::set_frame_monitor(false);
    // the frame hook: at every return and every failure point of every function / operand the values
    // beneath its arguments, the context stack (where no context effect is claimed) and the hidden stacks
    // must be what they were
    if let Some(v) = uiua::verif::take_frame_violations().into_iter().next() {
        return Err(format!("FRAME-MONITOR: {v}"));
    }
    match res {
        Ok(Ok(())) => {
            let d = uiua::verif::depths(&env);
            Ok((env.take_stack(), d))
        }
        Ok(Err(e)) => Err(e),
        Err(p) => Err(format!("PANIC: {p}")),
    }
}

/// error messages carry the source position of the failing primitive ("3:36: ..."), which legitimately
/// differs between the try program and the program that runs the handler alone; when an error VALUE
/// reaches the stack (a handler that catches an error of its own) the position is not part of the outcome
fn strip_pos(s: &str) -> String {
    let cs: Vec<char> = s.chars().collect();
    let mut out = String::new();
    let mut i = 0;
    while i < cs.len() {
        // digits ':' digits ':' ' '
        let mut j = i;
        while j < cs.len() && cs[j].is_ascii_digit() {
            j += 1;
        }
        if j > i && j < cs.len() && cs[j] == ':' {
            let mut k = j + 1;
            while k < cs.len() && cs[k].is_ascii_digit() {
                k += 1;
            }
            if k > j + 1 && k + 1 < cs.len() && cs[k] == ':' && cs[k + 1] == ' ' {
                i = k + 2;
                continue;
            }
        }
        out.push(cs[i]);
        i += 1;
    }
    out
}
fn text_of(v: &uiua::Value) -> Option<String> {
    if let uiua::Value::Char(a) = v {
        if a.rank() == 1 {
            return Some(a.elements().collect());
        }
    }
    None
}
fn same_vals(a: &[uiua::Value], b: &[uiua::Value]) -> bool {
    a.len() == b.len()
        && a.iter().zip(b).all(|(x, y)| {
            x == y
                || match (text_of(x), text_of(y)) {
                    (Some(p), Some(q)) => strip_pos(&p) == strip_pos(&q),
                    _ => false,
                }
        })
}

fn main() {
    let mode = std::env::args().nth(1).unwrap_or_default();
    let n: usize = std::env::args().nth(2).and_then(|s| s.parse().ok()).unwrap_or(300);
    let mut r = Rng::new(seed_from_env());
    let mut g = PGen { fns: vec![] };
    match mode.as_str() {
        "exec" => {
            let mut emitted = 0;
            let mut tries = 0;
            while emitted < n && tries < n * 30 {
                tries += 1;
                g.fns.clear();
                let k = 1 + r.below(4);
                let its = items(&mut g, &mut r, k);
                let j = r.below(k + 1);
                let f = render(&its, Some(j));
                let hl = 1 + r.below(3);
                let h = g.body(&mut r, 2, hl);
                let wrap = match r.below(4) {
                    0 => format!("⍣({f})({h})"),
                    1 => format!("⊙(⍣({f})({h}))"),
                    2 => format!("⍣(⍣({f})({h}))(◌)"),
                    _ => format!("⍣({f})({h}) ⍣({h})({f})"),
                };
                let lits: Vec<String> = (0..6).map(|_| format!("{}", r.range(0, 3))).collect();
                let src = format!("# Experimental!\n{wrap} {}\n", lits.join(" "));
                let Ok(asm) = compile(&src, uiua::PreEvalMode::Lazy) else { continue };
                let mut ex = Export::new();
                let root = ex.node(&asm.root);
                let funs: Vec<String> = asm.functions.iter().map(|f| ex.node(f)).collect();
                let mut env = uiua::Uiua::with_safe_sys().with_execution_limit(std::time::Duration::from_secs(2));
                let res = catch(|| env.run_asm(asm.clone()).map_err(|e| e.to_string()));
                let (code, stack, under) = match res {
                    Ok(Ok(())) => {
                        let d = uiua::verif::depths(&env);
                        let st = env.take_stack();
                        match ints_of(&st) {
                            Some(mut v) => {
                                v.reverse();
                                (0, v, d[1])
                            }
                            None => continue,
                        }
                    }
                    Ok(Err(_)) => (1, vec![], 0),
                    Err(p) => {
                        println!("{{\"panic\":{},\"src\":{}}}", jstr(&p), jstr(&src));
                        continue;
                    }
                };
                println!(
                    "{{\"src\":{},\"root\":{},\"funs\":{},\"code\":{code},\"stack\":{:?},\"under\":{under},\"opaque\":{}}}",
                    jstr(&src), jstr(&root), jstr(&format!("[{}]", funs.join(";"))), stack, ex.opaque
                );
                emitted += 1;
            }
        }
        "search" => {
            let sentinels: Vec<uiua::Value> = (0..3).map(|i| boxes(&[], vec![uiua::Value::from(format!("sentinel-{i}"))])).collect();
            let mut cases = 0usize;
            let mut fs = 0usize;
            let mut handler_ran = 0usize;
            let mut tries = 0usize;
            while fs < n && tries < n * 40 {
                tries += 1;
                g.fns.clear();
                let mut prelude = String::new();
                if r.chance(1, 3) {
                    let bl = 1 + r.below(3);
                    let b = g.body(&mut r, 1, bl);
                    prelude.push_str(&format!("Fa ← {b}\n"));
                    g.fns.push(b);
                }
                let k = 1 + r.below(5);
                let its = items(&mut g, &mut r, k);
                let plain = render(&its, None);
                if plain.contains('⍩') || prelude.contains('⍩') {
                    // errors raised through `case` deliberately pass through a plain try
                    continue;
                }
                let Some((fa, fo, _)) = sig_of(&plain, &prelude) else { continue };
                // a handler with the same signature
                let mut h = None;
                for _ in 0..40 {
                    let hl = 1 + r.below(4);
                    let cand = g.body(&mut r, 2, hl);
                    if let Some((ha, ho, asm_h)) = sig_of(&cand, &prelude) {
                        if ha == fa && ho == fo {
                            h = Some((cand, asm_h));
                            break;
                        }
                    }
                }
                let Some((h, asm_h)) = h else { continue };
                fs += 1;
                let args: Vec<i64> = (0..fa + 1).map(|_| r.range(0, 3)).collect();
                let want0 = run_main(&asm_h, &sentinels, &args);
                // the handler alone in the same fill context as the try of context 1 (a handler may be
                // fill-sensitive, e.g. a reduce that takes the fill value as its initial accumulator)
                let want_fill = sig_of(&format!("⬚7({h})"), &prelude)
                    .filter(|(a, o, _)| *a == fa && *o == fo)
                    .map(|(_, _, asm_f)| run_main(&asm_f, &sentinels, &args));
                // two handlers: the first function takes fewer arguments than the try as a whole, the middle
                // handler takes all of them plus the error and fails, the last one takes the error too:
                // the whole must behave like the last handler alone on the same arguments
                let want_two = sig_of(&format!("{h} ◌"), &prelude)
                    .filter(|(a, o, _)| *a == fa + 1 && *o == fo)
                    .map(|(_, _, asm_f)| run_main(&asm_f, &sentinels, &args));
                for j in 0..=k {
                    let fj = render(&its, Some(j));
                    for ctx in 0..8 {
                        let body = match ctx {
                            0 => format!("⍣({fj})({h})"),
                            1 => format!("⬚7(⍣({fj})({h}))"),
                            2 => format!("⍣(⊙∘ {fj})({h})"),
                            3 => format!("⍣(⍣({fj})(⍤\"again\"0 {h}))({h})"),
                            // the failure escapes from INSIDE a fill / a nested fill before it is caught
                            4 => format!("⍣(⬚7({fj}))({h})"),
                            5 => format!("⍣(⬚7(⊙∘ ⬚8({fj})))({h})"),
                            // (the error value lies BENEATH the arguments: it is popped under the one output)
                            6 => {
                                if fo != 1 {
                                    continue;
                                }
                                format!("⍣({fj}|⍤\"mid\"0 ⊙◌ {h} ◌|⊙◌ {h} ◌)")
                            }
                            // the middle handler has NO outputs and takes all the arguments: it is given the
                            // error value beneath them (not as an argument) and fails; the last handler has
                            // as many outputs as the try and does not ask for the error: the value given to
                            // the middle handler must be gone when it runs (repair 5e30998)
                            _ => {
                                if fo != 1 {
                                    continue;
                                }
                                // (the failure is not syntactically certain, or the compiler would widen the
                                // handler's signature to the try's outputs: compile/mod.rs try_, is_noreturn)
                                if fa == 0 {
                                    continue;
                                }
                                format!("⍣({fj}|⍤\"mid\" >∞ {}|{h})", "◌".repeat(fa - 1))
                            }
                        };
                        let Some((ta, to, asm_t)) = sig_of(&body, &prelude) else { continue };
                        if ta != fa + (ctx == 6) as usize || to != fo {
                            continue;
                        }
                        let want = if ctx == 1 {
                            let Some(w) = &want_fill else { continue };
                            w
                        } else if ctx == 6 {
                            let Some(w) = &want_two else { continue };
                            w
                        } else {
                            &want0
                        };
                        cases += 1;
                        let got = run_main(&asm_t, &sentinels, &args);
                        let same = match (&got, want) {
                            (Ok((a, da)), Ok((b, db))) => {
                                handler_ran += 1;
                                same_vals(a, b) && da == db
                            }
                            (Err(a), Err(b)) => !a.starts_with("FRAME-MONITOR") && !b.starts_with("FRAME-MONITOR") && !a.starts_with("PANIC") && !b.starts_with("PANIC"),
                            _ => false,
                        };
                        if !same {
                            println!(
                                "{{\"violation\":\"try-not-handler\",\"prelude\":{},\"try\":{},\"handler\":{},\"inject_after\":{j},\"args\":{:?},\"got\":{},\"want\":{}}}",
                                jstr(&prelude), jstr(&body), jstr(&h), args,
                                jstr(&format!("{:?}", got.as_ref().map(|(s, d)| (s.iter().map(|v| format!("{v:?}")).collect::<Vec<_>>(), *d)))),
                                jstr(&format!("{:?}", want.as_ref().map(|(s, d)| (s.iter().map(|v| format!("{v:?}")).collect::<Vec<_>>(), *d))))
                            );
                        }
                    }
                }
            }
            // REPL-style sessions: a failing line must not disturb later lines
            let mut sessions = 0usize;
            for _ in 0..(n / 4).max(10) {
                g.fns.clear();
                let good1 = format!("{} 1 2 3 1 2", g.body(&mut r, 2, 2));
                let bad = format!("⍤\"boom\"0 {} 1 2 3 1 2", g.body(&mut r, 2, 2));
                let good2 = format!("{} 3 2 1 2 1", g.body(&mut r, 2, 3));
                let run_seq = |lines: &[&str]| -> Option<(Vec<String>, [usize; 8])> {
                    let mut env = uiua::Uiua::with_safe_sys().with_execution_limit(std::time::Duration::from_secs(2));
                    let mut comp = uiua::Compiler::new();
                    comp.pre_eval_mode(uiua::PreEvalMode::Lazy);
                    let mut last = None;
                    for l in lines {
                        let mut c2 = comp.clone();
                        let ok = catch(|| c2.load_str(&format!("# Experimental!\n{l}\n")).is_ok()).unwrap_or(false);
                        if !ok {
                            return None;
                        }
                        let res = catch(|| env.run_compiler(&mut c2).is_ok()).unwrap_or(false);
                        if res {
                            comp = c2;
                        }
                        let d = uiua::verif::depths(&env);
                        let st: Vec<String> = env.take_stack().iter().map(|v| format!("{v:?}")).collect();
                        last = Some((st, d));
                    }
                    last
                };
                let a = run_seq(&[&good1, &bad, &good2]);
                let b = run_seq(&[&good1, &good2]);
                if let (Some(a), Some(b)) = (a, b) {
                    sessions += 1;
                    if a != b {
                        println!(
                            "{{\"violation\":\"session-disturbed\",\"lines\":{},\"got\":{},\"want\":{}}}",
                            jstr(&format!("{good1} / {bad} / {good2}")), jstr(&format!("{a:?}")), jstr(&format!("{b:?}"))
                        );
                    }
                }
            }
            println!("{{\"summary\":true,\"functions\":{fs},\"cases\":{cases},\"handler_ran\":{handler_ran},\"sessions\":{sessions}}}");
        }
        _ => eprintln!("usage: c11 exec|search N"),
    }
}
