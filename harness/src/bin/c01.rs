//! C01: compile-time rewriting never changes what a program computes.
//!   c01 vtie N     -> JSON lines {n, o, full, src}: raw trees (compiled with every rewrite off) and
//!                     what the real optimiser makes of them (verif::optimize_node)
//!   c01 pushtie N  -> JSON lines {ns, o}: a raw run and what Node::from_iter (Node::push) builds from it
//!   c01 search N   -> three-configuration differential on the real interpreter
//!   c01 one SRC    -> the three configurations on one program (debugging / confirmation)
use std::collections::{BTreeMap, BTreeSet};
use std::fmt::Write as _;

use uiua::{ImplPrimitive, Node, PreEvalMode, Primitive, SigNode, Value};
use uvh::*;

// ---------------------------------------------------------------- ids (coq/Model/Opt.v)

/// ids of primitives: the spine's 1..20 (uvh::prim_id), fixed ids for the primitives named in
/// the optimiser's rules and in Node::push, 1000+index for the others
fn pid(p: Primitive) -> u64 {
    use Primitive::*;
    match p {
        First => 31,
        Last => 32,
        Reverse => 33,
        Rise => 34,
        Fall => 35,
        Where => 36,
        Len => 37,
        Range => 38,
        MemberOf => 39,
        Rerank => 40,
        Deduplicate => 41,
        Select => 42,
        Sort => 43,
        Rand => 44,
        Pow => 45,
        Complex => 46,
        Transpose => 47,
        Rotate => 48,
        Match => 49,
        Type => 50,
        Mask => 51,
        Box => 53,
        Fix => 54,
        Shape => 55,
        Deshape => 56,
        Classify => 57,
        Take => 58,
        Join => 59,
        Reciprocal => 60,
        p => prim_id(p),
    }
}

fn str_id(s: &str) -> u64 {
    let mut h: u64 = 0xcbf29ce484222325;
    for b in s.bytes() {
        h ^= b as u64;
        h = h.wrapping_mul(0x100000001b3);
    }
    100000 + (h >> 24)
}

fn ipid(p: &ImplPrimitive) -> u64 {
    use ImplPrimitive::*;
    match p {
        Primes => 52,
        PseudoIsPrime => 101,
        FirstMinIndex => 102,
        LastMinIndex => 103,
        FirstMaxIndex => 104,
        LastMaxIndex => 105,
        FirstWhere => 106,
        LastWhere => 107,
        LenWhere => 108,
        MemberOfRange => 109,
        MultidimMemberOfRange => 110,
        RandomRow => 111,
        CountUnique => 112,
        SortDown => 113,
        FirstSort => 114,
        LastSort => 115,
        ReplaceRand => 116,
        ReplaceRand2 => 117,
        AbsComplex => 118,
        SquareAbs => 119,
        NegAbs => 120,
        UnSort => 121,
        AllSame => 123,
        OneUnique => 124,
        SortedUp => 125,
        MatchPattern => 126,
        ValidateTypeOld => 127,
        ValidateTypeConsume => 128,
        UnBox => 129,
        DeshapeSub(n) if (0..50).contains(n) => 150 + *n as u64,
        // 2^50 + 2^31 + n: an id range of its own, above every other id
        TransposeN(n) => (1125902054326272i64 + *n as i64) as u64,
        p => str_id(&format!("{p:?}")),
    }
}

/// modifiers the optimiser's rules name but the spine's modk has no constructor for
fn special_mod(p: &Primitive) -> Option<u64> {
    match p {
        Primitive::Path => Some(900),
        _ => None,
    }
}
fn special_implmod(p: &ImplPrimitive) -> Option<u64> {
    use ImplPrimitive::*;
    Some(match p {
        ReduceTable => 901,
        PathFirst => 902,
        PathSignLen => 903,
        PathTake => 904,
        PathPop => 905,
        Astar => 906,
        AstarFirst => 907,
        AstarSignLen => 908,
        AstarTake => 909,
        AstarPop => 910,
        SplitByScalar => 911,
        SplitBy => 912,
        ReduceConjoinInventory => 913,
        _ => return None,
    })
}

struct Ex {
    inner: Export,
}

impl Ex {
    fn new() -> Self {
        Ex { inner: Export::new() }
    }
    fn sval(&mut self, v: &Value) -> String {
        if *v == uiua::Complex::I {
            return "(SOpq 7)".into();
        }
        self.inner.sval(v)
    }
    fn ops(&mut self, ops: &[SigNode]) -> String {
        let mut s = String::from("[");
        for (i, sn) in ops.iter().enumerate() {
            if i > 0 {
                s.push(';');
            }
            write!(s, "({},{})", coq_sig(sn.sig), self.node(&sn.node)).unwrap();
        }
        s.push(']');
        s
    }
    fn node(&mut self, n: &Node) -> String {
        match n {
            Node::Push(v) => format!("(Push {})", self.sval(v)),
            Node::Prim(p, _) => match (p.args(), p.outputs()) {
                (Some(a), Some(o)) => format!("(Prim {} {a} {o})", pid(*p)),
                _ => format!("(PrimIndet {})", pid(*p)),
            },
            Node::ImplPrim(p, _) => match (p.args(), p.outputs()) {
                (Some(a), Some(o)) => format!("(Prim {} {a} {o})", ipid(p)),
                _ => format!("(PrimIndet {})", ipid(p)),
            },
            Node::Run(ns) => {
                let mut s = String::from("(Run [");
                for (i, x) in ns.iter().enumerate() {
                    if i > 0 {
                        s.push(';');
                    }
                    s.push_str(&self.node(x));
                }
                s.push_str("])");
                s
            }
            Node::Mod(p, args, _) => {
                let m = match special_mod(p) {
                    Some(id) => format!("(MOther {id} None)"),
                    None => self.inner.modk(p),
                };
                format!("(Mod {m} {})", self.ops(args))
            }
            Node::ImplMod(p, args, _) => {
                let m = match special_implmod(p) {
                    Some(id) => format!("(MOther {id} None)"),
                    None => self.inner.implmodk(p),
                };
                format!("(Mod {m} {})", self.ops(args))
            }
            Node::Array { len, inner, boxed, .. } => format!("(Arr {len} {} {})", self.node(inner), boxed),
            Node::Switch { branches, sig, under_cond, .. } => {
                format!("(Switch {} {} {under_cond})", self.ops(branches), coq_sig(*sig))
            }
            Node::NoInline(inner) => format!("(NoInline {})", self.node(inner)),
            Node::TrackCaller(inner) => format!("(TrackCaller {} {})", coq_sig(inner.sig), self.node(&inner.node)),
            Node::CustomInverse(cust, _) => {
                let s = match cust.sig() {
                    Ok(s) => format!("(Some {})", coq_sig(s)),
                    Err(_) => "None".into(),
                };
                match &cust.normal {
                    Ok(sn) => format!("(CustomInv {s} true {} {})", coq_sig(sn.sig), self.node(&sn.node)),
                    Err(_) => format!("(CustomInv {s} false (Sig 0 0 0 0) (Run []))"),
                }
            }
            // leaves: same as the shared exporter
            other => self.inner.node(other),
        }
    }
}

// ---------------------------------------------------------------- running the three configurations

#[derive(Clone)]
struct Outcome {
    ok: bool,
    stack: Vec<Value>,
    err: String,
    out: Vec<u8>,
}

/// cfg 0: every rewrite off (hook + Lazy); 1: optimiser only (Lazy); 2: optimiser + pre-evaluation (Normal)
fn run_cfg(src: &str, args: &[Value], cfg: usize, limit_ms: u64) -> Outcome {
    uiua::verif::set_rewrites(cfg != 0);
    let mode = if cfg == 2 { PreEvalMode::Normal } else { PreEvalMode::Lazy };
    let asm = compile(src, mode);
    uiua::verif::set_rewrites(true);
    let asm = match asm {
        Ok(a) => a,
        Err(e) => return Outcome { ok: false, stack: vec![], err: format!("compile: {e}"), out: vec![] },
    };
    let mut env = uiua::Uiua::with_safe_sys().with_execution_limit(std::time::Duration::from_millis(limit_ms));
    for a in args {
        env.push(a.clone());
    }
    let r = catch(|| env.run_asm(asm).map_err(|e| e.to_string()));
    let out = env.downcast_backend::<uiua::SafeSys>().map(|s| s.take_stdout()).unwrap_or_default();
    match r {
        Ok(Ok(())) => Outcome { ok: true, stack: env.take_stack(), err: String::new(), out },
        Ok(Err(e)) => Outcome { ok: false, stack: vec![], err: e, out },
        Err(p) => Outcome { ok: false, stack: vec![], err: format!("PANIC: {p}"), out },
    }
}

/// a rank-1 character array that reads like an error message: "<line>:<col>: text"
fn is_error_text(v: &Value) -> bool {
    let Value::Char(a) = v else { return false };
    if a.rank() != 1 {
        return false;
    }
    let t: String = a.elements().take(12).collect();
    let mut it = t.splitn(3, ':');
    match (it.next(), it.next(), it.next()) {
        (Some(l), Some(c), Some(rest)) => {
            !l.is_empty() && !c.is_empty() && l.chars().all(|ch| ch.is_ascii_digit()) && c.chars().all(|ch| ch.is_ascii_digit()) && rest.starts_with(' ')
        }
        _ => false,
    }
}

fn kind(v: &Value) -> &'static str {
    match v {
        Value::Num(_) | Value::Byte(_) => "number",
        v => v.type_name(),
    }
}

/// None = same; Some(what) = first difference
fn diff(a: &Outcome, b: &Outcome) -> Option<String> {
    if !b.ok {
        return Some(format!("fails: {}", b.err.lines().next().unwrap_or("")));
    }
    if a.stack.len() != b.stack.len() {
        return Some(format!("stack height {} vs {}", a.stack.len(), b.stack.len()));
    }
    for (i, (x, y)) in a.stack.iter().zip(&b.stack).enumerate() {
        if is_error_text(x) && is_error_text(y) {
            continue;
        }
        if x.shape != y.shape {
            return Some(format!("shape of value {i}: {:?} vs {:?}", x.shape, y.shape));
        }
        if kind(x) != kind(y) {
            return Some(format!("type of value {i}: {} vs {}", kind(x), kind(y)));
        }
        if x != y {
            // an error caught by `try` and pushed as a value: its text starts with the span of the
            // failing primitive ("line:col: "), which legitimately differs between a fused primitive
            // and the sequence it replaces, as may the wording; two caught errors count as equal
            if is_error_text(x) && is_error_text(y) {
                continue;
            }
            return Some(format!("value {i} differs"));
        }
    }
    if a.out != b.out {
        return Some("written output differs".into());
    }
    None
}

fn show_stack(o: &Outcome) -> String {
    if !o.ok {
        return format!("error: {}", o.err.lines().next().unwrap_or(""));
    }
    let mut s = String::new();
    for v in &o.stack {
        let t = v.show();
        let t: String = t.chars().take(120).collect();
        write!(s, "[{} {:?}] {} ; ", kind(v), v.shape, t.replace('\n', "⏎")).unwrap();
    }
    s
}

// ---------------------------------------------------------------- generators

/// (name, source of the left-hand side, number of arguments it takes)
const RULES: &[(&str, &str, usize)] = &[
    ("pseudo-is-prime", "=⊣°/×.", 1),
    ("reverse-first", "⊢⇌", 1),
    ("reverse-last", "⊣⇌", 1),
    ("first-rise", "⊢⍏", 1),
    ("last-fall", "⊣⍖", 1),
    ("first-fall", "⊢⍖", 1),
    ("last-rise", "⊣⍏", 1),
    ("first-where", "⊢⊚", 1),
    ("last-where", "⊣⊚", 1),
    ("len-where", "⧻⊚", 1),
    ("memberof-range", "∊⇡", 2),
    ("memberof-range-rerank", "∊☇1⇡", 2),
    ("memberof-range-deshape", "∊♭₂⇡", 2),
    ("count-unique", "⧻◴", 1),
    ("sort-up", "⊏⍏.", 1),
    ("sort-down", "⊏⍖.", 1),
    ("sort-reverse", "⇌⍆", 1),
    ("sortdown-reverse", "⇌⇌⍆", 1),
    ("sortdown-reverse2", "⇌⊏⍖.", 1),
    ("first-sort", "⊢⍆", 1),
    ("last-sort", "⊣⍆", 1),
    ("pow-neg1", "ⁿ¯1", 1),
    ("pow2", "ⁿ2", 1),
    ("pow3", "ⁿ3", 1),
    ("pow4", "ⁿ4", 1),
    ("abs-complex", "⌵ℂ", 2),
    ("square-abs", "×.⌵", 1),
    ("neg-abs", "¯⌵", 1),
    ("complex-i", "+×i", 2),
    ("by-to-dup", "⊸⧻", 1),
    ("by-to-dup-2", "⊸⊂", 2),
    ("by-to-dup-3", "⊸(+1)", 1),
    ("by-to-dup-4", "⊸≍ ⇌.", 1),
    ("by-to-dup-5", "⊸+ 1", 1),
    ("rows-flip", "≡(⊂:)", 2),
    ("rows-flip-2", "≡˜⊂", 2),
    ("custom-inverse", "⌅(+1|-1)", 1),
    ("transpose2", "⍉⍉", 1),
    ("transpose3", "⍉⍉⍉", 1),
    ("transpose4", "⍉⍉⍉⍉", 1),
    ("transpose-un", "⍉°⍉", 1),
    ("reduce-table", "/+⊞×", 2),
    ("reduce-table-2", "/↥⊞-", 2),
    ("reduce-depth", "≡/+", 1),
    ("reduce-depth-max", "≡/↥", 1),
    ("reduce-depth-min", "≡/↧", 1),
    ("reduce-depth-2", "≡≡/+", 1),
    ("reduce-depth-join", "≡/⊂", 1),
    ("reduce-content", "/◇⊂", 1),
    ("reduce-content-2", "/◇+", 1),
    ("conjoin-inventory", "/◇⊂⍚⇌", 1),
    ("conjoin-inventory-2", "/◇⊂⍚(⊂0)", 1),
    ("split-by-scalar", "⊜□⊸≠", 2),
    ("split-by-mask", "⊜□¬⊸⦷", 2),
    ("split-by-scalar-lit", "⊜□≠@ .", 1),
    ("split-by-scalar-lit-2", "⊜⧻≠0.", 1),
    ("split-by-mask-lit", "⊜□¬⦷\"ab\".", 1),
    ("all-same-rot", "≍↻1.", 1),
    ("all-same-rot-neg", "≍↻¯1.", 1),
    ("all-same-by", "≍⊸(↻1)", 1),
    ("all-same-on", "≍⟜(↻1)", 1),
    ("all-same-le", "≤1⧻◴", 1),
    ("one-unique-eq", "=1⧻◴", 1),
    ("one-unique-ne", "≠1⧻◴", 1),
    ("all-same-stencil", "/×⧈≍", 1),
    ("sorted-up-by", "≍⊸⍆", 1),
    ("sorted-up-on", "≍⟜⍆", 1),
    ("pop-const", "◌5", 0),
    ("pop-const-2", "◌[1 2 3]", 0),
    ("validate-type", "°0type.", 1),
    ("validate-type-consume", "°0type", 1),
    ("validate-type-2", "°1type.", 1),
    ("push-box", "□", 1),
    ("push-fix", "¤", 1),
    ("push-len", "⧻", 1),
    ("push-shape", "△", 1),
    ("push-reverse", "⇌", 1),
    ("push-transpose", "⍉", 1),
    ("push-deshape", "♭", 1),
    ("push-sort", "⍆", 1),
    ("push-classify", "⊛", 1),
    ("push-label", "$Lab", 1),
    ("path-first", "⊢path(+1|≥3)", 1),
    ("path-pop", "◌path(+1|≥3)", 1),
];

const PRE: &[&str] = &["", "", "", "⇌", "♭", "⊂0", "↙2", "↘1", "⍉", "¤", "⊂.", "▽2", "⍆", "¯", "□", "↯0", "⊟.", "÷2", "ℂ0"];
const POST: &[&str] = &["", "", "", "⧻", "□", "+1", "⊂.", "△", "♭", "⇌", "≍.", "¤", "type", "⊢", "×2", "⍆", "◴", "¬"];

fn gen_int_list(r: &mut Rng, n: usize) -> String {
    (0..n).map(|_| {
        let x = r.range(-2, 5);
        if x < 0 { format!("¯{}", -x) } else { format!("{x}") }
    }).collect::<Vec<_>>().join(" ")
}

/// a literal (or pure constant expression) as source text
fn gen_lit(r: &mut Rng) -> String {
    match r.below(26) {
        0 => format!("{}", r.range(0, 9)),
        1 => format!("¯{}", r.range(1, 4)),
        2 => (*r.pick(&["0.5", "¯2.5", "1e300", "∞", "¯∞", "NaN", "0.1", "1.1", "3.3", "π"])).to_string(),
        3 | 4 | 5 => {
            let n = r.below(6);
            format!("[{}]", gen_int_list(r, n))
        }
        6 => "[]".into(),
        7 => {
            let (a, b) = (1 + r.below(3), 1 + r.below(3));
            let rows: Vec<String> = (0..a).map(|_| format!("[{}]", gen_int_list(r, b))).collect();
            format!("[{}]", rows.join(" "))
        }
        8 => (*r.pick(&["↯0_3 0", "↯3_0 0", "↯2_0_2 0", "↯0_0 0", "↯0_2 @a", "↯0 □0"])).to_string(),
        9 | 10 => (*r.pick(&["\"abc\"", "\"ab ab  c\"", "\"\"", "\"aab\"", "\"b a\"", "@a", "@ ", "\"hello world\""])).to_string(),
        11 => (*r.pick(&["{1 \"ab\" [1 2]}", "{}", "{\"b\" \"a\" \"b\"}", "□[1 2]", "{[1 2] [3] []}", "{1 2 3}", "□□1", "{{1} {2 3}}"])).to_string(),
        12 => (*r.pick(&["ℂ1 2", "[ℂ0 1 ℂ1 0]", "ℂ0 0", "i", "[i ¯i 1]"])).to_string(),
        13 => (*r.pick(&["↯2_2_2⇡8", "↯2_3_2⇡12", "↯1_2_3⇡6", "↯3_1_1⇡3", "↯2_2_2 1"])).to_string(),
        14 => (*r.pick(&["=0[1 0 1]", "[1 0 1 1]", "[0 0 0]", "[1 1 1]", "=1[1]", "⇡5", "⇡0", "⇌⇡4", "[1 1]"])).to_string(),
        15 => {
            let n = 1 + r.below(5);
            let xs: Vec<String> = (0..n).map(|_| (*r.pick(&["0.5", "1.5", "¯0.5", "2", "0.1", "NaN", "∞", "3.7", "1e10", "0.3"])).to_string()).collect();
            format!("[{}]", xs.join(" "))
        }
        16 => (*r.pick(&["[1 2 3]", "[3 2 1]", "[1 1 1]", "[2 2]", "[5]", "[1 3 2 3 1]", "[0 0 1]"])).to_string(),
        17 => (*r.pick(&["[\"ab\" \"cd\"]", "[\"ba\" \"ab\" \"ba\"]", "[@a @b]", "↯2_2_2\"abcdefgh\""])).to_string(),
        18 => (*r.pick(&["[[1 2] [3 4] [1 2]]", "[[3 4] [1 2]]", "[[1 1] [1 1]]", "[[0 1 0] [1 1 0]]", "[[1] [2] [3]]"])).to_string(),
        19 => format!("{}", r.range(10, 300)),
        20 => (*r.pick(&["map [1 2] [3 4]", "[1_2 3_4]", "°△ 2_3", "⊞+ ⇡3 ⇡3", "⊞= ⇡3 ⇡3"])).to_string(),
        _ => {
            let n = 2 + r.below(4);
            format!("[{}]", gen_int_list(r, n))
        }
    }
}

/// a snippet with random code before / after it and possibly inside an operand
fn embed(r: &mut Rng, snippet: &str, nargs: usize, depth: usize) -> (String, usize) {
    let pre = *r.pick(PRE);
    let post = *r.pick(POST);
    let core = format!("{post}{snippet}{pre}");
    if depth == 0 || r.chance(1, 2) {
        return (core, nargs);
    }
    let (inner, k) = embed(r, snippet, nargs, depth - 1);
    match r.below(12) {
        0 if k == 1 => (format!("≡({inner})"), 1),
        1 if k == 1 => (format!("⍚({inner})"), 1),
        2 => (format!("⊙({inner})"), k + 1),
        3 if k >= 1 => (format!("∩({inner})"), 2 * k),
        4 if k == 1 => (format!("⊃({inner})({post})"), 1),
        5 if k >= 1 => (format!("⍣({inner})0"), k),
        6 if k >= 1 => (format!("⨬({inner}|{inner})1"), k),
        7 => (format!("⍥({inner})1"), k),
        8 if k == 1 => (format!("⟜({inner})"), 1),
        9 if k == 1 => (format!("⊸({inner})"), 1),
        10 => (format!("({inner})"), k),
        _ => (format!("{post}{inner}"), k),
    }
}

struct Prog {
    rule: &'static str,
    src: String,
    nargs: usize,
    lits: Vec<String>,
}

fn gen_prog(r: &mut Rng) -> Prog {
    let (rule, snip, nargs) = *r.pick(RULES);
    let (body, k) = embed(r, snip, nargs, 3);
    let as_fn = r.chance(1, 3);
    let with_lits = r.chance(3, 5);
    let lits: Vec<String> = (0..k).map(|_| gen_lit(r)).collect();
    let mut src = String::from("# Experimental!\n");
    let call = if as_fn {
        writeln!(src, "F ← {body}").unwrap();
        "F".to_string()
    } else {
        body.clone()
    };
    if with_lits {
        match r.below(3) {
            0 => writeln!(src, "{call} {}", lits.join(" ")).unwrap(),
            1 => {
                // arguments on their own lines (pushed by earlier lines)
                for l in lits.iter().rev() {
                    writeln!(src, "{l}").unwrap();
                }
                writeln!(src, "{call}").unwrap();
            }
            _ => {
                // arguments bound to constants
                let mut names = Vec::new();
                for (i, l) in lits.iter().enumerate() {
                    let nm = format!("X{}", (b'a' + i as u8) as char);
                    writeln!(src, "{nm} ← {l}").unwrap();
                    names.push(nm);
                }
                writeln!(src, "{call} {}", names.join(" ")).unwrap();
            }
        }
        Prog { rule, src, nargs: 0, lits }
    } else {
        writeln!(src, "{call}").unwrap();
        Prog { rule, src, nargs: k, lits: vec![] }
    }
}

fn corpus_files() -> Vec<(String, String)> {
    let mut out = Vec::new();
    for dir in ["/repo/tests"] {
        let Ok(rd) = std::fs::read_dir(dir) else { continue };
        let mut files: Vec<_> = rd.filter_map(|e| e.ok()).map(|e| e.path()).collect();
        files.sort();
        for f in files {
            if f.extension().and_then(|e| e.to_str()) != Some("ua") {
                continue;
            }
            if let Ok(text) = std::fs::read_to_string(&f) {
                out.push((f.display().to_string(), text));
            }
        }
    }
    out
}

fn has_empty(vs: &[Value]) -> bool {
    vs.iter().any(|v| v.shape.elements() == 0)
}

// ---------------------------------------------------------------- tie exports

fn collect_runs(n: &Node, acc: &mut Vec<Vec<Node>>) {
    fn ops(args: &[SigNode], acc: &mut Vec<Vec<Node>>) {
        for sn in args {
            collect_runs(&sn.node, acc);
        }
    }
    match n {
        Node::Run(ns) => {
            acc.push(ns.iter().cloned().collect());
            ns.iter().for_each(|x| collect_runs(x, acc))
        }
        Node::Mod(_, args, _) | Node::ImplMod(_, args, _) => ops(args, acc),
        Node::Switch { branches, .. } => ops(branches, acc),
        Node::Array { inner, .. } => collect_runs(inner, acc),
        Node::NoInline(inner) => collect_runs(inner, acc),
        Node::TrackCaller(inner) => collect_runs(&inner.node, acc),
        Node::CustomInverse(cust, _) => {
            if let Ok(sn) = &cust.normal {
                collect_runs(&sn.node, acc);
            }
        }
        _ => {}
    }
}

/// the model does not cover these (documented): path with a fill after it
fn outside_model(src: &str) -> bool {
    src.contains("path") && src.contains('⬚')
}

fn tie_sources(r: &mut Rng, n: usize) -> Vec<String> {
    let mut srcs: Vec<String> = Vec::new();
    // every rule's left-hand side bare, then in contexts
    for (_, snip, _) in RULES {
        srcs.push(format!("# Experimental!\nF ← {snip}\n"));
        srcs.push(format!("# Experimental!\nF ← ≡(⊙({snip}))\n"));
        srcs.push(format!("# Experimental!\nF ← ⍣(⊃({snip})({snip}))0\n"));
    }
    // hand-written corner cases of the driver and of the struct rules
    for s in [
        "F ← ⍉⍉⍉⍉⍉", "F ← ⊸⊂ 1 2", "F ← ⊸+ .", "F ← ⊸+ +1", "F ← ⊸(⊂⊂) 1", "F ← ⊸(◌5) ⧻", "F ← ⊸(5◌) ⧻",
        "F ← ≡(≡/+)", "F ← ≡(≡(≡/↥))", "F ← ≍⊸⍆ ⇌", "F ← ≤1⧻◴⇌", "F ← ≠1⧻◴", "F ← /+⊞(×+1)", "F ← /(+×2)⊞×",
        "F ← ◌5 ◌6", "F ← ⊢⇌⇌⇌", "F ← ⊏⍏.⊏⍖.", "F ← ⇌⇌⇌⍆", "F ← ⊢⊏⍏.", "F ← ⊣⇌⊏⍖.", "F ← ×.⌵¯⌵", "F ← ⁿ2ⁿ3ⁿ4ⁿ¯1",
        "F ← ⍜⊢(+1)", "F ← ⍜(⊢⇌)(+1)", "F ← ⌅(⊢⇌|⊣)", "F ← ⨬(⊢⇌|⊣⇌)", "F ← [⊢⇌ ⊣⇌]", "F ← {⊢⍏ ⊣⍖}", "F ← ⊢⇌ [1 2 3]",
        "F ← ⧻[1 2 3]", "F ← ⧻◴[1 2 2]", "F ← $Lab 5", "F ← □5 ¤6", "F ← ♭⍉⇌[1_2 3_4]", "F ← ⊛⍆[3 1 2]", "F ← ≡(⊂:) 1",
        "F ← ≡(⊂: 1)", "F ← ≡(-:+1)", "F ← /◇(⊂⇌)", "F ← /◇⊂⍚(⊂1)", "F ← /◇⊂⍚⊃⇌⊢", "F ← ⊜□⊸≠@a", "F ← ⊜(□⊂)⊸≠", "F ← ⊜⊂≠0.",
    ] {
        srcs.push(format!("# Experimental!\n{s}\n"));
        srcs.push(format!("# Experimental!\n{}\n", s.replacen("F ← ", "", 1)));
    }
    while srcs.len() < n {
        let p = gen_prog(r);
        srcs.push(p.src);
    }
    srcs.retain(|s| !outside_model(s));
    srcs
}

fn raw_trees(src: &str) -> Vec<Node> {
    uiua::verif::set_rewrites(false);
    let asm = compile(src, PreEvalMode::Lazy);
    uiua::verif::set_rewrites(true);
    let Ok(asm) = asm else { return vec![] };
    let mut v = vec![asm.root.clone()];
    v.extend(asm.functions.iter().cloned());
    v
}

// ---------------------------------------------------------------- directed family: sortedness marks x tied extremes

/// rewrite rules whose fused implementation has, or could plausibly get, a shortcut on the
/// sortedness marks of its argument: (rule name, left-hand side taking one argument)
const MARK_RULES: &[(&str, &str)] = &[
    ("first-rise", "⊢⍏"),
    ("last-rise", "⊣⍏"),
    ("first-fall", "⊢⍖"),
    ("last-fall", "⊣⍖"),
    ("first-sort", "⊢⍆"),
    ("last-sort", "⊣⍆"),
    ("sort-up", "⊏⍏."),
    ("sort-down", "⊏⍖."),
    ("sort-reverse", "⇌⍆"),
    ("sortdown-reverse", "⇌⇌⍆"),
    ("reverse-first", "⊢⇌"),
    ("reverse-last", "⊣⇌"),
    ("count-unique", "⧻◴"),
    ("first-where", "⊢⊚"),
    ("last-where", "⊣⊚"),
    ("len-where", "⧻⊚"),
    ("all-same-rot", "≍↻1."),
    ("all-same-by", "≍⊸(↻1)"),
    ("all-same-le", "≤1⧻◴"),
    ("one-unique-eq", "=1⧻◴"),
    ("one-unique-ne", "≠1⧻◴"),
    ("all-same-stencil", "/×⧈≍"),
    ("sorted-up-by", "≍⊸⍆"),
    ("sorted-up-on", "≍⟜⍆"),
    ("reduce-depth-max", "≡/↥"),
    ("reduce-depth-min", "≡/↧"),
    ("reduce-depth", "≡/+"),
    ("pseudo-is-prime", "=⊣°/×."),
    ("neg-abs", "¯⌵"),
    ("square-abs", "×.⌵"),
    ("pow2", "ⁿ2"),
    ("pow-neg1", "ⁿ¯1"),
    ("transpose2", "⍉⍉"),
];
/// how the argument gets its marks: run-time producers (the mark is really set) and nothing
/// (a literal constant with ordered rows gets derived marks)
const MARKERS: &[&str] = &["", "⍆", "⇌⍆", "⊏⊸⍏", "⊏⊸⍖", "⇌", "⍆⇌", "¯⍆"];
/// arrays with ties at the extremes (repeated maximum / minimum), rank 1 and rank 2, some
/// written in order (derived marks), some not
const TIED: &[&str] = &[
    "[3 1 3 2]", "[1 1 2 3]", "[1 2 3 3]", "[3 3 2 1]", "[3 2 1 1]", "[2 2]", "[1 1 1]", "[0 0 1 1]", "[1 1 0 0]",
    "[1 3 1 3]", "[0 1 1]", "[2 0 2]", "[1 0 1 0]", "[5]", "[1.5 0.5 1.5 0.5]", "[¯1 ¯1 0 2 2]",
    "\"abba\"", "\"aabb\"", "\"bbaa\"", "\"zz\"",
    "[[1 2] [3 4] [3 4] [0 0]]", "[[3 4] [1 2] [3 4]]", "[[1 1] [1 1]]", "[[0 1] [0 1] [2 2]]",
    "[[1 2] [1 2] [3 4] [3 4]]", "[[3 4] [3 4] [1 2] [1 2]]", "[[0 0] [1 1] [0 0] [1 1]]", "[[2 1] [2 1]]",
    "[\"ab\" \"cd\" \"cd\" \"ab\"]", "[\"ab\" \"ab\" \"cd\" \"cd\"]", "[[1 0 1] [0 1 1]]", "[[1 1 0] [1 1 0] [0 0 0]]",
];

/// arrays without rows (and with rows without elements) of every element type
const ROWLESS: &[&str] = &[
    "[]", "\"\"", "↯0 □0", "↯0 ℂ0 0", "▽0 [1 2 3]", "↯0_2 0", "↯0_2 @a", "↯0_3 □0", "↯0_2 ℂ0 0", "↯2_0 0", "↯2_0 @a", "↯0_0 0",
];

/// every rule's trigger sequence on rowless arrays of every type: bare and under rows
fn rowless_family() -> Vec<(String, String)> {
    let mut out = Vec::new();
    for (rule, snip, nargs) in RULES {
        for r in ROWLESS {
            match nargs {
                1 => {
                    out.push((rule.to_string(), format!("# Experimental!\n{snip} {r}\n")));
                    out.push((rule.to_string(), format!("# Experimental!\n≡({snip}) {r}\n")));
                    out.push((rule.to_string(), format!("# Experimental!\nF ← {snip}\nF {r}\n")));
                }
                2 => {
                    out.push((rule.to_string(), format!("# Experimental!\n{snip} {r} [1 2]\n")));
                    out.push((rule.to_string(), format!("# Experimental!\n{snip} [1 2] {r}\n")));
                    out.push((rule.to_string(), format!("# Experimental!\n{snip} {r} {r}\n")));
                    out.push((rule.to_string(), format!("# Experimental!\n{snip} 2 {r}\n")));
                }
                _ => {}
            }
        }
    }
    out
}

/// the directed family as (rule, source)
fn marked_family() -> Vec<(String, String)> {
    let mut out = Vec::new();
    for (rule, snip) in MARK_RULES {
        for m in MARKERS {
            for lit in TIED {
                // on one line, behind a function, and inside rows (each row is marked at run time)
                out.push((rule.to_string(), format!("# Experimental!\n{snip} {m} {lit}\n")));
                if m.len() > 0 && lit.starts_with("[[") {
                    out.push((rule.to_string(), format!("# Experimental!\n≡({snip} {m}) {lit}\n")));
                }
            }
        }
        // the argument arrives through a function boundary and through a constant binding
        for lit in TIED.iter().step_by(3) {
            out.push((rule.to_string(), format!("# Experimental!\nF ← {snip}\nX ← ⍆ {lit}\nF X\n")));
            out.push((rule.to_string(), format!("# Experimental!\nF ← {snip}\nF ⇌⍆ {lit}\n")));
        }
    }
    out
}

/// a value as a term of Model/Prims.v `arr` (integers and characters of rank >= 1 only)
fn prims_arr(v: &Value) -> Option<String> {
    let sh = format!("[{}]%nat", v.shape.iter().map(|d| d.to_string()).collect::<Vec<_>>().join(";"));
    let nums = |xs: Vec<f64>| -> Option<String> {
        let mut items = Vec::new();
        for x in xs {
            if x.fract() != 0.0 || x.abs() > 1e15 {
                return None;
            }
            items.push(format!("ENum ({})", x as i64));
        }
        Some(format!("(Prims.Arr TNum {sh} [{}]%Z)", items.join(";")))
    };
    match v {
        Value::Num(a) => nums(a.elements().copied().collect()),
        Value::Byte(a) => nums(a.elements().map(|b| *b as f64).collect()),
        Value::Char(a) => Some(format!(
            "(Prims.Arr TChar {sh} [{}])",
            a.elements().map(|c| format!("EChar {}%N", *c as u32)).collect::<Vec<_>>().join(";")
        )),
        _ => None,
    }
}

/// like prims_arr, scalars included
fn prims_arr_any(v: &Value) -> Option<String> {
    prims_arr(v)
}

/// fused implementation primitives that the Coq development gives a semantics to:
/// (id in Proofs/Opt.v prim_sem, source of the left-hand side, name in the optimised tree)
const FUSED: &[(u64, &str, &str)] = &[
    (102, "⊢⍏", "FirstMinIndex"),
    (103, "⊣⍖", "LastMinIndex"),
    (104, "⊢⍖", "FirstMaxIndex"),
    (105, "⊣⍏", "LastMaxIndex"),
    (112, "⧻◴", "CountUnique"),
    (113, "⇌⍆", "SortDown"),
    (114, "⊢⍆", "FirstSort"),
    (115, "⊣⍆", "LastSort"),
    (120, "¯⌵", "NegAbs"),
];


fn main() {
    let mode = std::env::args().nth(1).unwrap_or_default();
    let n: usize = std::env::args().nth(2).and_then(|s| s.parse().ok()).unwrap_or(500);
    let mut r = Rng::new(seed_from_env());
    match mode.as_str() {
        "one" => {
            let src = std::env::args().nth(2).unwrap_or_default();
            for cfg in 0..3 {
                let o = run_cfg(&src, &[], cfg, 5000);
                println!("cfg {cfg}: {}", show_stack(&o));
            }
            for t in raw_trees(&src) {
                let o = uiua::verif::optimize_node(t.clone(), true);
                println!("raw  {t:?}\nopt  {o:?}");
                println!("coq  {}\n  => {}", Ex::new().node(&t), Ex::new().node(&o));
            }
        }
        "vtie" => {
            let srcs = tie_sources(&mut r, n);
            let mut seen = BTreeSet::new();
            let mut changed = 0usize;
            let mut total = 0usize;
            for src in &srcs {
                for t in raw_trees(src) {
                    for full in [true, false] {
                        let term = Ex::new().node(&t);
                        if term.len() > 5000 || !seen.insert((term.clone(), full)) {
                            continue;
                        }
                        let Ok(o) = catch(|| uiua::verif::optimize_node(t.clone(), full)) else { continue };
                        let oterm = Ex::new().node(&o);
                        total += 1;
                        if oterm != term {
                            changed += 1;
                        }
                        println!("{{\"n\":{},\"o\":{},\"full\":{},\"src\":{}}}", jstr(&term), jstr(&oterm), full, jstr(src));
                    }
                }
            }
            println!("{{\"summary\":true,\"sources\":{},\"trees\":{},\"changed_by_optimiser\":{}}}", srcs.len(), total, changed);
        }
        "pushtie" => {
            let srcs = tie_sources(&mut r, n);
            let mut seen = BTreeSet::new();
            let mut total = 0usize;
            let mut inlined = 0usize;
            for src in &srcs {
                for t in raw_trees(src) {
                    let mut runs = Vec::new();
                    collect_runs(&t, &mut runs);
                    for ns in runs {
                        let term = Ex::new().node(&Node::Run(ns.iter().cloned().collect()));
                        if term.len() > 4000 || !seen.insert(term.clone()) {
                            continue;
                        }
                        let built = Node::from_iter(ns.iter().cloned());
                        let oterm = Ex::new().node(&built);
                        total += 1;
                        if built.as_slice().len() != ns.len() {
                            inlined += 1;
                        }
                        println!("{{\"ns\":{},\"o\":{}}}", jstr(&term), jstr(&oterm));
                    }
                }
            }
            println!("{{\"summary\":true,\"runs\":{},\"shortened_by_push\":{}}}", total, inlined);
        }
        "search" => {
            let cfg = GenCfg::default();
            let mut a_ok = 0usize;
            let mut a_err = 0usize;
            let mut per_rule: BTreeMap<&str, (usize, usize)> = BTreeMap::new();
            let mut viol = 0usize;
            let mut conv = 0usize;
            let mut samples = 0usize;
            // regression cases and the generated programs
            let mut progs: Vec<(String, String, Vec<Value>, Vec<String>)> = vec![
                ("reduce-depth-max".into(), "≡/↥ [1 2 3]\n".into(), vec![], vec!["[1 2 3]".into()]),
                ("reduce-depth-max".into(), "F ← ≡/↥\nF [1 2 3]\n".into(), vec![], vec!["[1 2 3]".into()]),
                ("reduce-depth-min".into(), "≡/↧ [3 2 1]\n".into(), vec![], vec!["[3 2 1]".into()]),
                ("first-rise".into(), "⊢⍏ []\n".into(), vec![], vec!["[]".into()]),
                ("first-rise".into(), "F ← ⊢⍏\nF []\n".into(), vec![], vec!["[]".into()]),
            ];
            // regression corpus, replayed first: bare reproducers of every defect found so far
            // (repaired ones must stay repaired: their keys are no longer known findings;
            //  open ones give stable keys for the known-findings file)
            for (rule, src, empty) in [
                // repaired by 1f3e8d8 / 2d75a21 (fused first-min / last-max index)
                ("last-rise", "⊣⍏ [1 2]", false),
                ("last-rise", "⊣⍏ \"ab\"", false),
                ("last-rise", "⊣⍏ [5 5]", false),
                ("last-rise", "⊣⍏ \"\"", true),
                ("first-rise", "≍.⊢⍏↘1 @a", true),
                ("first-fall", "⊢⍖ []", true),
                ("last-fall", "⊣⍖ []", true),
                // repaired by 9411123 (fused all-same / one-unique on empty rows)
                ("all-same-rot", "≍↻1. ↯2_0 0", true),
                ("all-same-rot-neg", "≍↻¯1.⊟. {}", true),
                ("all-same-by", "≍⊸(↻1) ↯2_0 0", true),
                ("all-same-on", "≍⟜(↻1) ↯2_0 0", true),
                ("all-same-stencil", "/×⧈≍ ↯2_0_2 0", true),
                ("all-same-le", "≤1⧻◴ ↯3_0 0", true),
                ("one-unique-eq", "=1⧻◴ ↯2_0_2 0", true),
                ("one-unique-eq", "=1⧻◴ ↯0_3 0", true),
                ("one-unique-ne", "≠1⧻◴ ↯3_0 0", true),
                // repaired by 8848223 (fused first / last where)
                ("first-where", "⊢⊚ [5 2 ¯1]", false),
                ("last-where", "⊣⊚ [¯2 ¯2 5]", false),
                ("last-where", "⍣(⍆⊣⊚)0 [¯2 1 5]", false),
                ("len-where", "⧻⊚ [1 ¯1]", false),
                // repaired by 9703aa4 (sortedness mark of a scalar divided by an array)
                ("pow-neg1", "⍆ⁿ¯1 [5 ¯2]", false),
                // repaired by d523098 (TransposeN under rows), 4c07839 (fused reduce of a table without rows)
                ("transpose3", "≡(⍉⍉⍉) ↯2_3_2⇡12", false),
                ("reduce-table", "/↥⊞- [] ↯2_2_2⇡8", true),
                ("reduce-table", "/↥⊞-ℂ0 [] [¯1 5]", true),
                ("reduce-table", "/+⊞× ↘1\"\" 4", true),
                // repaired in round 4: 080edaa / 340d8d5 (reduce-table), a04562f (conjoin-inventory scalar),
                // 5f1c7e2 (rows on rowless arrays), 047a6f3 / 40e48d8 (map keys)
                ("reduce-table", "/↥⊞- [3 4] ↯0_0 0", true),
                ("reduce-table", "♭/↥⊞-▽2 ℂ0 0 [i ¯i 1]", false),
                ("conjoin-inventory", "/◇⊂⍚⇌¤ @a", false),
                ("reverse-first", "≡(⊢⇌▽2) \"\"", true),
                ("by-to-dup", "≡(⊸+ 1) \"\"", true),
                ("by-to-dup", "≡(⊸+ 1⊂0) []", true),
                ("last-sort", "≡(⊣⍆) ↯0 □0", true),
                ("reverse-last", "≡(¬⊣⇌⍆) ↯0_2 @a", true),
                ("memberof-range", "∊⇡ 3 map [1 2] [3 4]", false),
                ("rows-flip", "≡(⊂:) ¯2.5 ↘1 map [1 2] [3 4]", false),
                // witness of the seeded mutation C01_count_unique_eq1_allsame
                ("one-unique-eq", "=1⧻◴ ▽0 [1 2 3]", true),
                // repaired in round 5: d541d8e (reduce-table with NaN), b393eee (rows on rowless arrays)
                ("reduce-table", "/↥⊞- [1 1] [NaN]", false),
                ("reduce-table", "/↧⊞- [1 1] [NaN]", false),
                ("sort-up", "≡(⊏⍏.) \"\"", true),
                ("sort-down", "≡(⊏⍖.) ↯0_0 0", true),
                ("square-abs", "≡(×.⌵) \"\"", true),
                ("pow-neg1", "≡(⊢ⁿ¯1⍆) ↯0_1 □0", true),
                ("neg-abs", "≡(⊸(¯⌵□)) []", true),
                // repaired in round 6: 9ccca04 (fused first/last of rise/fall inside by, rows inside rows, on rowless arrays)
                ("last-rise", "≡(⊸(⊣⍏)) ↯0_3_2 0", true),
                ("first-rise", "≡(⊸(⊢⍏)) ↯0_3_2 0", true),
                ("first-fall", "≡(⊸(⊢⍖)) ↯0_3 0", true),
                ("last-fall", "≡(⊸(⊣⍖)) ↯0_3 0", true),
                ("sort-down", "≡(≡(⊏⍖.)) ↯0_2_0 0", true),
                ("sort-up", "≡(≡(⊏⍏.)) ↯0_2_2 0", true),
                ("sortdown-reverse", "≡(≡(⇌⇌⊏⍖.¯)) ↯0_2_0 □0", true),
                // repaired in round 7: 69648a7 (split-by), 3000c96 (member of a multi-dimensional range),
                // 5e4b2d1 (square-abs / power of minus one on no characters; the (-1, Pow) rule is gone),
                // 9f3362f (the (i, Mul, Add) -> Complex rule is gone)
                ("split-by-scalar-lit", "⊜□≠@ . [1 2]", false),
                ("split-by-scalar-lit", "⊜□≠@ . @a", false),
                ("split-by-scalar-lit", "⊜⧻≠0. 5", false),
                ("split-by-scalar-lit", "⊜⧻≠0. {1 2}", false),
                ("split-by-mask-lit", "⊜□¬⦷\"ab\". □2", false),
                ("square-abs", "×.⌵ \"\"", true),
                ("pow-neg1", "ⁿ¯1 \"\"", true),
                ("pow-neg1", "≡(ⁿ¯1⊂0) \"\"", true),
                ("complex-i", "+×i NaN 2", false),
                ("complex-i", "+×i \"\" □\"A\"", true),
                ("memberof-range-deshape", "∊♭₂⇡ [3 4] \"abc\"", false),
                ("memberof-range-deshape", "∊♭₂⇡ [1 2] \"\"", true),
                ("memberof-range-rerank", "∊☇1⇡ [4] \"ab\"", false),
                // repaired in round 8: e27a2a8 (ReduceDepth on rowless rows), 8ff4157 (split-by with no pieces),
                // 549d4e2 (square-abs of complex numbers)
                ("reduce-depth", "≡(⇌≡/↥) ↯0_1_3 0", true),
                ("reduce-depth", "≡(□≡/↧↙2) ↯0_1 □0", true),
                ("split-by-scalar-lit", "⊜□≠@ . \" \"", false),
                ("split-by-mask-lit", "⊜□¬⦷\"ab\". \"ab\"", false),
                ("square-abs", "×.⌵ [ℂ3 2 ℂ1 2]", false),
                // repaired in round 9: 333e012 (fused square-abs leaves the map keys off)
                ("square-abs", "×.⌵ map [1 2] [3 4]", false),
                ("square-abs", "×.⌵⊟. map [1 2] [3 4]", false),
                ("square-abs", "×.⌵ ¤ map [1 2] [3 4]", false),
                // still open
                ("conjoin-inventory", "/◇⊂⍚(⊂0) []", true),
                ("reduce-content", "≡(¤/◇⊂) []", true),
                ("reduce-content", "/◇⊂ ↯0 □0", true),
            ] {
                progs.push((rule.to_string(), format!("# Experimental!\n{src}\n"), vec![], if empty { vec!["[]".into()] } else { vec![] }));
            }
            let regression = progs.len();
            // directed family: marked (sorted up / down) arguments with tied extremes
            let family = marked_family();
            let family_n = family.len();
            for (rule, src) in family {
                progs.push((rule, src, vec![], vec![]));
            }
            // directed family: every rule on rowless arrays of every type
            let rowless = rowless_family();
            let rowless_n = rowless.len();
            for (rule, src) in rowless {
                progs.push((rule, src, vec![], vec!["[]".into()]));
            }
            for _ in 0..n {
                let p = gen_prog(&mut r);
                let args: Vec<Value> = (0..p.nargs).map(|_| gen_value(&mut r, &cfg, 0)).collect();
                progs.push((p.rule.to_string(), p.src, args, p.lits));
            }
            for (rule, src, args, lits) in &progs {
                let a = run_cfg(src, args, 0, 2000);
                let rule_s: &str = RULES.iter().map(|x| x.0).find(|x| x == rule).unwrap_or("other");
                let e = per_rule.entry(rule_s).or_default();
                if a.ok { a_ok += 1; e.0 += 1 } else { a_err += 1; e.1 += 1 }
                let shown_args: Vec<String> = args.iter().map(|v| format!("[{} {:?}] {}", kind(v), v.shape, v.show().replace('\n', "⏎").chars().take(80).collect::<String>())).collect();
                for cfgi in [1usize, 2] {
                    let b = run_cfg(src, args, cfgi, 2000);
                    let cname = if cfgi == 1 { "optimiser" } else { "optimiser+pre-eval" };
                    if a.ok {
                        if let Some(d) = diff(&a, &b) {
                            viol += 1;
                            println!("{{\"violation\":\"law\",\"rule\":{},\"cfg\":{},\"what\":{},\"src\":{},\"args\":{},\"ref\":{},\"got\":{},\"coq_args\":{}}}",
                                jstr(rule), jstr(cname), jstr(&d), jstr(src), jstr(&shown_args.join(" | ")), jstr(&show_stack(&a)), jstr(&show_stack(&b)),
                                jstr(&args.iter().map(coq_value).collect::<Vec<_>>().join(" ")));
                        }
                    } else if b.ok && !a.err.contains("imeout") && !a.err.contains("too large") && !a.err.contains("is too high") && !a.err.contains("emory") && !a.err.starts_with("compile") {
                        // not a violation of the law (the reference run fails); recorded
                        conv += 1;
                        let empty = has_empty(args) || lits.iter().any(|l| l.contains("[]") || l.contains("\"\"") || l.contains("{}") || l.contains("↯0") || l.contains("_0") || l.contains("⇡0"));
                        println!("{{\"converse\":true,\"rule\":{},\"empty\":{},\"cfg\":{},\"src\":{},\"args\":{},\"ref\":{},\"got\":{}}}",
                            jstr(rule), empty, jstr(cname), jstr(src), jstr(&shown_args.join(" | ")), jstr(&show_stack(&a)), jstr(&show_stack(&b)));
                    }
                }
                if a.ok && samples < 6 && !a.stack.is_empty() {
                    samples += 1;
                    println!("{{\"sample\":true,\"rule\":{},\"src\":{},\"args\":{},\"result\":{}}}", jstr(rule), jstr(src), jstr(&shown_args.join(" | ")), jstr(&show_stack(&a)));
                }
            }
            // corpus: whole test files and their blank-line chunks
            let mut corpus_ok = 0usize;
            let mut corpus_n = 0usize;
            let mut items: Vec<(String, String)> = Vec::new();
            for (name, text) in corpus_files() {
                items.push((name.clone(), text.clone()));
                for (i, chunk) in text.split("\n\n").enumerate() {
                    let c = chunk.trim();
                    if !c.is_empty() && c.len() < 1500 {
                        items.push((format!("{name}#{i}"), format!("# Experimental!\n{c}\n")));
                    }
                }
            }
            let cap = if n >= 20000 { items.len() } else { (n / 4).max(60).min(items.len()) };
            // whole files first, then a deterministic sample of the chunks
            let (files, mut chunks): (Vec<_>, Vec<_>) = items.into_iter().partition(|(n, _)| !n.contains('#'));
            for i in (1..chunks.len()).rev() {
                let j = r.below(i + 1);
                chunks.swap(i, j);
            }
            let mut todo = files;
            todo.extend(chunks);
            todo.truncate(cap);
            for (name, src) in &todo {
                if src.contains("&") || src.contains("⚂") || src.contains("rand") || src.contains("now") || src.contains("tag") {
                    continue; // system, random and time-dependent code is outside the property
                }
                corpus_n += 1;
                let a = run_cfg(src, &[], 0, 10000);
                if !a.ok {
                    continue;
                }
                corpus_ok += 1;
                for cfgi in [1usize, 2] {
                    let b = run_cfg(src, &[], cfgi, 10000);
                    if let Some(d) = diff(&a, &b) {
                        viol += 1;
                        let cname = if cfgi == 1 { "optimiser" } else { "optimiser+pre-eval" };
                        println!("{{\"violation\":\"law\",\"rule\":\"corpus\",\"cfg\":{},\"what\":{},\"src\":{},\"args\":\"\",\"ref\":{},\"got\":{},\"coq_args\":\"\"}}",
                            jstr(cname), jstr(&d), jstr(name), jstr(&show_stack(&a).chars().take(300).collect::<String>()), jstr(&show_stack(&b).chars().take(300).collect::<String>()));
                    }
                }
            }
            let pr: Vec<String> = per_rule.iter().map(|(k, v)| format!("{}:[{},{}]", jstr(k), v.0, v.1)).collect();
            println!("{{\"summary\":true,\"regression_programs\":{regression},\"marked_tied_programs\":{family_n},\"rowless_programs\":{rowless_n},\"programs\":{},\"reference_ok\":{},\"reference_err\":{},\"violations\":{},\"converse\":{},\"corpus_items\":{},\"corpus_reference_ok\":{},\"per_rule_ok_err\":{{{}}}}}",
                progs.len(), a_ok, a_err, viol, conv, corpus_n, corpus_ok, pr.join(","));
        }
        "fusedtie" => {
            // C: the semantics given to the fused primitives in Coq against the implementation,
            // on marked / unmarked arguments with tied extremes
            let mut total = 0usize;
            let mut errs = 0usize;
            for (id, snip, name) in FUSED {
                for m in MARKERS {
                    for lit in TIED.iter().chain(["[]", "\"\"", "↯0_2 0", "[7 7 7 7]", "⇡4", "[[5 5] [5 5] [5 5]]"].iter()) {
                        let arg_src = format!("# Experimental!\n{m} {lit}\n");
                        let arg = run_cfg(&arg_src, &[], 0, 2000);
                        if !arg.ok || arg.stack.len() != 1 {
                            continue;
                        }
                        let Some(term) = prims_arr(&arg.stack[0]) else { continue };
                        if arg.stack[0].rank() == 0 {
                            continue;
                        }
                        let src = format!("# Experimental!\n{snip} {m} {lit}\n");
                        // the optimised tree must really contain the fused primitive
                        let Ok(asm) = compile(&src, PreEvalMode::Lazy) else { continue };
                        if !format!("{:?}", asm.root).contains(name) {
                            continue;
                        }
                        let o = run_cfg(&src, &[], 1, 2000);
                        // the result as a Prims.v array term (integers / characters of any rank)
                        let val = if o.ok && o.stack.len() == 1 { prims_arr_any(&o.stack[0]) } else { None };
                        if o.ok && val.is_none() {
                            continue;
                        }
                        total += 1;
                        if !o.ok {
                            errs += 1;
                        }
                        let (up, down) = { let f = uiua::verif::flags(&arg.stack[0]); (f.1, f.2) };
                        println!("{{\"id\":{id},\"arr\":{},\"ok\":{},\"res\":{},\"src\":{},\"marked_up\":{up},\"marked_down\":{down}}}",
                            jstr(&term), o.ok, jstr(&val.unwrap_or_default()), jstr(&src));
                    }
                }
            }
            println!("{{\"summary\":true,\"cases\":{total},\"error_cases\":{errs}}}");
        }
        _ => {
            eprintln!("usage: c01 vtie|pushtie|search N | one SRC");
            std::process::exit(2);
        }
    }
}
