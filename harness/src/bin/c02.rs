//! C02: inferred signature = real stack effect.
//!   c02 export N   -> JSON lines {node, rust_sig|null, stored|null, src}: every function body,
//!                     operand and root of compiled corpus/generated programs
//!   c02 frame N    -> sentinel experiment on the implementation (search)
use std::collections::BTreeSet;
use uiua::{Node, SigNode};
use uvh::*;

pub fn corpus_chunks() -> Vec<String> {
    let mut out = Vec::new();
    for dir in ["/repo/tests", "/repo/examples", "/repo/tests_special"] {
        let Ok(rd) = std::fs::read_dir(dir) else { continue };
        let mut files: Vec<_> = rd.filter_map(|e| e.ok()).map(|e| e.path()).collect();
        files.sort();
        for f in files {
            if f.extension().and_then(|e| e.to_str()) != Some("ua") {
                continue;
            }
            let Ok(text) = std::fs::read_to_string(&f) else { continue };
            for chunk in text.split("\n\n") {
                let c = chunk.trim();
                if c.is_empty() || c.len() > 1500 {
                    continue;
                }
                out.push(format!("# Experimental!\n{c}\n"));
            }
        }
    }
    out
}


/// generator of integer-only programs over the modelled spine (execution order, then reversed)
pub struct PGen {
    pub fns: Vec<String>,
}

const MONADIC: [&str; 5] = ["¯", "¬", "⌵", "±", "∘"];
const DYADIC: [&str; 11] = ["+", "-", "×", "=", "<", ">", "≠", "≤", "≥", "↥", "↧"];

impl PGen {
    /// a function body as source text (right-to-left), roughly `len` items
    pub fn body(&mut self, r: &mut Rng, depth: usize, len: usize) -> String {
        let mut items: Vec<String> = Vec::new(); // in execution order
        for _ in 0..len {
            let k = r.below(100);
            let it = if k < 22 {
                format!("{}", r.range(0, 4))
            } else if k < 34 {
                r.pick(&MONADIC).to_string()
            } else if k < 52 {
                r.pick(&DYADIC).to_string()
            } else if k < 58 {
                r.pick(&[".", ":", "◌"]).to_string()
            } else if k < 62 {
                // assertion: fails unless the value under the message is 1
                "⍤\"x\"".to_string()
            } else if k < 66 && !self.fns.is_empty() {
                let i = r.below(self.fns.len());
                format!("F{}", (b'a' + i as u8) as char)
            } else if depth == 0 {
                format!("{}", r.range(0, 3))
            } else if k < 90 {
                let m = *r.pick(&["⊙", "⋅", "⟜", "⊸", "⤙", "⤚", "◡", "∩", "⍩"]);
                let l = 1 + r.below(3);
                format!("{m}({})", self.body(r, depth - 1, l))
            } else if k < 96 {
                let m = *r.pick(&["⊃", "⊓", "⍣"]);
                let (l1, l2) = (1 + r.below(3), 1 + r.below(3));
                format!("{m}({})({})", self.body(r, depth - 1, l1), self.body(r, depth - 1, l2))
            } else {
                let (l1, l2) = (1 + r.below(3), 1 + r.below(3));
                format!("⨬({}|{})", self.body(r, depth - 1, l1), self.body(r, depth - 1, l2))
            };
            items.push(it);
        }
        items.reverse();
        items.join(" ")
    }
    pub fn program(&mut self, r: &mut Rng) -> String {
        self.fns.clear();
        let mut src = String::new();
        let nf = r.below(3);
        for i in 0..nf {
            let l = 1 + r.below(4);
            let b = self.body(r, 2, l);
            src.push_str(&format!("F{} ← {}\n", (b'a' + i as u8) as char, b));
            self.fns.push(b);
        }
        let l = 2 + r.below(6);
        let main = self.body(r, 3, l);
        let lits: Vec<String> = (0..6).map(|_| format!("{}", r.range(0, 3))).collect();
        src.push_str(&format!("{} {}\n", main, lits.join(" ")));
        src
    }
}

fn ints_of(vs: &[uiua::Value]) -> Option<Vec<i64>> {
    let mut out = Vec::new();
    for v in vs {
        if v.rank() != 0 {
            return None;
        }
        match v {
            uiua::Value::Num(a) => {
                let x = *a.elements().next()?;
                if x.fract() != 0.0 || x.abs() > 1e15 {
                    return None;
                }
                out.push(x as i64)
            }
            uiua::Value::Byte(a) => out.push(*a.elements().next()? as i64),
            _ => return None,
        }
    }
    Some(out)
}

fn collect(n: &Node, acc: &mut Vec<(Node, Option<uiua::Signature>)>) {
    fn ops(args: &[SigNode], acc: &mut Vec<(Node, Option<uiua::Signature>)>) {
        for sn in args {
            acc.push((sn.node.clone(), Some(sn.sig)));
            collect(&sn.node, acc);
        }
    }
    match n {
        Node::Run(ns) => ns.iter().for_each(|x| collect(x, acc)),
        Node::Mod(_, args, _) | Node::ImplMod(_, args, _) => ops(args, acc),
        Node::Switch { branches, .. } => ops(branches, acc),
        Node::Array { inner, .. } => collect(inner, acc),
        Node::NoInline(inner) => collect(inner, acc),
        Node::TrackCaller(inner) => {
            acc.push((inner.node.clone(), Some(inner.sig)));
            collect(&inner.node, acc)
        }
        Node::CustomInverse(cust, _) => {
            if let Ok(sn) = &cust.normal {
                acc.push((sn.node.clone(), Some(sn.sig)));
                collect(&sn.node, acc);
            }
            for sn in cust.un.iter().chain(cust.anti.iter()) {
                acc.push((sn.node.clone(), Some(sn.sig)));
                collect(&sn.node, acc);
            }
            if let Some((a, b)) = &cust.under {
                for sn in [a, b] {
                    acc.push((sn.node.clone(), Some(sn.sig)));
                    collect(&sn.node, acc);
                }
            }
        }
        _ => {}
    }
}

fn main() {
    let mode = std::env::args().nth(1).unwrap_or_default();
    let n: usize = std::env::args().nth(2).and_then(|s| s.parse().ok()).unwrap_or(500);
    let mut r = Rng::new(seed_from_env());
    match mode.as_str() {
        "export" => {
            let mut srcs = corpus_chunks();
            // deterministic shuffle, then cap
            for i in (1..srcs.len()).rev() {
                let j = r.below(i + 1);
                srcs.swap(i, j);
            }
            let mut seen = BTreeSet::new();
            let mut emitted = 0usize;
            let mut compiled = 0usize;
            let mut kinds = std::collections::BTreeMap::<String, usize>::new();
            for src in srcs {
                if emitted >= n {
                    break;
                }
                let Ok(asm) = compile(&src, uiua::PreEvalMode::Lazy) else { continue };
                compiled += 1;
                let mut acc: Vec<(Node, Option<uiua::Signature>)> = vec![(asm.root.clone(), None)];
                collect(&asm.root, &mut acc);
                for f in asm.functions.iter() {
                    acc.push((f.clone(), None));
                    collect(f, &mut acc);
                }
                for (node, stored) in acc {
                    let mut ex = Export::new();
                    let term = ex.node(&node);
                    if term.len() > 6000 || !seen.insert((term.clone(), stored.map(coq_sig))) {
                        continue;
                    }
                    for (k, v) in ex.kinds {
                        *kinds.entry(k).or_default() += v;
                    }
                    let rust = catch(|| node.sig()).ok().and_then(|r| r.ok());
                    println!(
                        "{{\"node\":{},\"rust\":{},\"stored\":{},\"opaque\":{}}}",
                        jstr(&term),
                        rust.map(|s| jstr(&coq_sig(s))).unwrap_or("null".into()),
                        stored.map(|s| jstr(&coq_sig(s))).unwrap_or("null".into()),
                        ex.opaque
                    );
                    emitted += 1;
                }
            }
            println!("{{\"summary\":true,\"compiled\":{compiled},\"emitted\":{emitted},\"kinds\":{}}}", serde_json::to_string(&kinds).unwrap());
        }
        "exec" => {
            // correspondence of the interpreter model: run generated integer programs
            let mut g = PGen { fns: vec![] };
            let mut emitted = 0;
            let mut tries = 0;
            while emitted < n && tries < n * 20 {
                tries += 1;
                let src = format!("# Experimental!\n{}", g.program(&mut r));
                let Ok(asm) = compile(&src, uiua::PreEvalMode::Lazy) else { continue };
                let mut ex = Export::new();
                let root = ex.node(&asm.root);
                let funs: Vec<String> = asm.functions.iter().map(|f| ex.node(f)).collect();
                let mut env = uiua::Uiua::with_safe_sys().with_execution_limit(std::time::Duration::from_secs(2));
                let res = catch(|| env.run_asm(asm.clone()).map_err(|e| e.to_string()));
                let (code, stack, under) = match res {
                    Ok(Ok(())) => {
                        let d = uiua::verif::depths(&env);
                        let st = env.take_stack();
                        match ints_of(&st) {
                            Some(mut v) => {
                                v.reverse();
                                (0, v, d[1])
                            }
                            None => continue,
                        }
                    }
                    Ok(Err(_)) => (1, vec![], 0),
                    Err(p) => {
                        println!("{{\"panic\":{},\"src\":{}}}", jstr(&p), jstr(&src));
                        continue;
                    }
                };
                println!(
                    "{{\"src\":{},\"root\":{},\"funs\":{},\"code\":{code},\"stack\":{:?},\"under\":{under},\"opaque\":{}}}",
                    jstr(&src),
                    jstr(&root),
                    jstr(&format!("[{}]", funs.join(";"))),
                    stack,
                    ex.opaque
                );
                emitted += 1;
            }
        }
        _ => eprintln!("usage: c02 export|exec|frame N"),
    }
}
