//! C02: inferred signature = real stack effect.
//!   c02 export N   -> JSON lines {node, rust_sig|null, stored|null, src}: every function body,
//!                     operand and root of compiled corpus/generated programs
//!   c02 frame N    -> sentinel experiment on the implementation (search)
use std::collections::BTreeSet;
use uiua::{Node, SigNode};
use uvh::*;

pub fn corpus_chunks() -> Vec<String> {
    let mut out = Vec::new();
    for dir in ["/repo/tests", "/repo/examples", "/repo/tests_special"] {
        let Ok(rd) = std::fs::read_dir(dir) else { continue };
        let mut files: Vec<_> = rd.filter_map(|e| e.ok()).map(|e| e.path()).collect();
        files.sort();
        for f in files {
            if f.extension().and_then(|e| e.to_str()) != Some("ua") {
                continue;
            }
            let Ok(text) = std::fs::read_to_string(&f) else { continue };
            for chunk in text.split("\n\n") {
                let c = chunk.trim();
                if c.is_empty() || c.len() > 1500 {
                    continue;
                }
                out.push(format!("# Experimental!\n{c}\n"));
            }
        }
    }
    out
}


fn collect(n: &Node, acc: &mut Vec<(Node, Option<uiua::Signature>)>) {
    fn ops(args: &[SigNode], acc: &mut Vec<(Node, Option<uiua::Signature>)>) {
        for sn in args {
            acc.push((sn.node.clone(), Some(sn.sig)));
            collect(&sn.node, acc);
        }
    }
    match n {
        Node::Run(ns) => ns.iter().for_each(|x| collect(x, acc)),
        Node::Mod(_, args, _) | Node::ImplMod(_, args, _) => ops(args, acc),
        Node::Switch { branches, .. } => ops(branches, acc),
        Node::Array { inner, .. } => collect(inner, acc),
        Node::NoInline(inner) => collect(inner, acc),
        Node::TrackCaller(inner) => {
            acc.push((inner.node.clone(), Some(inner.sig)));
            collect(&inner.node, acc)
        }
        Node::CustomInverse(cust, _) => {
            if let Ok(sn) = &cust.normal {
                acc.push((sn.node.clone(), Some(sn.sig)));
                collect(&sn.node, acc);
            }
            for sn in cust.un.iter().chain(cust.anti.iter()) {
                acc.push((sn.node.clone(), Some(sn.sig)));
                collect(&sn.node, acc);
            }
            if let Some((a, b)) = &cust.under {
                for sn in [a, b] {
                    acc.push((sn.node.clone(), Some(sn.sig)));
                    collect(&sn.node, acc);
                }
            }
        }
        _ => {}
    }
}

fn main() {
    let mode = std::env::args().nth(1).unwrap_or_default();
    let n: usize = std::env::args().nth(2).and_then(|s| s.parse().ok()).unwrap_or(500);
    let mut r = Rng::new(seed_from_env());
    match mode.as_str() {
        "export" => {
            let mut srcs = corpus_chunks();
            // deterministic shuffle, then cap
            for i in (1..srcs.len()).rev() {
                let j = r.below(i + 1);
                srcs.swap(i, j);
            }
            let mut seen = BTreeSet::new();
            let mut emitted = 0usize;
            let mut compiled = 0usize;
            let mut kinds = std::collections::BTreeMap::<String, usize>::new();
            for src in srcs {
                if emitted >= n {
                    break;
                }
                let Ok(asm) = compile(&src, uiua::PreEvalMode::Lazy) else { continue };
                compiled += 1;
                {
                    let mut ex = Export::with_asm(&asm);
                    let root = ex.node(&asm.root);
                    let funs: Vec<String> = asm.functions.iter().map(|f| ex.node(f)).collect();
                    if root.len() + funs.iter().map(|f| f.len()).sum::<usize>() < 20000 {
                        println!("{{\"prog\":true,\"root\":{},\"funs\":{}}}", jstr(&root), jstr(&format!("[{}]", funs.join(";"))));
                    }
                }
                let mut acc: Vec<(Node, Option<uiua::Signature>)> = vec![(asm.root.clone(), None)];
                collect(&asm.root, &mut acc);
                for f in asm.functions.iter() {
                    acc.push((f.clone(), None));
                    collect(f, &mut acc);
                }
                for (node, stored) in acc {
                    let mut ex = Export::new();
                    let term = ex.node(&node);
                    if term.len() > 6000 || !seen.insert((term.clone(), stored.map(coq_sig))) {
                        continue;
                    }
                    for (k, v) in ex.kinds {
                        *kinds.entry(k).or_default() += v;
                    }
                    let rust = catch(|| node.sig()).ok().and_then(|r| r.ok());
                    println!(
                        "{{\"node\":{},\"rust\":{},\"stored\":{},\"opaque\":{}}}",
                        jstr(&term),
                        rust.map(|s| jstr(&coq_sig(s))).unwrap_or("null".into()),
                        stored.map(|s| jstr(&coq_sig(s))).unwrap_or("null".into()),
                        ex.opaque
                    );
                    emitted += 1;
                }
            }
            println!("{{\"summary\":true,\"compiled\":{compiled},\"emitted\":{emitted},\"kinds\":{}}}", serde_json::to_string(&kinds).unwrap());
        }
        "exec" => {
            // correspondence of the interpreter model: run generated integer programs
            let mut g = PGen { fns: vec![] };
            let mut emitted = 0;
            let mut tries = 0;
            while emitted < n && tries < n * 20 {
                tries += 1;
                let src = format!("# Experimental!\n{}", g.program(&mut r));
                let Ok(asm) = compile(&src, uiua::PreEvalMode::Lazy) else { continue };
                let mut ex = Export::with_asm(&asm);
                let root = ex.node(&asm.root);
                let funs: Vec<String> = asm.functions.iter().map(|f| ex.node(f)).collect();
                let mut env = uiua::Uiua::with_safe_sys().with_execution_limit(std::time::Duration::from_secs(2));
                let res = catch(|| env.run_asm(asm.clone()).map_err(|e| e.to_string()));
                let (code, stack, under) = match res {
                    Ok(Ok(())) => {
                        let d = uiua::verif::depths(&env);
                        let st = env.take_stack();
                        match ints_of(&st) {
                            Some(mut v) => {
                                v.reverse();
                                (0, v, d[1])
                            }
                            None => continue,
                        }
                    }
                    Ok(Err(_)) => (1, vec![], 0),
                    Err(p) => {
                        println!("{{\"panic\":{},\"src\":{}}}", jstr(&p), jstr(&src));
                        continue;
                    }
                };
                println!(
                    "{{\"src\":{},\"root\":{},\"funs\":{},\"code\":{code},\"stack\":{:?},\"under\":{under},\"opaque\":{}}}",
                    jstr(&src),
                    jstr(&root),
                    jstr(&format!("[{}]", funs.join(";"))),
                    stack,
                    ex.opaque
                );
                emitted += 1;
            }
        }
        "frame" => {
            // search: the frame law itself on the implementation, with sentinels beneath
            let mut g = PGen { fns: vec![] };
            let sentinels: Vec<uiua::Value> = (0..3).map(|i| boxes(&[], vec![uiua::Value::from(format!("sentinel-{i}"))])).collect();
            let mut done = 0;
            let mut tries = 0;
            let mut ok_runs = 0;
            let mut err_runs = 0;
            while done < n && tries < n * 30 {
                tries += 1;
                g.fns.clear();
                let mut src = String::from("# Experimental!\n");
                let nf = r.below(3);
                for i in 0..nf {
                    let l = 1 + r.below(4);
                    let b = g.body(&mut r, 2, l);
                    src.push_str(&format!("F{} ← {}\n", (b'a' + i as u8) as char, b));
                    g.fns.push(b);
                }
                let l = 1 + r.below(6);
                let body = g.body(&mut r, 3, l);
                src.push_str(&format!("Main ← {}\n", body));
                let Ok(asm) = compile(&src, uiua::PreEvalMode::Lazy) else { continue };
                // find Main's signature
                let Some(mainf) = asm.exports.get("Main").and_then(|i| asm.bindings.get(*i)).and_then(|b| match &b.kind {
                    uiua::BindingKind::Func(f) => Some(f.clone()),
                    _ => None,
                }) else { continue };
                let (a, o) = (mainf.sig.args(), mainf.sig.outputs());
                done += 1;
                for extra in [0usize, 2] {
                    let mut env = uiua::Uiua::with_safe_sys().with_execution_limit(std::time::Duration::from_secs(2));
                    for sv in &sentinels {
                        env.push(sv.clone());
                    }
                    let args: Vec<i64> = (0..a + extra).map(|_| r.range(0, 3)).collect();
                    for x in &args {
                        env.push(*x as f64);
                    }
                    let base = sentinels.len() + extra;
                    uiua::verif::set_frame_monitor(true);
                    let _ = uiua::verif::take_frame_violations();
                    let res = catch(|| {
                        env.run_asm(asm.clone()).and_then(|_| env.call(&mainf)).map_err(|e| e.to_string())
                    });
                    uiua::verif::set_frame_monitor(false);
                    for v in uiua::verif::take_frame_violations().into_iter().take(2) {
                        println!("{{\"violation\":\"frame-monitor\",\"src\":{},\"sig\":\"|{a}.{o}\",\"args\":{:?},\"what\":{}}}", jstr(&src), args, jstr(&v));
                    }
                    match res {
                        Ok(Ok(())) => {
                            ok_runs += 1;
                            let d = uiua::verif::depths(&env);
                            let st = env.take_stack();
                            let mut bad = Vec::new();
                            if st.len() != base + o {
                                bad.push(format!("height {} expected {}", st.len(), base + o));
                            }
                            for (i, sv) in sentinels.iter().enumerate() {
                                if st.get(i) != Some(sv) {
                                    bad.push(format!("sentinel {i} damaged"));
                                }
                            }
                            for i in 0..extra {
                                if st.get(sentinels.len() + i).map(|v| format!("{v:?}")) != Some(format!("{:?}", uiua::Value::from(args[i] as f64))) {
                                    bad.push(format!("extra value {i} beneath the arguments damaged"));
                                }
                            }
                            if d[1] != 0 || d[2] != 1 || d[5] != 0 || d[7] != 0 {
                                bad.push(format!("hidden residue {d:?}"));
                            }
                            if !bad.is_empty() {
                                println!("{{\"violation\":\"frame\",\"src\":{},\"sig\":\"|{a}.{o}\",\"args\":{:?},\"what\":{}}}", jstr(&src), args, jstr(&bad.join("; ")));
                            }
                        }
                        Ok(Err(e)) => {
                            err_runs += 1;
                            if e.contains("modified the argument list") || e.contains("bug in the interpreter") || e.contains("crashed") {
                                println!("{{\"violation\":\"frame-runtime-check\",\"src\":{},\"sig\":\"|{a}.{o}\",\"args\":{:?},\"what\":{}}}", jstr(&src), args, jstr(&e));
                            }
                        }
                        Err(p) => println!("{{\"violation\":\"panic\",\"src\":{},\"sig\":\"|{a}.{o}\",\"args\":{:?},\"what\":{}}}", jstr(&src), args, jstr(&p)),
                    }
                }
            }
            println!("{{\"summary\":true,\"functions\":{done},\"ok_runs\":{ok_runs},\"err_runs\":{err_runs}}}");
        }
        "aframe" => {
            // the frame law on ARRAY arguments: modifier applications over operands of many signatures,
            // run on sentinels + argument arrays (empty ones included), with the frame hook on
            const F11: [&str; 7] = ["⇌", "⊂1", "□", "+1", "⊢", "♭", "¯"];
            const F21: [&str; 6] = ["⊂", "+", "⊟", "↥", "⊏", "⊡"];
            const F31: [&str; 4] = ["⊂⊂", "++", "⊂⊙⊂", "⊟⊂"];
            const F22: [&str; 4] = [":", "⊙⇌", "⊃⊂⊟", "⊃+-"];
            const F12: [&str; 3] = [".", "⊃⇌□", "⟜⧻"];
            const F32: [&str; 2] = ["⊃(++)(⊂⊂)", "⊙⊂"];
            const F01: [&str; 2] = ["5", "[1 2]"];
            const ARGS: [&str; 14] = ["\"\"", "[]", "\"ab\"", "[1 2 3]", "[1_2 3_4]", "↯0_3 0", "5", "{1 \"a\"}", "↯2_0 0", "[\"ab\"\"cd\"]", "0", "[0 1 2]", "↯0 □0", "[5]"];
            let pools: [&[&str]; 7] = [&F11, &F21, &F31, &F22, &F12, &F32, &F01];
            let sentinels: Vec<uiua::Value> = (0..3).map(|i| boxes(&[], vec![uiua::Value::from(format!("sentinel-{i}"))])).collect();
            let argvals: Vec<uiua::Value> = ARGS.iter().filter_map(|a| run_uiua(a).ok().and_then(|mut s| s.pop())).collect();
            let (mut done, mut tries, mut ok_runs, mut err_runs) = (0usize, 0usize, 0usize, 0usize);
            while done < n && tries < n * 20 {
                tries += 1;
                let pf: &[&str] = *r.pick(&pools);
                let f = r.pick(pf).to_string();
                let pg: &[&str] = *r.pick(&pools);
                let g = r.pick(pg).to_string();
                // handlers that consume their arguments, produce nothing and fail at run time on most values
                // (their failure is not syntactically certain, so the compiler keeps their own signature and a
                // try gives them the error value beneath the arguments)
                const M10: [&str; 4] = ["°1", "⍤\"m\" =1 ⧻", "°[]", "°0 ⧻"];
                const M20: [&str; 3] = ["°1 ≍", "⍤\"m\" ≍", "°1 ⊙◌"];
                let m1 = if r.chance(1, 2) { r.pick(&M10).to_string() } else { r.pick(&M20).to_string() };
                let m2 = if r.chance(1, 2) { r.pick(&M10).to_string() } else { r.pick(&M20).to_string() };
                let body = match r.below(27) {
                    22 | 23 => format!("⍣({f}|{m1}|{g})"),
                    24 => format!("⍣({f}|{m1}|{m2}|{g})"),
                    25 => format!("⍣({f}|{g}|{m1}|{f})"),
                    26 => format!("⍣({m1}|{m2}|{g})"),
                    0 => format!("/({f})"),
                    1 => format!("\\({f})"),
                    2 => format!("∧({f})"),
                    3 => format!("≡({f})"),
                    4 => format!("∵({f})"),
                    5 => format!("⍚({f})"),
                    6 => format!("⊞({f})"),
                    7 => format!("⍥({f})2"),
                    8 => format!("⊕({f})"),
                    9 => format!("⊜({f})"),
                    10 => format!("⍣({f})({g})"),
                    11 => format!("⊃({f})({g})"),
                    12 => format!("⊓({f})({g})"),
                    13 => format!("∩({f})"),
                    14 => format!("⊙({f})"),
                    15 => format!("⟜({f})"),
                    16 => format!("⊸({f})"),
                    17 => format!("⤙({f})"),
                    18 => format!("⤚({f})"),
                    19 => format!("◡({f})"),
                    20 => format!("⨬({f}|{g})"),
                    _ => format!("⬚0≡({f})"),
                };
                let src = format!("# Experimental!\nMain ← {body}\n");
                let Ok(asm) = compile(&src, uiua::PreEvalMode::Lazy) else { continue };
                let Some(mainf) = asm.exports.get("Main").and_then(|i| asm.bindings.get(*i)).and_then(|b| match &b.kind {
                    uiua::BindingKind::Func(f) => Some(f.clone()),
                    _ => None,
                }) else { continue };
                let (a, o) = (mainf.sig.args(), mainf.sig.outputs());
                done += 1;
                for _ in 0..3 {
                    let mut env = uiua::Uiua::with_safe_sys().with_execution_limit(std::time::Duration::from_secs(2));
                    for sv in &sentinels {
                        env.push(sv.clone());
                    }
                    let idx: Vec<usize> = (0..a).map(|_| r.below(argvals.len())).collect();
                    for i in &idx {
                        env.push(argvals[*i].clone());
                    }
                    let shown: Vec<&str> = idx.iter().map(|i| ARGS[*i]).collect();
                    uiua::verif::set_frame_monitor(true);
                    let _ = uiua::verif::take_frame_violations();
                    let res = catch(|| env.run_asm(asm.clone()).and_then(|_| env.call(&mainf)).map_err(|e| e.to_string()));
                    uiua::verif::set_frame_monitor(false);
                    for v in uiua::verif::take_frame_violations().into_iter().take(2) {
                        println!("{{\"violation\":\"frame-monitor\",\"src\":{},\"sig\":\"|{a}.{o}\",\"args\":{:?},\"what\":{}}}", jstr(&src), shown, jstr(&v));
                    }
                    match res {
                        Ok(Ok(())) => {
                            ok_runs += 1;
                            let d = uiua::verif::depths(&env);
                            let st = env.take_stack();
                            let mut bad = Vec::new();
                            if st.len() != sentinels.len() + o {
                                bad.push(format!("height {} expected {}", st.len(), sentinels.len() + o));
                            }
                            for (i, sv) in sentinels.iter().enumerate() {
                                if st.get(i) != Some(sv) {
                                    bad.push(format!("sentinel {i} damaged"));
                                }
                            }
                            if d[1] != 0 || d[2] != 1 || d[5] != 0 || d[7] != 0 {
                                bad.push(format!("hidden residue {d:?}"));
                            }
                            if !bad.is_empty() {
                                println!("{{\"violation\":\"frame\",\"src\":{},\"sig\":\"|{a}.{o}\",\"args\":{:?},\"what\":{}}}", jstr(&src), shown, jstr(&bad.join("; ")));
                            }
                        }
                        Ok(Err(e)) => {
                            err_runs += 1;
                            if e.contains("modified the argument list") || e.contains("bug in the interpreter") || e.contains("crashed") {
                                println!("{{\"violation\":\"frame-runtime-check\",\"src\":{},\"sig\":\"|{a}.{o}\",\"args\":{:?},\"what\":{}}}", jstr(&src), shown, jstr(&e));
                            }
                        }
                        Err(p) => println!("{{\"violation\":\"panic\",\"src\":{},\"sig\":\"|{a}.{o}\",\"args\":{:?},\"what\":{}}}", jstr(&src), shown, jstr(&p)),
                    }
                }
            }
            println!("{{\"summary\":true,\"functions\":{done},\"ok_runs\":{ok_runs},\"err_runs\":{err_runs}}}");
        }
        "monitor" => {
            // the frame monitor (hook) on real corpus programs: every execution of a function or operand
            // with a signature, in programs that use arrays and every modifier the corpus uses
            let mut srcs = corpus_chunks();
            for i in (1..srcs.len()).rev() {
                let j = r.below(i + 1);
                srcs.swap(i, j);
            }
            let (mut ran, mut ok_runs, mut err_runs, mut viol) = (0usize, 0usize, 0usize, 0usize);
            for src in srcs.into_iter().take(n) {
                if src.contains("&sl") || src.contains("&ast") || src.contains("&tcp") || src.contains("&ffi") {
                    continue;
                }
                let Ok(asm) = compile(&src, uiua::PreEvalMode::Lazy) else { continue };
                ran += 1;
                let mut env = uiua::Uiua::with_safe_sys().with_execution_limit(std::time::Duration::from_secs(2));
                uiua::verif::set_frame_monitor(true);
                let _ = uiua::verif::take_frame_violations();
                let res = catch(|| env.run_asm(asm.clone()).map_err(|e| e.to_string()));
                uiua::verif::set_frame_monitor(false);
                let d = uiua::verif::depths(&env);
                match res {
                    Ok(Ok(())) => {
                        ok_runs += 1;
                        if d[1] != 0 || d[2] != 1 || d[5] != 0 || d[6] != 0 || d[7] != 0 {
                            viol += 1;
                            println!("{{\"violation\":\"frame\",\"src\":{},\"sig\":\"root\",\"args\":[],\"what\":{}}}", jstr(&src), jstr(&format!("hidden residue at the end of a successful program {d:?}")));
                        }
                    }
                    Ok(Err(_)) => err_runs += 1,
                    Err(p) => println!("{{\"panic\":{},\"src\":{}}}", jstr(&p), jstr(&src)),
                }
                for v in uiua::verif::take_frame_violations().into_iter().take(2) {
                    viol += 1;
                    println!("{{\"violation\":\"frame-monitor\",\"src\":{},\"sig\":\"operand\",\"args\":[],\"what\":{}}}", jstr(&src), jstr(&v));
                }
            }
            println!("{{\"summary\":true,\"monitored_programs\":{ran},\"ok_runs\":{ok_runs},\"err_runs\":{err_runs},\"violations\":{viol}}}");
        }
        _ => eprintln!("usage: c02 export|exec|frame|aframe|monitor N"),
    }
}
